(* Correspondence runner: replays a trace produced by harness/lsmv against the functions
   extracted from the Coq model (Model) and prints one line per disagreement.
     runner <trace file>
   Output lines:
     FAIL kind=<k> op=<n> snap=<0|1> <detail>     a certificate / oracle / model disagreement
     DRIFT kind=<k> op=<n> <detail>               model function differs, certificates hold
     STAT key=value ...                           coverage counters (one line, last)      *)
open Model

(* ---------- conversions ---------- *)
let rec pos_of_int i =
  if i = 1 then XH else if i land 1 = 0 then XO (pos_of_int (i lsr 1)) else XI (pos_of_int (i lsr 1))
let n_of_int i = if i = 0 then N0 else Npos (pos_of_int i)
let n10 = n_of_int 10
let n_of_string s =
  if String.length s <= 17 then n_of_int (int_of_string s)
  else begin
    let acc = ref N0 in
    String.iter (fun c -> acc := N.add (N.mul !acc n10) (n_of_int (Char.code c - 48))) s;
    !acc
  end
let rec int_of_pos = function XH -> 1 | XO p -> 2 * int_of_pos p | XI p -> 2 * int_of_pos p + 1
let int_of_n = function N0 -> 0 | Npos p -> int_of_pos p
let byte_tab = Array.init 256 n_of_int
let bytes_of_hex s =
  if s = "-" then [] else begin
    let n = String.length s / 2 in
    List.init n (fun i -> byte_tab.(int_of_string ("0x" ^ String.sub s (2 * i) 2)))
  end
let hex_of_bytes l =
  if l = [] then "-" else String.concat "" (List.map (fun b -> Printf.sprintf "%02x" (int_of_n b)) l)
let string_of_n n =
  (* decimal; values above max_int only occur for SEQ_MAX *)
  if N.eqb n sEQ_MAX then "18446744073709551615" else string_of_int (int_of_n n)

let ty_of_code = function
  | "V" -> Value | "T" -> Tomb | "W" -> WeakTomb | "I" -> Ind | c -> failwith ("ty " ^ c)

let parse_bound s =
  if s = "u" then Unb
  else if String.length s >= 2 && String.sub s 0 2 = "i:" then Incl (bytes_of_hex (String.sub s 2 (String.length s - 2)))
  else Excl (bytes_of_hex (String.sub s 2 (String.length s - 2)))

(* ---------- state ---------- *)
type hent = { e : entry; mutable born : n option; mutable dead : n option }

let tables : (int, table) Hashtbl.t = Hashtbl.create 64
let btables : (int, btable) Hashtbl.t = Hashtbl.create 64
let table_flags : (int, string) Hashtbl.t = Hashtbl.create 8
let mts : (int, entry list) Hashtbl.t = Hashtbl.create 16
let hist : hent list ref = ref []          (* newest first *)
let snaps : (int, n) Hashtbl.t = Hashtbl.create 8
let cur : superversion list ref = ref []   (* last dumped history, oldest first *)
let op_idx = ref (-1)
let op_text = ref "init"
let nfail = ref 0
let stats : (string, int) Hashtbl.t = Hashtbl.create 32
let bump ?(by = 1) k = Hashtbl.replace stats k (by + (try Hashtbl.find stats k with Not_found -> 0))
let inv_cache : (string, bool) Hashtbl.t = Hashtbl.create 64
let last_rv : (n * n) option ref = ref None   (* concurrent runs: (snapshot, seqno of the superversion it resolved to) *)
let table_extra : (int, n * n) Hashtbl.t = Hashtbl.create 64      (* table id -> created_at (ns), file size *)
let table_blob_bytes : (int, n) Hashtbl.t = Hashtbl.create 64     (* table id -> referenced on-disk blob bytes *)
let version_blobs : (string, (int * int * int * int) list * (int * int * int * int) list) Hashtbl.t = Hashtbl.create 16
let last_bs : (int * int) option ref = ref None
let gc_before_reopen : (int * int * int * int) list option ref = ref None
let dead_before : int list ref = ref []
let tables_rewritten = ref false   (* the last step removed tables from the version *)
let version_blob_total : (string, n) Hashtbl.t = Hashtbl.create 16 (* version id -> sum of compressed bytes of its blob files *)
let now_secs = ref N0
let verdicts : (string, string) Hashtbl.t = Hashtbl.create 8   (* key hex -> verdict code *)
let pending_f : (string * string * string) list ref = ref []      (* filter calls of the current op: key, value, verdict *)
let cfilter = ref false
let hp_before_reopen : string option ref = ref None
let reopen_expect : (int * int * entry list) list list list option ref = ref None
let last_hp = ref "-"
let pointers : (string * string, int * int * int * int) Hashtbl.t = Hashtbl.create 64
let frames_seen : (int * int, int * int) Hashtbl.t = Hashtbl.create 64   (* (blob file, offset) -> (on-disk size, size) *)
(* logical view of an entry: a resolved indirection reads like a value *)
let logical (e : entry) = match e.ty with Ind -> { e with ty = Value } | _ -> e

let fail ?(snap = false) kind detail =
  incr nfail;
  Printf.printf "FAIL kind=%s op=%d snap=%d optext=%s %s\n" kind !op_idx (if snap then 1 else 0)
    (String.concat "_" (String.split_on_char ' ' !op_text)) detail
let drift kind detail =
  bump "drift";
  Printf.printf "DRIFT kind=%s op=%d %s\n" kind !op_idx detail

let alive (h : hent) (s : n) =
  (match h.born with None -> true | Some g -> N.ltb g s)
  && (match h.dead with None -> true | Some g -> N.leb s g)
let h_at s = List.filter_map (fun h -> if alive h s then Some h.e else None) !hist

let all_true _ _ = true
let code_of_ty = function Value -> "V" | Tomb -> "T" | WeakTomb -> "W" | Ind -> "I"

let show_entry_opt = function
  | None -> "."
  | Some e -> Printf.sprintf "%s@%s:%s" (hex_of_bytes e.ukey) (string_of_n e.seq0) (hex_of_bytes e.val0)

(* deque consumption of a list *)
let deque_run (l : 'a list) (pulls : string) : 'a option list =
  let arr = Array.of_list l in
  let lo = ref 0 and hi = ref (Array.length arr - 1) in
  List.init (String.length pulls) (fun i ->
      if !lo > !hi then None
      else if pulls.[i] = 'F' then (let x = arr.(!lo) in incr lo; Some x)
      else (let x = arr.(!hi) in decr hi; Some x))

let rec is_prefix p k = match p, k with
  | [], _ -> true
  | _, [] -> false
  | x :: p', y :: k' -> N.eqb x y && is_prefix p' k'

(* ---------- blob bookkeeping (C08 / C09) ----------
   Brute force from the dump: the frames of a blob file are all pointers ever seen in a
   table entry that point into it (a frame is created together with the entry that refers
   to it); the garbage of file f in version v = its frames that no table entry of v points
   to. gc_stats must equal that, stale_blob_bytes its on-disk sum, and a file with no
   reference left must be gone after the next table-rewriting compaction or drop. *)
let check_blobs (l : superversion) =
  match Hashtbl.find_opt version_blobs (string_of_n l.ver.vid) with
  | None -> ()
  | Some (files, gc) ->
    bump "blob_versions_checked";
    (* referenced pointers of this version *)
    let refs = Hashtbl.create 64 in
    List.iter (fun t -> List.iter (fun e -> match e.ty with
        | Ind -> (match Hashtbl.find_opt pointers (hex_of_bytes e.ukey, string_of_n e.seq0) with
            | Some (f, o, d, z) ->
              if not (List.exists (fun (id, _, _, _) -> id = f) files) then
                fail "dangling-pointer" (Printf.sprintf "key=%s seq=%s points into blob file %d which is not in version %s" (hex_of_bytes e.ukey) (string_of_n e.seq0) f (string_of_n l.ver.vid));
              Hashtbl.replace refs (f, o) (d, z)
            | None -> ())
        | _ -> ()) t.ents) (all_tables l.ver);
    (* all frames ever created, per file *)
    let frames = frames_seen in
    let truth f = Hashtbl.fold (fun (f', o) (d, z) (n, b, dk) ->
        if f' = f && not (Hashtbl.mem refs (f', o)) then (n + 1, b + z, dk + d) else (n, b, dk)) frames (0, 0, 0) in
    let nframes f = Hashtbl.fold (fun (f', _) _ n -> if f' = f then n + 1 else n) frames 0 in
    let stale_truth = ref 0 in
    let dead_now = ref [] in
    List.iter (fun (f, items, _comp, _uncomp) ->
        if nframes f <> items then
          drift "blob-frames" (Printf.sprintf "file %d has %d items but %d pointers were ever seen" f items (nframes f))
        else begin
          let (tn, tb, td) = truth f in
          stale_truth := !stale_truth + td;
          if tn = items then dead_now := f :: !dead_now;
          let (gn, gb, gd) = (match List.find_opt (fun (id, _, _, _) -> id = f) gc with Some (_, a, b, c) -> (a, b, c) | None -> (0, 0, 0)) in
          bump "gc_entries_checked";
          if (gn, gb, gd) <> (tn, tb, td) then
            fail "gc-stats" (Printf.sprintf "blob file %d: recorded garbage (len=%d bytes=%d on_disk=%d) but actually unreferenced (len=%d bytes=%d on_disk=%d)" f gn gb gd tn tb td)
        end) files;
    List.iter (fun (id, a, b, c) -> if not (List.exists (fun (f, _, _, _) -> f = id) files) then
                  fail "gc-ghost" (Printf.sprintf "gc statistics keep an entry (len=%d bytes=%d on_disk=%d) for blob file %d which is not part of the version" a b c id)) gc;
    (match !last_bs with
     | Some (stale, cnt) ->
       if cnt <> List.length files then fail "blob-count" (Printf.sprintf "blob_file_count=%d but the version lists %d" cnt (List.length files));
       let gc_sum = List.fold_left (fun a (_, _, _, d) -> a + d) 0 gc in
       if stale <> gc_sum then fail "stale-bytes" (Printf.sprintf "stale_blob_bytes=%d but gc entries sum to %d" stale gc_sum)
     | None -> ());
    (* promptness: a file that had no reference left before a table-rewriting step must be gone *)
    let words = String.split_on_char ' ' !op_text in
    (match words with
     | ("major" | "droprange") :: _ when !tables_rewritten ->
       List.iter (fun f -> if List.exists (fun (id, _, _, _) -> id = f) files && List.mem f !dead_now then
                     fail "dead-file-kept" (Printf.sprintf "blob file %d had no reference before %s and is still part of the version" f (List.hd words))) !dead_before
     | _ -> ());
    dead_before := !dead_now;
    (match !gc_before_reopen with
     | Some g -> gc_before_reopen := None;
       (* statistics of the files that are part of the version must survive unchanged
          (entries for files that already left the version are dropped at recovery) *)
       let live l = List.sort compare (List.filter (fun (id, _, _, _) -> List.exists (fun (f, _, _, _) -> f = id) files) l) in
       if live g <> live gc then fail "gc-reopen" "blob GC statistics changed across reopen"
     | None -> ())

(* ---------- checks on a dump ---------- *)
let sv_signature (sv : superversion) =
  let b = Buffer.create 64 in
  let mt m = Buffer.add_string b (Printf.sprintf "m%d:%d," (int_of_n m.mid) (List.length m.ments)) in
  mt sv.active; List.iter mt sv.sealed;
  List.iter (fun lvl -> Buffer.add_char b ';';
              List.iter (fun r -> Buffer.add_char b '|';
                          List.iter (fun t -> Buffer.add_string b (string_of_int (int_of_n t.tid)); Buffer.add_char b ',') r) lvl)
    sv.ver.levels;
  Buffer.contents b

let explain_inv (sv : superversion) =
  let parts = ref [] in
  let add s = parts := s :: !parts in
  if not (sorted_b sv.active.ments) then add "active-unsorted";
  List.iter (fun m -> if not (sorted_b m.ments) then add (Printf.sprintf "sealed-%d-unsorted" (int_of_n m.mid))) sv.sealed;
  if List.length sv.ver.levels <> 7 then add "levels<>7";
  List.iter (fun r ->
      List.iter (fun t ->
          if not (sorted_b t.ents) then add (Printf.sprintf "table-%d-unsorted" (int_of_n t.tid));
          if not (table_meta_ok t) then add (Printf.sprintf "table-%d-meta" (int_of_n t.tid))) r;
      if r = [] then add "empty-run";
      if not (run_disjoint_b r) then add (Printf.sprintf "run-overlap-at-table-%d" (match r with t :: _ -> int_of_n t.tid | [] -> -1)))
    (all_runs sv.ver);
  if not (nodup_N_b (List.map (fun t -> t.tid) (all_tables sv.ver))) then add "dup-table-id";
  if not (recency_b (containers sv)) then add "recency";
  String.concat "," (List.rev !parts)

let opt_n_of_string s = if s = "-" then None else Some (n_of_string s)
let opt_n_eq a b = match a, b with
  | None, None -> true | Some x, Some y -> N.eqb x y | _ -> false
let show_opt_n = function None -> "-" | Some x -> string_of_n x

let check_dump ~(hp : string) ~(hm : string) ~(hs : string) (svs : superversion list) =
  bump "dumps";
  (* 1. structural invariant of every retained superversion (cached by identity) *)
  List.iter (fun sv ->
      let sg = sv_signature sv in
      let ok =
        match Hashtbl.find_opt inv_cache sg with
        | Some r -> r
        | None ->
          bump "sv_inv_checked";
          let r = check_inv_sv sv in
          Hashtbl.replace inv_cache sg r;
          if not r then fail "inv" (Printf.sprintf "sv_seq=%s vid=%s why=%s" (string_of_n sv.sv_seq) (string_of_n sv.ver.vid) (explain_inv sv));
          r in
      ignore ok) svs;
  (* read-path disagreement flags recorded while dumping tables *)
  (match latest svs with
   | None -> fail "nolatest" ""
   | Some l ->
     List.iter (fun t -> match Hashtbl.find_opt table_flags (int_of_n t.tid) with
         | Some f -> fail "readpaths" (Printf.sprintf "table=%d %s" (int_of_n t.tid) f); Hashtbl.remove table_flags (int_of_n t.tid)
         | None -> ()) (all_tables l.ver);
     (* 2. high-water marks *)
     bump "marks_checked";
     if not (opt_n_eq (highest_persisted l) (opt_n_of_string hp)) then
       fail "marks" (Printf.sprintf "persisted impl=%s true-max=%s" hp (show_opt_n (highest_persisted l)));
     if not (opt_n_eq (impl_highest_persisted l) (opt_n_of_string hp)) then
       drift "marks-model" (Printf.sprintf "persisted impl=%s model-getter=%s" hp (show_opt_n (impl_highest_persisted l)));
     (match !hp_before_reopen with
      | Some before when before <> hp ->
        fail "marks" (Printf.sprintf "persisted mark changed across reopen: before=%s after=%s" before hp)
      | _ -> ());
     hp_before_reopen := None;
     last_hp := hp;
     if not (opt_n_eq (highest_memtable l) (opt_n_of_string hm)) then
       fail "marks" (Printf.sprintf "memtable impl=%s model=%s" hm (show_opt_n (highest_memtable l)));
     if not (opt_n_eq (highest_overall l) (opt_n_of_string hs)) then
       fail "marks" (Printf.sprintf "overall impl=%s model=%s" hs (show_opt_n (highest_overall l)));
     check_blobs l;
     (* 3. content of the latest superversion reads like the history at the top snapshot *)
     bump "agree_top";
     let c = List.map logical (content l) in
     (match content_diff c (h_at sEQ_MAX) sEQ_MAX with
      | None -> ()
      | Some k ->
        fail "agree" (Printf.sprintf "key=%s content=%s history=%s" (hex_of_bytes k)
                        (show_entry_opt (spec_get c k sEQ_MAX)) (show_entry_opt (spec_get (h_at sEQ_MAX) k sEQ_MAX)))));
  (* 4. every held snapshot still reads its history *)
  Hashtbl.iter (fun id s ->
      bump "agree_snap";
      match version_for_snapshot svs s with
      | None -> fail ~snap:true "nosv" (Printf.sprintf "snap=%d S=%s" id (string_of_n s))
      | Some sv ->
        let c = List.map logical (content sv) in
        (match content_diff c (h_at s) s with
         | None -> ()
         | Some k ->
           fail ~snap:true "agree" (Printf.sprintf "snapid=%d S=%s key=%s content=%s history=%s" id (string_of_n s) (hex_of_bytes k)
                                      (show_entry_opt (spec_get c k s)) (show_entry_opt (spec_get (h_at s) k s))))) snaps

(* ---------- model agreement for flush / compaction (drift diagnostic) ---------- *)
let table_ids (sv : superversion) = List.map (fun t -> int_of_n t.tid) (all_tables sv.ver)

let entries_eq a b = List.length a = List.length b && List.for_all2 (fun x y -> entry_eqb (logical x) (logical y)) a b

let level_of_table (sv : superversion) (id : int) =
  let rec go i = function
    | [] -> -1
    | lvl :: rest -> if List.exists (fun r -> List.exists (fun t -> int_of_n t.tid = id) r) lvl then i else go (i + 1) rest in
  go 0 sv.ver.levels

let rec nat_of_int i = if i <= 0 then O else S (nat_of_int (i - 1))
let layout (v : version) =
  String.concat ";" (List.map (fun lvl -> String.concat "|" (List.map (fun r -> String.concat "," (List.map (fun t -> string_of_int (int_of_n t.tid)) r)) lvl)) v.levels)
let by_kmin ts = List.sort (fun a b -> match key_cmp a.kmin b.kmin with Lt -> -1 | Eq -> 0 | Gt -> 1) ts

let check_step_model ~(wm : n) (pre : superversion) (post : superversion) =
  let pre_ids = table_ids pre and post_ids = table_ids post in
  let removed = List.filter (fun i -> not (List.mem i post_ids)) pre_ids in
  let added = List.filter (fun i -> not (List.mem i pre_ids)) post_ids in
  let added_tabs = List.filter (fun t -> List.mem (int_of_n t.tid) added) (all_tables post.ver) in
  let out_impl = List.concat_map (fun t -> t.ents) (List.sort (fun a b -> match key_cmp a.kmin b.kmin with Lt -> -1 | Eq -> 0 | Gt -> 1) added_tabs) in
  let post_mts = post.active :: post.sealed in
  let gone_sealed = List.filter (fun m -> m.ments <> [] && not (List.exists (fun m' -> int_of_n m'.mid = int_of_n m.mid) post_mts)) (pre.sealed @ [pre.active]) in
  if gone_sealed <> [] && removed = [] && added <> [] then begin
    (* flush: tables = stream(merge(sealed)) with the flush watermark, no eviction *)
    bump "flush_steps";
    let input = merge_sorted (List.map (fun m -> m.ments) gone_sealed) in
    let (out, _) = run_stream wm false no_filter input in
    if List.for_all (fun t -> N.eqb t.gseq N0) added_tabs then begin
      if not (entries_eq out out_impl) then
        drift "flush-stream" (Printf.sprintf "model=%d impl=%d entries" (List.length out) (List.length out_impl))
      else bump "flush_stream_agree";
      let mv = with_new_l0_run pre.ver (by_kmin added_tabs) in
      if layout mv <> layout post.ver then drift "layout-flush" (Printf.sprintf "model=%s impl=%s" (layout mv) (layout post.ver))
      else bump "layout_agree";
      if not (l0_choice_ok pre.ver (by_kmin added_tabs)) then drift "l0-choice" "l0_choice_ok false on a real flush"
    end
  end else if removed <> [] && added <> [] then begin
    (* merge: output = stream(merge(inputs)), eviction iff destination is the last level *)
    bump "merge_steps";
    let dest = level_of_table post (List.hd added) in
    let inputs = List.filter (fun t -> List.mem (int_of_n t.tid) removed) (all_tables pre.ver) in
    let input = merge_sorted (List.map (fun t -> t.ents) inputs) in
    let evict = (dest = 6) in
    let model_calls = ref [] in
    let flt (e : entry) : verdict =
      let kh = hex_of_bytes e.ukey in
      let v = (try Hashtbl.find verdicts kh with Not_found -> "k") in
      model_calls := (kh, hex_of_bytes e.val0, v) :: !model_calls;
      if v = "k" then Keep
      else if v = "x" then Replace (Tomb, [])
      else if v = "w" then Replace (WeakTomb, [])
      else if v = "d" then Drop
      else Replace (Value, bytes_of_hex (String.sub v 2 (String.length v - 2))) in
    let (out, _) = run_stream wm evict (if !cfilter then flt else no_filter) input in
    if !cfilter then begin
      bump "filtered_merges";
      let impl_calls = List.rev !pending_f in
      let mc = List.rev !model_calls in
      if mc <> impl_calls then
        drift "filter-calls" (Printf.sprintf "model=%d impl=%d calls; first model=[%s]" (List.length mc) (List.length impl_calls)
                                (match mc with (a, b, c) :: _ -> a ^ " " ^ b ^ " " ^ c | [] -> ""))
      else bump "filter_calls_agree"
    end;
    if not (entries_eq out out_impl) then
      drift "merge-stream" (Printf.sprintf "dest=%d evict=%b model=%d impl=%d entries" dest evict (List.length out) (List.length out_impl))
    else bump "merge_stream_agree";
    let removed_n = List.map n_of_int removed in
    let mv = with_merge pre.ver removed_n (by_kmin added_tabs) (nat_of_int dest) in
    if layout mv <> layout post.ver then drift "layout-merge" (Printf.sprintf "model=%s impl=%s" (layout mv) (layout post.ver))
    else bump "layout_agree";
    if not (merge_choice_ok pre.ver removed_n (by_kmin added_tabs) (nat_of_int dest)) then
      drift "merge-choice" (Printf.sprintf "merge_choice_ok false on a real merge into L%d" dest);
    if evict then bump "evicting_merges"
  end else if removed <> [] && added = [] then begin
    bump "drop_steps";
    let words = String.split_on_char ' ' !op_text in
    (match words with
     | ("droprange" | "fifo") :: _ ->
       let mv = with_dropped pre.ver (List.map n_of_int removed) in
       if layout mv <> layout post.ver then drift "layout-drop" (Printf.sprintf "model=%s impl=%s" (layout mv) (layout post.ver))
       else bump "layout_agree"
     | _ -> ())
  end
  else if removed = [] && added = [] && pre_ids <> [] then begin
    let moved_ids = List.filter (fun i -> level_of_table pre i <> level_of_table post i) pre_ids in
    if moved_ids <> [] then begin
      bump "move_steps";
      let dest = level_of_table post (List.hd moved_ids) in
      let ids_n = List.map n_of_int moved_ids in
      let mv = with_moved pre.ver ids_n (nat_of_int dest) in
      if layout mv <> layout post.ver then drift "layout-move" (Printf.sprintf "model=%s impl=%s" (layout mv) (layout post.ver))
      else bump "layout_agree";
      if not (move_choice_ok pre.ver ids_n (nat_of_int dest)) then
        drift "move-choice" (Printf.sprintf "move_choice_ok false on a real move into L%d" dest)
    end
  end

(* ---------- the Leveled strategy (Model/Leveled.v) ----------
   The model replaces the floating-point level scores by oracles; [leveled_choices] lists what
   the strategy can return for every oracle value.  The choice the real crate made (read off
   the dumps before / after a `leveled <l0> <target> <wm>` operation: tables that disappeared +
   level of the new ones = Merge; tables that changed level = Move; nothing = DoNothing) must be
   one of them.  A mismatch is model drift (the theorems C01_leveled_* then speak about a strategy
   the crate no longer implements); safety of the real choice itself is checked independently on
   every step by merge_choice_ok / move_choice_ok above. *)
let check_leveled_choice (pre : superversion) (post : superversion) =
  match String.split_on_char ' ' !op_text with
  | "leveled" :: l0 :: target :: _ ->
    let size (t : table) = (try snd (Hashtbl.find table_extra (int_of_n t.tid)) with Not_found -> N0) in
    let choices = leveled_choices size (n_of_string l0) (n_of_string target) pre.ver [] in
    let norm ids = List.sort compare (List.map int_of_n ids) in
    let rec int_of_nat = function O -> 0 | S m -> 1 + int_of_nat m in
    let show = function
      | LDoNothing -> "nothing"
      | LMove (ids, d) -> Printf.sprintf "move[%s]->L%d" (String.concat "," (List.map string_of_int (norm ids))) (int_of_nat d)
      | LMerge (ids, d) -> Printf.sprintf "merge[%s]->L%d" (String.concat "," (List.map string_of_int (norm ids))) (int_of_nat d) in
    let pre_ids = table_ids pre and post_ids = table_ids post in
    let removed = List.sort compare (List.filter (fun i -> not (List.mem i post_ids)) pre_ids) in
    let added = List.filter (fun i -> not (List.mem i pre_ids)) post_ids in
    let real =
      if removed <> [] then
        (match added with
         | a :: _ -> Some (Printf.sprintf "merge[%s]->L%d" (String.concat "," (List.map string_of_int removed)) (level_of_table post a))
         | [] -> None (* everything was evicted: the destination cannot be read off the dump *))
      else begin
        let moved = List.sort compare (List.filter (fun i -> level_of_table pre i <> level_of_table post i) pre_ids) in
        if moved = [] then Some "nothing"
        else Some (Printf.sprintf "move[%s]->L%d" (String.concat "," (List.map string_of_int moved)) (level_of_table post (List.hd moved)))
      end in
    (match real with
     | None -> bump "leveled_choice_unreadable"
     | Some r ->
       let shown = List.sort_uniq compare (List.map show choices) in
       let merge_prefix = (match real with Some r' when removed <> [] && added = [] -> r' | _ -> r) in
       ignore merge_prefix;
       if List.mem r shown then bump "leveled_choice_agree"
       else drift "leveled-choice" (Printf.sprintf "impl=%s model_can=[%s]" r (String.concat " " shown)))
  | _ -> ()

(* ---------- operations that remove data by design: drop_range, clear, fifo ----------
   The ordered-map history is adjusted exactly as the property allows and nothing more:
   clear: every earlier write dies for snapshots above the clear's version seqno;
   drop_range(R)/fifo: only keys of the removed tables are touched (for drop_range they must
   lie inside R, otherwise FAIL kind=drop-outside); for those keys the history visible to
   later snapshots is rebased on what is physically left; earlier snapshots keep their view. *)
let apply_destructive_op (pre : superversion) (post : superversion) =
  let words = String.split_on_char ' ' !op_text in
  let changed = not (N.eqb pre.sv_seq post.sv_seq) in
  let g = post.sv_seq in
  let rebase_keys (keys : key list) =
    let is_k (k : key) = List.exists (fun k' -> key_eqb k k') keys in
    List.iter (fun h -> if h.dead = None && alive h sEQ_MAX && is_k h.e.ukey then h.dead <- Some g) !hist;
    List.iter (fun e -> if is_k e.ukey then hist := { e = logical e; born = Some g; dead = None } :: !hist) (content post) in
  match words with
  | "clear" :: _ when changed ->
    bump "clears";
    List.iter (fun h -> if h.dead = None then h.dead <- Some g) !hist
  | "clear" :: _ ->
    (* clear() returned without publishing a new version (the unchanged crate always publishes
       one): whatever was written before must nevertheless be gone for every later read *)
    bump "clears_without_version";
    let g' = List.fold_left (fun acc h -> if N.ltb acc h.e.seq0 then h.e.seq0 else acc) pre.sv_seq !hist in
    List.iter (fun h -> if h.dead = None then h.dead <- Some g') !hist
  | "droprange" :: lo :: hi :: _ ->
    let lo = parse_bound lo and hi = parse_bound hi in
    let pre_ids = table_ids pre and post_ids = table_ids post in
    let removed = List.filter (fun t -> not (List.mem (int_of_n t.tid) post_ids)) (all_tables pre.ver) in
    let added = List.filter (fun i -> not (List.mem i pre_ids)) post_ids in
    if added <> [] then fail "drop-added" "drop_range created tables";
    (* model agreement: the DropRange strategy's selection *)
    let runs = List.map (fun r -> List.map (fun t -> { t_id = t.tid; t_min = t.kmin; t_max = t.kmax }) r) (all_runs pre.ver) in
    let want = (if bounds_is_empty lo hi then None else drop_range_choose lo hi runs []) in
    let want_ids = List.sort compare (match want with None -> [] | Some l -> List.map int_of_n l) in
    let got_ids = List.sort compare (List.map (fun t -> int_of_n t.tid) removed) in
    bump "droprange_model_checked";
    if want_ids <> got_ids then
      drift "model-droprange" (Printf.sprintf "impl=[%s] model=[%s]" (String.concat "," (List.map string_of_int got_ids)) (String.concat "," (List.map string_of_int want_ids)));
    if removed <> [] then bump "droprange_effective";
    List.iter (fun t ->
        List.iter (fun e -> if not (in_bounds lo hi e.ukey) then
                      fail "drop-outside" (Printf.sprintf "table=%d key=%s outside the dropped range" (int_of_n t.tid) (hex_of_bytes e.ukey))) t.ents) removed;
    if removed <> [] && not changed then fail "drop-nosv" "tables vanished without a new version";
    rebase_keys (List.concat_map (fun t -> List.map (fun e -> e.ukey) t.ents) removed)
  | "fifo" :: limit :: ttl :: _ ->
    let post_ids = table_ids post in
    let removed = List.filter (fun t -> not (List.mem (int_of_n t.tid) post_ids)) (all_tables pre.ver) in
    if removed <> [] then bump "fifo_effective";
    bump "fifo_ops";
    (* the tables FIFO looks at: level 0 *)
    let l0 = (match pre.ver.levels with l :: _ -> List.concat l | [] -> []) in
    let info t =
      let (created, size) = (try Hashtbl.find table_extra (int_of_n t.tid) with Not_found -> (N0, N0)) in
      let blob = (try Hashtbl.find table_blob_bytes (int_of_n t.tid) with Not_found -> N0) in
      { f_id = t.tid; f_created = created; f_size = size; f_blob = blob } in
    let infos = List.map info l0 in
    let limit_n = n_of_string limit in
    let ttl_n = if ttl = "-" then None else Some (n_of_string ttl) in
    let now_ns = N.mul !now_secs (n_of_string "1000000000") in
    let blob_total = (try Hashtbl.find version_blob_total (string_of_n pre.ver.vid) with Not_found -> N0) in
    let removed_ids = List.sort compare (List.map (fun t -> int_of_n t.tid) removed) in
    (* (1) the property itself, decided directly on the real outcome *)
    let cutoff = (match ttl_n with Some s when not (N.eqb s N0) -> Some (N.sub now_ns (N.mul s (n_of_string "1000000000"))) | _ -> None) in
    let expired f = (match cutoff with Some c -> N.leb f.f_created c | None -> false) in
    let is_removed f = List.mem (int_of_n f.f_id) removed_ids in
    List.iter (fun t -> if not (List.exists (fun l -> N.eqb l.tid t.tid) l0) then
                  fail "fifo-deeper-level" (Printf.sprintf "table %d removed from a level below L0" (int_of_n t.tid))) removed;
    List.iter (fun f -> if expired f && not (is_removed f) then
                  fail "fifo-expired-kept" (Printf.sprintf "table %d is older than the TTL but was retained" (int_of_n f.f_id))) infos;
    List.iter (fun r -> if is_removed r && not (expired r) then
                  List.iter (fun t -> if not (is_removed t) && N.ltb t.f_created r.f_created then
                                fail "fifo-not-oldest" (Printf.sprintf "removed table %d (created %s) is newer than retained table %d (created %s)"
                                                         (int_of_n r.f_id) (string_of_n r.f_created) (int_of_n t.f_id) (string_of_n t.f_created))) infos) infos;
    let total = List.fold_left (fun a f -> N.add a f.f_size) blob_total infos in
    if N.leb total limit_n && not (List.exists expired infos) && removed <> [] then
      fail "fifo-within-limits" (Printf.sprintf "tree within limit (%s <= %s) and TTL, yet %d tables were removed" (string_of_n total) limit (List.length removed));
    (* (2) model agreement: the extracted selection function *)
    let want = List.sort compare (List.map int_of_n (fifo_choose_full limit_n ttl_n now_ns blob_total infos)) in
    if want <> removed_ids then
      drift "model-fifo" (Printf.sprintf "impl=[%s] model=[%s]" (String.concat "," (List.map string_of_int removed_ids)) (String.concat "," (List.map string_of_int want)))
    else bump "fifo_model_agree";
    rebase_keys (List.concat_map (fun t -> List.map (fun e -> e.ukey) t.ents) removed)
  | _ -> ()

(* ---------- compaction filter verdicts (C17) ----------
   Each call the real filter logged (key, value shown, verdict returned) is applied to the
   ordered-map history exactly as the property words it: the examined entry = the newest
   not-yet-processed alive non-tombstone write of that key with that value; Keep: nothing;
   ReplaceValue v': same key and seqno now carry v'; Remove / RemoveWeak: a (weak) tombstone
   at that seqno; Destroy: the entry is gone. All of it only for snapshots above the
   compaction's version seqno g. *)
let apply_filter_calls (pre : superversion) (post : superversion) =
  let calls = List.rev !pending_f in
  pending_f := [];
  if calls <> [] && not (N.eqb pre.ver.vid post.ver.vid) then begin
    let g = post.sv_seq in
    let processed : (hent) list ref = ref [] in
    (* the filter only ever sees entries of the tables this compaction consumed: an equal value
       of the same key that still sits in a memtable or in an untouched table is not a candidate
       (the filter API shows key and value, not the seqno) *)
    let post_ids = List.map (fun t -> int_of_n t.tid) (all_tables post.ver) in
    let inputs = List.filter (fun t -> not (List.mem (int_of_n t.tid) post_ids)) (all_tables pre.ver) in
    let in_inputs (e : entry) =
      List.exists (fun t -> List.exists (fun e' -> key_eqb e'.ukey e.ukey && N.eqb e'.seq0 e.seq0) t.ents) inputs in
    List.iter (fun (kh, vh, verdict) ->
        let k = bytes_of_hex kh and v = bytes_of_hex vh in
        let cands = List.filter (fun h -> h.dead = None && (match h.born with None -> true | Some b -> not (N.eqb b g)) && key_eqb h.e.ukey k
                                          && not (is_tomb h.e) && list_N_eqb h.e.val0 v && not (List.memq h !processed)
                                          && (inputs = [] || in_inputs h.e)) !hist in
        let best = List.fold_left (fun acc h -> match acc with None -> Some h | Some b -> if N.ltb b.e.seq0 h.e.seq0 then Some h else acc) None cands in
        match best with
        | None -> fail "filter-unknown-item" (Printf.sprintf "filter was shown key=%s value=%s which matches no live write" kh vh)
        | Some h ->
          processed := h :: !processed;
          let repl ty value = hist := { e = { h.e with ty; val0 = value }; born = Some g; dead = None } :: !hist in
          if verdict = "k" then ()
          else begin
            h.dead <- Some g;
            if verdict = "x" then repl Tomb []
            else if verdict = "w" then repl WeakTomb []
            else if verdict = "d" then ()
            else repl Value (bytes_of_hex (String.sub verdict 2 (String.length verdict - 2)))
          end) calls
  end

(* ---------- trace interpreter ---------- *)
let () =
  let file = Sys.argv.(1) in
  let ic = open_in file in
  let lines = ref [] in
  (try while true do lines := input_line ic :: !lines done with End_of_file -> ());
  close_in ic;
  let lines = Array.of_list (List.rev !lines) in
  let n = Array.length lines in
  let i = ref 0 in
  let wm = ref N0 in
  let pending_ingest : (key * vtype * n list) list ref = ref [] in
  let saw_end = ref false in
  let read_entries cnt =
    let l = ref [] in
    for _ = 1 to cnt do
      let t = String.split_on_char ' ' lines.(!i) in
      (match t with
       | [ "e"; k; s; ty; v ] ->
         l := { ukey = bytes_of_hex k; seq0 = n_of_string s; ty = ty_of_code ty; val0 = bytes_of_hex v } :: !l
       | [ "e"; k; s; "I"; v; f; o; d; z ] ->
         (* blob indirection: the entry carries the RESOLVED value; the pointer is kept aside *)
         let bad = String.length v >= 3 && (String.sub v 0 3 = "UNR" || String.sub v 0 3 = "ERR" || String.sub v 0 3 = "NOB") in
         if bad then fail "resolve" (Printf.sprintf "key=%s seq=%s %s" k s v);
         Hashtbl.replace pointers (k, s) (int_of_string f, int_of_string o, int_of_string d, int_of_string z);
         Hashtbl.replace frames_seen (int_of_string f, int_of_string o) (int_of_string d, int_of_string z);
         l := { ukey = bytes_of_hex k; seq0 = n_of_string s; ty = Ind; val0 = (if bad then [] else bytes_of_hex v) } :: !l
       | _ -> failwith ("bad entry line: " ^ lines.(!i)));
      incr i
    done;
    List.rev !l in
  while !i < n do
    let line = lines.(!i) in
    incr i;
    let t = String.split_on_char ' ' line in
    (match t with
     | "C" :: rest -> cfilter := List.mem "cfilter=1" rest
     | "H" :: rest ->
       incr op_idx;
       op_text := String.concat " " rest;
       bump "ops";
       (match rest with
        | "reopen" :: _ ->
          (* after a reopen the history the tree can be held to is exactly what its tables
             held (unflushed writes are gone; versions that compaction legitimately
             collected are gone; the caller's counters restart above the highest persisted
             seqno).  Agreement of that table content with the full write history at the
             top snapshot was certified at the previous dump. *)
          (match latest !cur with
           | Some l ->
             hist := List.map (fun e -> { e = logical e; born = None; dead = None })
                 (List.concat_map (fun t -> t.ents) (all_tables l.ver))
           | None -> ());
          hp_before_reopen := Some !last_hp;
          (match latest !cur with
           | Some l -> (match Hashtbl.find_opt version_blobs (string_of_n l.ver.vid) with Some (_, g) -> gc_before_reopen := Some g | None -> ())
           | None -> ());
          dead_before := [];
          Hashtbl.reset pointers;
          (match latest !cur with
           | Some l ->
             let keep = (match Hashtbl.find_opt version_blobs (string_of_n l.ver.vid) with Some (files, _) -> List.map (fun (id, _, _, _) -> id) files | None -> []) in
             let drop = Hashtbl.fold (fun (f, o) _ acc -> if List.mem f keep then acc else (f, o) :: acc) frames_seen [] in
             List.iter (Hashtbl.remove frames_seen) drop
           | None -> ());
          Hashtbl.reset version_blobs;
          (match latest !cur with
           | Some l -> reopen_expect := Some (List.map (fun lvl -> List.map (fun r -> List.map (fun t -> (int_of_n t.tid, int_of_n t.gseq, List.map logical t.ents)) r) lvl) l.ver.levels)
           | None -> ());
          Hashtbl.reset tables; Hashtbl.reset btables; Hashtbl.reset mts; Hashtbl.reset inv_cache;
          Hashtbl.reset snaps;
          bump "reopens"
        | [ "verdict"; k; v ] -> Hashtbl.replace verdicts k v
        | _ -> ());
       pending_f := []
     | [ "W"; k; s; ty; v ] ->
       bump "writes";
       hist := { e = { ukey = bytes_of_hex k; seq0 = n_of_string s; ty = ty_of_code ty; val0 = bytes_of_hex v }; born = None; dead = None } :: !hist
     | [ "IW"; k; ty; v ] -> pending_ingest := (bytes_of_hex k, ty_of_code ty, bytes_of_hex v) :: !pending_ingest
     | "STATC" :: kvs -> List.iter (fun kv -> match String.split_on_char '=' kv with
         | [ k; v ] -> bump ~by:(int_of_string v) k | _ -> ()) kvs
     | [ "WM"; w ] -> wm := n_of_string w
     | [ "RV"; sq; svq; hs ] ->
       last_rv := Some (n_of_string sq, n_of_string svq);
       (* the snapshot must resolve to the newest retained superversion with seqno < S *)
       let s' = n_of_string sq in
       let seqs = List.map n_of_string (String.split_on_char ',' hs) in
       let want = if N.eqb s' N0 then (match seqs with x :: _ -> Some x | [] -> None)
         else List.fold_left (fun acc x -> if N.ltb x s' then Some x else acc) None seqs in
       bump "resolutions_checked";
       (match want with
        | Some w when N.eqb w (n_of_string svq) -> ()
        | _ -> fail "resolve-sv" (Printf.sprintf "S=%s resolved to superversion %s, history seqnos %s" sq svq hs))
     | [ "NOW"; secs ] -> now_secs := n_of_string secs
     | "SKIP" :: _ -> bump "skipped"
     | [ "F"; k; v; verdict ] -> bump "filter_calls"; pending_f := (k, v, verdict) :: !pending_f
     | "R" :: "ok" :: _ -> ()
     | "R" :: "experr" :: _ -> bump "expected_errors"
     | "R" :: "err" :: what :: rest -> fail "err" (Printf.sprintf "what=%s %s" what (String.concat " " rest))
     | "PANIC" :: _ :: rest -> fail "panic" (String.concat " " rest)
     | "FATAL" :: rest -> fail "fatal" (String.concat "_" rest)
     | [ "K"; id; s ] -> Hashtbl.replace snaps (int_of_string id) (n_of_string s); bump "snapshots"
     | [ "KR"; id ] -> Hashtbl.remove snaps (int_of_string id)
     | "M" :: id :: cnt :: _ ->
       let ents = read_entries (int_of_string cnt) in
       Hashtbl.replace mts (int_of_string id) ents
     | "T" :: id :: g :: slo :: shi :: ni :: nt :: nw :: kmin :: kmax :: created :: size :: _hi :: cnt :: flags ->
       let ents = read_entries (int_of_string cnt) in
       Hashtbl.replace table_extra (int_of_string id) (n_of_string created, n_of_string size);
       Hashtbl.remove table_blob_bytes (int_of_string id);
       let tb = { tid = n_of_string id; gseq = n_of_string g; ents; kmin = bytes_of_hex kmin; kmax = bytes_of_hex kmax;
                  slo = n_of_string slo; shi = n_of_string shi; n_items = n_of_string ni; n_tomb = n_of_string nt; n_weak = n_of_string nw } in
       Hashtbl.replace tables (int_of_string id) tb;
       if flags <> [] then Hashtbl.replace table_flags (int_of_string id) (String.concat "," flags)
     | [ "TB"; tid; kind; nb ] ->
       (* block structure of a real table: validate it with the extracted checker whose
          soundness is C12_btable_check_ok (=> every theorem of Proofs/BlockIndex.v applies
          to this very table) and keep it for the table-level point reads below *)
       let tid_i = int_of_string tid in
       if String.length kind >= 4 && String.sub kind 0 4 = "ERR:" then
         fail "block-index" (Printf.sprintf "table %s: reading the block structure failed: %s" tid kind)
       else begin
         let nblocks = int_of_string nb in
         let blocks = ref [] and handles = ref [] in
         for bi = 0 to nblocks - 1 do
           (match String.split_on_char ' ' lines.(!i) with
            | [ "BH"; ek; sq; cnt ] ->
              incr i;
              let items = ref [] in
              for _ = 1 to int_of_string cnt do
                (match String.split_on_char ' ' lines.(!i) with
                 | [ "be"; k; sq'; ty ] -> items := { ukey = bytes_of_hex k; seq0 = n_of_string sq'; ty = ty_of_code ty; val0 = [] } :: !items
                 | _ -> failwith ("bad block entry line: " ^ lines.(!i)));
                incr i
              done;
              blocks := List.rev !items :: !blocks;
              handles := { h_end_key = bytes_of_hex ek; h_seqno = n_of_string sq; h_idx = nat_of_int bi } :: !handles
            | _ -> failwith ("bad block handle line: " ^ lines.(!i)))
         done;
         (match Hashtbl.find_opt tables tid_i with
          | None -> ()
          | Some tb ->
            let blocks = List.rev !blocks and hs = List.rev !handles in
            let bt = { bt_id = tb.tid; bt_gseq = tb.gseq; bt_slo = tb.slo; bt_nblocks = nat_of_int nblocks;
                       bt_blocks = blocks; bt_index = IxFull hs } in
            bump "block_tables"; bump ~by:nblocks "blocks";
            if nblocks >= 2 then bump "multi_block_tables";
            if not (btable_check bt) then
              fail "block-index" (Printf.sprintf "table %s (%s index, %d blocks): btable_check rejects the dumped block structure (empty block, unsorted items, or the index handles are not (last key, last seqno) of each block)" tid kind nblocks)
            else bump "block_index_checked";
            let flat = List.concat blocks in
            if List.length flat <> List.length tb.ents
            || not (List.for_all2 (fun (a : entry) (b : entry) -> key_eqb a.ukey b.ukey && N.eqb (N.add a.seq0 tb.gseq) b.seq0 && a.ty = b.ty) flat tb.ents) then
              fail "block-content" (Printf.sprintf "table %s: the items of its data blocks (+ global seqno) are not the items its iterator returns" tid);
            Hashtbl.replace btables tid_i bt)
       end
     | [ "TG"; tid; k; sq; r ] ->
       (match Hashtbl.find_opt btables (int_of_string tid) with
        | None -> ()
        | Some bt ->
          bump "table_gets";
          let m = btable_get all_true bt (bytes_of_hex k) (n_of_string sq) in
          let ms = (match m with None -> "." | Some e -> Printf.sprintf "%s:%s" (string_of_n e.seq0) (code_of_ty e.ty)) in
          if ms <> r then fail "table-get" (Printf.sprintf "table=%s key=%s S=%s crate=%s model=%s" tid k sq r ms)
          else bump "table_gets_agree")
     | "D" :: cnt :: kvs ->
       let kv = List.filter_map (fun s -> match String.index_opt s '=' with
           | Some j -> Some (String.sub s 0 j, String.sub s (j + 1) (String.length s - j - 1)) | None -> None) kvs in
       let get k = try List.assoc k kv with Not_found -> "-" in
       let svs = ref [] in
       for _ = 1 to int_of_string cnt do
         (match String.split_on_char ' ' lines.(!i) with
          | [ "S"; sq; am; sealed; vid; lv ] ->
            let mt id = { mid = n_of_int id; ments = (try Hashtbl.find mts id with Not_found -> []) } in
            let sealed = if sealed = "-" then [] else List.map (fun s -> mt (int_of_string s)) (String.split_on_char ',' sealed) in
            let levels =
              if lv = "-" then [] else
                List.map (fun l ->
                    if l = "" then [] else
                      List.map (fun r -> List.map (fun s -> Hashtbl.find tables (int_of_string s)) (String.split_on_char ',' r))
                        (String.split_on_char '|' l))
                  (String.split_on_char ';' lv) in
            svs := { sv_seq = n_of_string sq; active = mt (int_of_string am); sealed; ver = { vid = n_of_string vid; levels } } :: !svs
          | _ -> failwith ("bad S line: " ^ lines.(!i)));
         incr i
       done;
       let svs = List.rev !svs in
       (* ingestion: the batch becomes |batch| writes at the seqno allocated by finish(),
          which is both the tables' global seqno and the new superversion's seqno *)
       if !pending_ingest <> [] then begin
         (match latest svs, latest !cur with
          | Some post, Some pre ->
            if N.eqb post.ver.vid pre.ver.vid then fail "ingest-missing" "no new version after a non-empty ingestion"
            else begin
              let g = post.sv_seq in
              List.iter (fun (k, ty, v) ->
                  hist := { e = { ukey = k; seq0 = g; ty; val0 = v }; born = None; dead = None } :: !hist) !pending_ingest;
              bump "ingests"
            end
          | _ -> ());
         pending_ingest := []
       end;
       (match latest !cur, latest svs with
        | Some pre, Some post -> tables_rewritten := List.exists (fun i -> not (List.mem i (table_ids post))) (table_ids pre)
        | _ -> tables_rewritten := false);
       (match latest !cur, latest svs with
        | Some pre, Some post when !op_idx >= 0 ->
          (try check_step_model ~wm:!wm pre post with Not_found -> ());
          (try check_leveled_choice pre post with Not_found -> ());
          apply_destructive_op pre post;
          apply_filter_calls pre post
        | _ -> ());
       (* reopen restores exactly the flushed state: same levels/runs/tables, same global
          seqnos, same entries; memtables empty; one superversion *)
       (match !reopen_expect, latest svs with
        | Some want, Some post ->
          reopen_expect := None;
          bump "reopen_compared";
          let got = List.map (fun lvl -> List.map (fun r -> List.map (fun t -> (int_of_n t.tid, int_of_n t.gseq, List.map logical t.ents)) r) lvl) post.ver.levels in
          let same =
            List.length want = List.length got &&
            List.for_all2 (fun lw lg -> List.length lw = List.length lg &&
                            List.for_all2 (fun rw rg -> List.length rw = List.length rg &&
                                            List.for_all2 (fun (i, g, e) (i', g', e') -> i = i' && g = g' && entries_eq e e') rw rg) lw lg) want got in
          if not same then fail "reopen-diff" (Printf.sprintf "version after reopen differs from the flushed state: layout=%s" (layout post.ver));
          if post.active.ments <> [] || post.sealed <> [] then fail "reopen-diff" "memtables not empty after reopen";
          if List.length svs <> 1 then fail "reopen-diff" "more than one superversion after reopen"
        | _ -> ());
       check_dump ~hp:(get "hp") ~hm:(get "hm") ~hs:(get "hs") svs;
       cur := svs
     | "FILES" :: _ -> ()
     | [ "L"; tid; links ] ->
       let sum = List.fold_left (fun acc l -> match String.split_on_char ':' l with
           | [ _; _; _; d ] -> N.add acc (n_of_string d) | _ -> acc) N0 (String.split_on_char ',' links) in
       Hashtbl.replace table_blob_bytes (int_of_string tid) sum
     | [ "B"; vid; files; _gc ] ->
       bump "blob_dumps";
       let tot = if files = "-" then N0 else List.fold_left (fun acc l -> match String.split_on_char ':' l with
           | [ _; _; c; _ ] -> N.add acc (n_of_string c) | _ -> acc) N0 (String.split_on_char ',' files) in
       Hashtbl.replace version_blob_total vid tot;
       let quad l = if l = "-" then [] else List.map (fun x -> match String.split_on_char ':' x with
           | [ a; b; c; d ] -> (int_of_string a, int_of_string b, int_of_string c, int_of_string d) | _ -> (0, 0, 0, 0)) (String.split_on_char ',' l) in
       Hashtbl.replace version_blobs vid (quad files, quad _gc)
     | [ "BS"; stale; cnt ] -> last_bs := Some (int_of_string stale, int_of_string cnt)
     | [ "RESOLVEFAIL"; vid; tid; k; sq ] -> fail "resolve" (Printf.sprintf "vid=%s table=%s key=%s seq=%s" vid tid k sq)
     | "O" :: "get" :: k :: s :: res :: _contains :: _size :: [] ->
       bump "gets";
       let k' = bytes_of_hex k and s' = n_of_string s in
       let is_snap = not (N.eqb s' sEQ_MAX) && Hashtbl.fold (fun _ v acc -> acc || N.eqb v s') snaps false in
       let expect = match spec_get (h_at s') k' s' with None -> "." | Some e -> "v:" ^ hex_of_bytes e.val0 in
       (* known finding K2 (late write): the expected entry has a seqno ABOVE the seqno of the
          superversion the snapshot resolved to, i.e. it was inserted (by a writer that had
          drawn its seqno earlier) into a memtable only newer superversions reference *)
       let late = (match !last_rv, spec_get (h_at s') k' s' with
           | Some (rs, rsv), Some e when N.eqb rs s' -> N.ltb rsv e.seq0
           | Some (rs, rsv), None when N.eqb rs s' ->
             (match newest k' s' (h_at s') with Some e -> N.ltb rsv e.seq0 | None -> false)
           | _ -> false) in
       if expect <> res then fail ~snap:is_snap (if late then "latewrite-get" else "oracle-get") (Printf.sprintf "key=%s S=%s impl=%s spec=%s" k s res expect);
       if not (late && expect <> res) then
       (match expect, _contains, _size with
        | ".", c, z -> if c <> "0" || z <> "." then fail ~snap:is_snap "oracle-contains" (Printf.sprintf "key=%s contains=%s size=%s" k c z)
        | _, c, z ->
          let len = match spec_get (h_at s') k' s' with Some e -> List.length e.val0 | None -> 0 in
          if c <> "1" || z <> string_of_int len then fail ~snap:is_snap "oracle-contains" (Printf.sprintf "key=%s contains=%s size=%s want=%d" k c z len));
       (match version_for_snapshot !cur s' with
        | None -> if !cur <> [] then fail ~snap:is_snap "nosv" (Printf.sprintf "S=%s" s)
        | Some sv ->
          let raw = sv_get_raw all_true sv k' s' in
          (match raw with
           | Some _ when (match mt_get sv.active k' s' with Some _ -> false | None -> slabs_get (List.rev sv.sealed) k' s' = None) -> bump "gets_from_tables"
           | _ -> ());
          let m = match visible raw with None -> "." | Some e -> "v:" ^ hex_of_bytes e.val0 in
          if m <> res then drift "model-get" (Printf.sprintf "key=%s S=%s impl=%s model=%s" k s res m))
     | "O" :: "orange" :: lo :: hi :: items :: s :: pulls :: results ->
       (* scan through an overlay memtable (C03: the overlay shadows the tree key by key): the
          Spec is the ordered map of the snapshot's view plus the overlay's writes on top *)
       bump "scans"; bump "overlay_scans";
       let s' = n_of_string s in
       let lo' = parse_bound lo and hi' = parse_bound hi in
       let ov = if items = "-" then [] else List.map (fun it ->
           match String.split_on_char ':' it with
           | [ k; sq; v ] -> { ukey = bytes_of_hex k; seq0 = n_of_string sq; ty = (if v = "!" then Tomb else Value); val0 = (if v = "!" then [] else bytes_of_hex v) }
           | _ -> failwith ("bad overlay item " ^ it)) (String.split_on_char ',' items) in
       let base = List.filter (fun (e : entry) -> N.ltb e.seq0 s') (h_at s') in
       let want = deque_run (spec_range (ov @ base) lo' hi' sEQ_MAX) pulls in
       let want_s = List.map (function None -> "." | Some e -> hex_of_bytes e.ukey ^ "=" ^ hex_of_bytes e.val0) want in
       if List.exists (fun x -> x <> ".") want_s then bump "scans_nonempty";
       let is_snap = Hashtbl.fold (fun _ v acc -> acc || N.eqb v s') snaps false in
       if want_s <> results then
         fail ~snap:is_snap "oracle-range" (Printf.sprintf "overlay scan %s %s overlay=%s S=%s impl=[%s] spec=[%s]" lo hi items s (String.concat " " results) (String.concat " " want_s))
     | "O" :: (("range" | "prefix") as kind) :: rest ->
       bump "scans";
       let (sel, s, pulls, results) =
         match kind, rest with
         | "range", lo :: hi :: s :: pulls :: results ->
           let lo = parse_bound lo and hi = parse_bound hi in
           ((fun h s' -> spec_range h lo hi s'), s, pulls, results)
         | _, p :: s :: pulls :: results ->
           let p = bytes_of_hex p in
           ((fun h s' -> List.filter (fun e -> is_prefix p e.ukey) (spec_range h Unb Unb s')), s, pulls, results)
         | _ -> failwith ("bad scan line " ^ line) in
       let s' = n_of_string s in
       let is_snap = Hashtbl.fold (fun _ v acc -> acc || N.eqb v s') snaps false in
       let want = deque_run (sel (h_at s') s') pulls in
       let want_s = List.map (function None -> "." | Some e -> hex_of_bytes e.ukey ^ "=" ^ hex_of_bytes e.val0) want in
       if List.exists (fun x -> x <> ".") want_s then bump "scans_nonempty";
       (* model agreement: the extracted scan pipeline on the dumped superversion *)
       (match version_for_snapshot !cur s', kind, rest with
        | Some sv, "range", lo :: hi :: _ ->
          let ps = List.init (String.length pulls) (fun j -> if pulls.[j] = 'F' then Front else Back) in
          let m = sv_range_run sv None (parse_bound lo) (parse_bound hi) s' ps in
          let m_s = List.map (function None -> "." | Some e -> hex_of_bytes e.ukey ^ "=" ^ hex_of_bytes e.val0) m in
          bump "scans_model_checked";
          if m_s <> results then drift "model-range" (Printf.sprintf "%s %s impl=[%s] model=[%s]" lo hi (String.concat " " results) (String.concat " " m_s))
        | Some sv, "prefix", p :: _ ->
          let (lo, hi) = prefix_to_range (bytes_of_hex p) in
          let ps = List.init (String.length pulls) (fun j -> if pulls.[j] = 'F' then Front else Back) in
          let m = sv_range_run sv None lo hi s' ps in
          let m_s = List.map (function None -> "." | Some e -> hex_of_bytes e.ukey ^ "=" ^ hex_of_bytes e.val0) m in
          bump "scans_model_checked";
          if m_s <> results then drift "model-prefix" (Printf.sprintf "%s impl=[%s] model=[%s]" p (String.concat " " results) (String.concat " " m_s))
        | _ -> ());
       let late_scan = (match !last_rv with
           | Some (rs, rsv) when N.eqb rs s' -> List.exists (fun e -> N.ltb rsv e.seq0 && N.ltb e.seq0 s') (h_at s')
           | _ -> false) in
       if want_s <> results && late_scan then
         fail ~snap:is_snap ("latewrite-" ^ kind) (Printf.sprintf "S=%s (a write above the resolved superversion's seqno exists below the snapshot)" s)
       else if want_s <> results then
         fail ~snap:is_snap ("oracle-" ^ kind) (Printf.sprintf "%s impl=[%s] spec=[%s]" (String.concat " " (List.filteri (fun j _ -> j < 3) rest)) (String.concat " " results) (String.concat " " want_s))
     | [ "O"; "len"; s; r ] ->
       bump "lens";
       let s' = n_of_string s in
       let want = string_of_int (List.length (spec_range (h_at s') Unb Unb s')) in
       if want <> r then fail "oracle-len" (Printf.sprintf "S=%s impl=%s spec=%s" s r want)
     | [ "O"; "isempty"; s; r ] ->
       let s' = n_of_string s in
       let want = if spec_range (h_at s') Unb Unb s' = [] then "1" else "0" in
       if want <> r then fail "oracle-isempty" (Printf.sprintf "S=%s impl=%s spec=%s" s r want)
     | [ "O"; (("first" | "last") as w); s; r ] ->
       let s' = n_of_string s in
       let l = spec_range (h_at s') Unb Unb s' in
       let pick = if w = "first" then (match l with [] -> None | x :: _ -> Some x) else (match List.rev l with [] -> None | x :: _ -> Some x) in
       let want = match pick with None -> "." | Some e -> hex_of_bytes e.ukey ^ "=" ^ hex_of_bytes e.val0 in
       if want <> r then fail ("oracle-" ^ w) (Printf.sprintf "S=%s impl=%s spec=%s" s r want)
     | [ "END" ] -> saw_end := true
     | [ "" ] | [] -> ()
     | _ -> fail "parse" ("unrecognised line: " ^ line))
  done;
  if not !saw_end then fail "truncated" "trace has no END line";
  let kv = Hashtbl.fold (fun k v acc -> Printf.sprintf "%s=%d" k v :: acc) stats [] in
  Printf.printf "STAT fails=%d %s\n" !nfail (String.concat " " (List.sort compare kv))
