(* Driver around the extracted Fs model (coq/Model/Fs.v -> fsmodel.ml).
   Reads commands on stdin (see docs/FS_ENGINE.md), prints one result line per query.

   V <vid> <tables csv|-> <blobs csv|->   version_contents
   E <fname> <toks csv|->                 expected (complete token list)
   X <fname>                              forget expected
   C <tok> <vid>                          current_points
   SEG <label>                            start a segment (protocol_ok is evaluated from
                                          the state reached so far)
   O <op>                                 mkdir D | create F 0/1 | write F tok | fsync F |
                                          fsyncdir D | rename F G | unlink F
   IMG <label> <dirs> [F:toks:torn ...]   recover_dir on this image + is it a legal crash
                                          image of the state after the ops seen so far
   DUR <label> / VOL <label>              print the model's durable / volatile image
   END                                    end of segment: report and advance
   fnames: c | v<id> | t<id> | b<id> | m<id> | o<id>;  dirs: R T B *)
open Fsmodel

let rec pos_of_int i = if i = 1 then XH else if i land 1 = 1 then XI (pos_of_int (i lsr 1)) else XO (pos_of_int (i lsr 1))
let n_of_int i = if i = 0 then N0 else Npos (pos_of_int i)
let rec int_of_pos = function XH -> 1 | XO p -> 2 * int_of_pos p | XI p -> 2 * int_of_pos p + 1
let int_of_n = function N0 -> 0 | Npos p -> int_of_pos p
let rec nat_of_int i = if i = 0 then O else S (nat_of_int (i - 1))
let rec int_of_nat = function O -> 0 | S k -> 1 + int_of_nat k

let fname_of s =
  if s = "c" then Current else
  let id = n_of_int (int_of_string (String.sub s 1 (String.length s - 1))) in
  match s.[0] with
  | 'v' -> VersionFile id | 't' -> TableFile id | 'b' -> BlobFile id
  | 'm' -> TempFile id | 'o' -> Other id | _ -> failwith ("bad fname " ^ s)
let str_of_fname = function
  | Current -> "c" | VersionFile i -> "v" ^ string_of_int (int_of_n i)
  | TableFile i -> "t" ^ string_of_int (int_of_n i) | BlobFile i -> "b" ^ string_of_int (int_of_n i)
  | TempFile i -> "m" ^ string_of_int (int_of_n i) | Other i -> "o" ^ string_of_int (int_of_n i)
let dname_of = function "R" -> Root | "T" -> Tables | "B" -> Blobs | s -> failwith ("bad dname " ^ s)

let csv s = if s = "-" || s = "" then [] else List.map (fun x -> n_of_int (int_of_string x)) (String.split_on_char ',' s)
let str_csv l = if l = [] then "-" else String.concat "," (List.map (fun x -> string_of_int (int_of_n x)) l)

let vtab : (int, vdesc) Hashtbl.t = Hashtbl.create 64
let etab : (string, n list) Hashtbl.t = Hashtbl.create 256
let ctab : (int, n) Hashtbl.t = Hashtbl.create 64
let oracle = {
  version_contents = (fun v -> Hashtbl.find_opt vtab (int_of_n v));
  expected = (fun f -> Hashtbl.find_opt etab (str_of_fname f));
  current_points = (fun t -> Hashtbl.find_opt ctab (int_of_n t)) }

let op_of = function
  | ["mkdir"; d] -> Mkdir (dname_of d)
  | ["create"; f; e] -> Create (fname_of f, e = "1")
  | ["write"; f; t] -> Write (fname_of f, n_of_int (int_of_string t))
  | ["fsync"; f] -> FsyncFile (fname_of f)
  | ["fsyncdir"; d] -> FsyncDir (dname_of d)
  | ["rename"; a; b] -> Rename (fname_of a, fname_of b)
  | ["unlink"; f] -> Unlink (fname_of f)
  | l -> failwith ("bad op " ^ String.concat " " l)

let str_summary = function
  | SFresh -> "fresh" | SFailed -> "failed"
  | SRec (v, t, b) -> Printf.sprintf "rec %d %s %s" (int_of_n v) (str_csv t) (str_csv b)

let icontent_eq (a, ta) (b, tb) = ta = tb && list_eqb a b
let str_image (img : image) =
  let ds = String.concat "" (List.filter_map (fun (d, s) -> if img.idirs d then Some s else None) [Root, "R"; Tables, "T"; Blobs, "B"]) in
  let fs = List.filter_map (fun f -> match img.iget f with
      | Some (c, torn) -> Some (Printf.sprintf "%s:%s:%d" (str_of_fname f) (str_csv c) (if torn then 1 else 0))
      | None -> None) img.inames in
  ds ^ " " ^ String.concat " " (List.sort compare fs)

let state = ref fs_init
let seg_start = ref fs_init
let seg_ops : fsop list ref = ref []
let seg_label = ref ""
let seg_dead = ref (-1)   (* index of the first impossible op, if any *)

let () =
  try
    while true do
      let line = input_line stdin in
      match String.split_on_char ' ' (String.trim line) with
      | ["V"; v; t; b] -> Hashtbl.replace vtab (int_of_string v) { vd_tables = csv t; vd_blobs = csv b }
      | ["E"; f; t] -> Hashtbl.replace etab f (csv t)
      | ["X"; f] -> Hashtbl.remove etab f
      | ["C"; t; v] -> Hashtbl.replace ctab (int_of_string t) (n_of_int (int_of_string v))
      | ["SEG"; l] -> seg_label := l; seg_start := !state; seg_ops := []; seg_dead := -1
      | "O" :: rest ->
          let op = op_of rest in
          let k = List.length !seg_ops in
          seg_ops := !seg_ops @ [op];
          if !seg_dead < 0 then
            (match apply !state op with
             | Some s' -> state := s'
             | None -> seg_dead := k)
      | "IMG" :: l :: dirs :: files ->
          let tbl = Hashtbl.create 16 in
          let names = ref [] in
          List.iter (fun spec -> if spec <> "" then
            match String.split_on_char ':' spec with
            | [f; t; torn] -> Hashtbl.replace tbl f (csv t, torn = "1"); names := fname_of f :: !names
            | _ -> failwith ("bad file spec " ^ spec)) files;
          let img = { idirs = (fun d -> match d with Root -> String.contains dirs 'R' | Tables -> String.contains dirs 'T' | Blobs -> String.contains dirs 'B');
                      iget = (fun f -> Hashtbl.find_opt tbl (str_of_fname f));
                      inames = List.rev !names } in
          (* legality w.r.t. the model state after the ops seen so far *)
          let s = !state in
          let universe = List.sort_uniq compare (img.inames @ s.names) in
          let entry_ok f =
            let got = img.iget f in
            List.exists (fun c -> match c, got with
                | None, None -> true
                | Some a, Some b -> icontent_eq a b
                | _ -> false) (entry_cands s f) in
          let dir_ok d = List.mem (img.idirs d) (dir_cands s d) in
          let bad = List.filter (fun f -> not (entry_ok f)) universe in
          let legal = bad = [] && dir_ok Tables && dir_ok Blobs && img.idirs Root in
          Printf.printf "IMG %s legal=%d%s %s\n" l (if legal then 1 else 0)
            (if legal then "" else " bad=" ^ String.concat "," (List.map str_of_fname bad))
            (str_summary (summary (recover_dir oracle img)))
      | ["DUR"; l] -> Printf.printf "DUR %s %s\n" l (str_image (durable_image !state))
      | ["VOL"; l] -> Printf.printf "VOL %s %s\n" l (str_image (volatile_image !state))
      | ["END"] ->
          let s0 = !seg_start and ops = !seg_ops in
          let run = if !seg_dead < 0 then "ok" else Printf.sprintf "impossible@%d" !seg_dead in
          let ok = protocol_ok oracle s0 ops in
          let dv = cur_of oracle s0 s0.dns and vv = cur_of oracle s0 s0.vns in
          let str_cur = function None -> "bad" | Some None -> "none" | Some (Some v) -> string_of_int (int_of_n v) in
          let viol = match dv, vv with
            | Some d, Some v when opt_eqb d v ->
                (match first_violation oracle s0 ((d, v), false) ops O with
                 | Some k -> string_of_int (int_of_nat k) | None -> "-")
            | _ -> "cur" in
          let cons = match dv with Some d -> disk_okb oracle s0 d | None -> false in
          Printf.printf "SEG %s ok=%d run=%s viol=%s cons=%d dcur=%s vcur=%s before=[%s] after=[%s]\n"
            !seg_label (if ok then 1 else 0) run viol (if cons then 1 else 0) (str_cur dv) (str_cur vv)
            (str_summary (summary (recover_result_of oracle s0)))
            (str_summary (summary (recover_result_of oracle !state)))
      | [""] | [] -> ()
      | _ -> failwith ("bad command: " ^ line)
    done
  with End_of_file -> ()
