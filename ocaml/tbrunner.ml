(* Byte-level correspondence for C12: compares the crate's data-block / Bloom encoders and
   readers (outputs recorded by `lsmv tbench`) with the extracted Coq codecs.
     tbrunner <tbench file>
   Output: FAIL kind=<k> case=<n> <detail> ; STAT ... *)
open Model

let rec pos_of_int i =
  if i = 1 then XH else if i land 1 = 0 then XO (pos_of_int (i lsr 1)) else XI (pos_of_int (i lsr 1))
let n_of_int i = if i = 0 then N0 else Npos (pos_of_int i)
let n10 = n_of_int 10
let n_of_string s =
  if String.length s <= 17 then n_of_int (int_of_string s)
  else begin
    let acc = ref N0 in
    String.iter (fun c -> acc := N.add (N.mul !acc n10) (n_of_int (Char.code c - 48))) s;
    !acc
  end
let rec int_of_pos = function XH -> 1 | XO p -> 2 * int_of_pos p | XI p -> 2 * int_of_pos p + 1
let int_of_n = function N0 -> 0 | Npos p -> int_of_pos p
let byte_tab = Array.init 256 n_of_int
let bytes_of_hex s =
  if s = "-" then [] else
    List.init (String.length s / 2) (fun i -> byte_tab.(int_of_string ("0x" ^ String.sub s (2 * i) 2)))
let hex_of_bytes l =
  if l = [] then "-" else String.concat "" (List.map (fun b -> Printf.sprintf "%02x" (int_of_n b)) l)
let ty_of_code = function "V" -> Value | "T" -> Tomb | "W" -> WeakTomb | "I" -> Ind | c -> failwith c
let code_of_ty = function Value -> "V" | Tomb -> "T" | WeakTomb -> "W" | Ind -> "I"
(* decimal printing of seqnos that may exceed max_int: go through the hex of LE bytes is
   overkill; seqnos in cases are small except u64::MAX probes, printed from the input *)

let stats : (string, int) Hashtbl.t = Hashtbl.create 16
let bump ?(by = 1) k = Hashtbl.replace stats k (by + (try Hashtbl.find stats k with Not_found -> 0))
let nfail = ref 0
let case = ref "?"
let fail kind detail = incr nfail; Printf.printf "FAIL kind=%s case=%s %s\n" kind !case detail

let show_entry e s_seq = Printf.sprintf "%s@%s:%s:%s" (hex_of_bytes e.ukey) s_seq (code_of_ty e.ty) (hex_of_bytes e.val0)

let () =
  let ic = open_in Sys.argv.(1) in
  let items = ref [] and hashes : (string, n) Hashtbl.t = Hashtbl.create 64 in
  let ri = ref N0 and nb = ref N0 in
  let bytes = ref [] in
  let bloom : (n * n * n list) option ref = ref None in
  let saw_end = ref false in
  let hash (k : key) = try Hashtbl.find hashes (hex_of_bytes k) with Not_found -> N0 in
  let seq_str : (string, string) Hashtbl.t = Hashtbl.create 64 in
  (try while true do
      let line = input_line ic in
      match String.split_on_char ' ' line with
      | "CASE" :: id :: r :: b :: _ ->
        case := id; items := []; Hashtbl.reset hashes; bytes := []; bloom := None; Hashtbl.reset seq_str;
        let v s = n_of_string (List.nth (String.split_on_char '=' s) 1) in
        ri := v r; nb := v b; bump "cases"
      | [ "I"; k; s; ty; v ] ->
        Hashtbl.replace seq_str (k ^ "/" ^ s) s;
        items := { ukey = bytes_of_hex k; seq0 = n_of_string s; ty = ty_of_code ty; val0 = bytes_of_hex v } :: !items
      | [ "HK"; k; h ] -> Hashtbl.replace hashes k (n_of_string h)
      | [ "BYTES"; hx ] ->
        let its = List.rev !items in
        items := its;
        let impl = bytes_of_hex hx in
        bytes := impl;
        let model = encode_block hash !ri !nb its in
        bump "blocks";
        if hex_of_bytes model <> hx then begin
          let rec first_diff i a b = match a, b with
            | x :: a', y :: b' -> if N.eqb x y then first_diff (i + 1) a' b' else i
            | _ -> i in
          fail "block-bytes" (Printf.sprintf "model and crate encoders differ at byte %d (model %d bytes, crate %d bytes)"
                                (first_diff 0 model impl) (List.length model) (List.length impl))
        end else bump "block_bytes_equal";
        (match decode_all impl with
         | Some l when List.length l = List.length its && List.for_all2 entry_eqb l its -> bump "decode_ok"
         | _ -> fail "block-decode" "model decoder does not return the written items from the crate's bytes");
        (match decode_all_back impl with
         | Some l when List.length l = List.length its && List.for_all2 entry_eqb (List.rev l) its -> bump "decode_back_ok"
         | _ -> fail "block-decode-back" "model reverse decoder does not return the written items")
      | [ "ITER"; f; r ] ->
        if f <> "1" then fail "impl-iter" "crate forward iteration does not return the written items";
        if r <> "1" then fail "impl-iter-rev" "crate reverse iteration does not return the written items"
      | [ "PR"; k; s; res ] ->
        bump "point_reads";
        let k' = bytes_of_hex k and s' = n_of_string s in
        (* (1) the property: the first item with that key and seqno < S *)
        let want = newest k' s' !items in
        let show = function None -> "." | Some e ->
          let ss = (match e.seq0 with N0 -> "0" | _ -> string_of_int (int_of_n e.seq0)) in show_entry e ss in
        if show want <> res then fail "point-read" (Printf.sprintf "key=%s S=%s crate=%s spec=%s" k s res (show want));
        (* (2) model agreement on the crate's bytes *)
        let m = point_read hash !bytes k' s' in
        if show m <> res then fail "point-read-model" (Printf.sprintf "key=%s S=%s crate=%s model=%s" k s res (show m))
        else bump "point_reads_model_agree";
        if want <> None then bump "point_reads_hit"
      | [ "BLOOM"; hs; hx ] ->
        let hl = if hs = "" then [] else List.map n_of_string (String.split_on_char ',' hs) in
        let impl = bytes_of_hex hx in
        bump "blooms";
        (match bloom_decode impl with
         | BOk ((m, k), bits) ->
           bloom := Some (m, k, bits);
           (match bloom_build_opt m k hl with
            | Some mb ->
              if hex_of_bytes (bloom_encode m k mb) <> hx then fail "bloom-bytes" (Printf.sprintf "m=%d k=%d: model filter bytes differ from the crate's" (int_of_n m) (int_of_n k))
              else bump "bloom_bytes_equal"
            | None -> fail "bloom-build" "model build panics where the crate built a filter");
           (* no false negatives, on the crate's own bytes *)
           List.iter (fun h -> match bloom_contains_opt m k bits h with
               | Some true -> ()
               | _ -> fail "bloom-false-negative" "an inserted hash is not contained (model reader on crate bytes)") hl
         | BErr _ -> fail "bloom-decode" "model cannot decode the crate's filter block")
      | [ "BC"; h; r ] ->
        (match !bloom with
         | Some (m, k, bits) ->
           bump "bloom_probes";
           let want = (match bloom_contains_opt m k bits (n_of_string h) with Some true -> "1" | Some false -> "0" | None -> "panic") in
           if want <> r then fail "bloom-contains" (Printf.sprintf "hash=%s crate=%s model=%s" h r want)
         | None -> ())
      | "ENCERR" :: _ -> fail "encode-error" line
      | [ "BLOOMERR" ] -> fail "bloom-reader-error" "crate cannot read its own filter"
      | [ "END" ] -> saw_end := true
      | _ -> ()
    done with End_of_file -> ());
  if not !saw_end then fail "truncated" "no END line";
  let kv = Hashtbl.fold (fun k v acc -> Printf.sprintf "%s=%d" k v :: acc) stats [] in
  Printf.printf "STAT fails=%d %s\n" !nfail (String.concat " " (List.sort compare kv))
