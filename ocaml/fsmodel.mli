
val negb : bool -> bool

type nat =
| O
| S of nat

val fst : ('a1 * 'a2) -> 'a1

val snd : ('a1 * 'a2) -> 'a2

val length : 'a1 list -> nat

val app : 'a1 list -> 'a1 list -> 'a1 list

val leb : nat -> nat -> bool

val ltb : nat -> nat -> bool

val map : ('a1 -> 'a2) -> 'a1 list -> 'a2 list

val flat_map : ('a1 -> 'a2 list) -> 'a1 list -> 'a2 list

val existsb : ('a1 -> bool) -> 'a1 list -> bool

val forallb : ('a1 -> bool) -> 'a1 list -> bool

val filter : ('a1 -> bool) -> 'a1 list -> 'a1 list

val firstn : nat -> 'a1 list -> 'a1 list

val seq : nat -> nat -> nat list

type positive =
| XI of positive
| XO of positive
| XH

type n =
| N0
| Npos of positive

module Pos :
 sig
  val succ : positive -> positive

  val eqb : positive -> positive -> bool
 end

module N :
 sig
  val succ : n -> n

  val eqb : n -> n -> bool
 end

type fname =
| Current
| VersionFile of n
| TableFile of n
| BlobFile of n
| TempFile of n
| Other of n

type dname =
| Root
| Tables
| Blobs

val dir_of : fname -> dname

val fname_eqb : fname -> fname -> bool

val dname_eqb : dname -> dname -> bool

type fsop =
| Mkdir of dname
| Create of fname * bool
| Write of fname * n
| FsyncFile of fname
| FsyncDir of dname
| Rename of fname * fname
| Unlink of fname

type fsstate = { vns : (fname -> n option); dns : (fname -> n option);
                 vcont : (n -> n list); dcont : (n -> n list); next_ino : 
                 n; vdirs : (dname -> bool); ddirs : (dname -> bool);
                 names : fname list }

val fs_init : fsstate

val upd_name : (fname -> n option) -> fname -> n option -> fname -> n option

val upd_cont : (n -> n list) -> n -> n list -> n -> n list

val add_name : fname -> fname list -> fname list

val apply : fsstate -> fsop -> fsstate option

val run_fs : fsstate -> fsop list -> fsstate option

val first_impossible : fsstate -> fsop list -> nat -> nat option

type vdesc = { vd_tables : n list; vd_blobs : n list }

type oracle = { version_contents : (n -> vdesc option);
                expected : (fname -> n list option);
                current_points : (n -> n option) }

type icontent = n list * bool

type image = { idirs : (dname -> bool); iget : (fname -> icontent option);
               inames : fname list }

val prefixes : n list -> n list list

val is_prefixb : n list -> n list -> bool

val crash_contents : n list -> n list -> icontent list

val entry_cands : fsstate -> fname -> icontent option list

val dir_cands : fsstate -> dname -> bool list

val all_choices : (fname * 'a1 list) list -> (fname * 'a1) list list

val alookup : (fname * 'a1 option) list -> fname -> 'a1 option

val crash_images : fsstate -> image list

val durable_image : fsstate -> image

val volatile_image : fsstate -> image

type rresult =
| Fresh
| Recovered of n * n list * n list * fname list
| Failed

val list_eqb : n list -> n list -> bool

val memN : n -> n list -> bool

val complete : oracle -> fname -> icontent -> bool

val img_file : image -> fname -> icontent option

val file_ok : oracle -> image -> fname -> bool

val listing : image -> dname -> fname list

val recover_dir : oracle -> image -> rresult

type rsummary =
| SFresh
| SFailed
| SRec of n * n list * n list

val summary : rresult -> rsummary

val recover_result_of : oracle -> fsstate -> rresult

val write_all : fname -> n list -> fsop list

type wfile = { w_id : n; w_data : n list; w_tail : n list }

val table_finish : wfile -> fsop list

val tables_from : wfile -> wfile list -> fsop list

val trace_tables : wfile list -> fsop list

val blob_finish : bool -> wfile -> fsop list

val blobs_from : bool -> wfile -> wfile list -> fsop list

val trace_blobs : bool -> wfile list -> fsop list

val trace_persist : n -> n list -> n -> n -> fsop list

val trace_maintenance : n list -> fsop list

val trace_drop_files : n list -> n list -> fsop list

val trace_flush : wfile list -> n -> n list -> n -> n -> n list -> fsop list

val trace_flush_blob :
  bool -> wfile list -> wfile list -> n -> n list -> n -> n -> n list -> fsop
  list

val trace_merge :
  bool -> wfile list -> wfile list -> n -> n list -> n -> n -> n list -> n
  list -> n list -> fsop list

val trace_move_or_drop :
  n -> n list -> n -> n -> n list -> n list -> n list -> fsop list

val trace_clear : n -> n list -> n -> n -> fsop list

val trace_create_new : bool -> n list -> n -> n -> fsop list

val trace_ingest :
  wfile list -> fsop list -> n -> n list -> n -> n -> fsop list

val trace_recover_cleanup : fname list -> fsop list

val opt_eqb : n option -> n option -> bool

val pnames : oracle -> n -> fname list

val opnames : oracle -> n option -> fname list

val stableb : oracle -> fsstate -> fname -> bool

val touched : fsop -> fname list

val safe_name : fname list -> fname -> bool

val safe_op : fname list -> fsop -> bool

type pstate = (n option * n option) * bool

val protected : oracle -> pstate -> fname list

val cur_of : oracle -> fsstate -> (fname -> n option) -> n option option

val publish_ok : oracle -> fsstate -> pstate -> n -> n option

val proto_step : oracle -> fsstate -> pstate -> fsop -> pstate option

val proto_run :
  oracle -> fsstate -> pstate -> fsop list -> (fsstate * pstate) option

val protocol_ok : oracle -> fsstate -> fsop list -> bool

val first_violation :
  oracle -> fsstate -> pstate -> fsop list -> nat -> nat option

val rsummary_eqb : rsummary -> rsummary -> bool

val all_prefix_summaries : oracle -> fsstate -> fsop list -> rsummary list

val crash_atomic_check : oracle -> fsstate -> fsop list -> bool

val disk_okb : oracle -> fsstate -> n option -> bool
