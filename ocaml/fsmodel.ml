
(** val negb : bool -> bool **)

let negb = function
| true -> false
| false -> true

type nat =
| O
| S of nat

(** val fst : ('a1 * 'a2) -> 'a1 **)

let fst = function
| (x, _) -> x

(** val snd : ('a1 * 'a2) -> 'a2 **)

let snd = function
| (_, y) -> y

(** val length : 'a1 list -> nat **)

let rec length = function
| [] -> O
| _ :: l' -> S (length l')

(** val app : 'a1 list -> 'a1 list -> 'a1 list **)

let rec app l m =
  match l with
  | [] -> m
  | a :: l1 -> a :: (app l1 m)

(** val leb : nat -> nat -> bool **)

let rec leb n0 m =
  match n0 with
  | O -> true
  | S n' -> (match m with
             | O -> false
             | S m' -> leb n' m')

(** val ltb : nat -> nat -> bool **)

let ltb n0 m =
  leb (S n0) m

(** val map : ('a1 -> 'a2) -> 'a1 list -> 'a2 list **)

let rec map f = function
| [] -> []
| a :: t -> (f a) :: (map f t)

(** val flat_map : ('a1 -> 'a2 list) -> 'a1 list -> 'a2 list **)

let rec flat_map f = function
| [] -> []
| x :: t -> app (f x) (flat_map f t)

(** val existsb : ('a1 -> bool) -> 'a1 list -> bool **)

let rec existsb f = function
| [] -> false
| a :: l0 -> (||) (f a) (existsb f l0)

(** val forallb : ('a1 -> bool) -> 'a1 list -> bool **)

let rec forallb f = function
| [] -> true
| a :: l0 -> (&&) (f a) (forallb f l0)

(** val filter : ('a1 -> bool) -> 'a1 list -> 'a1 list **)

let rec filter f = function
| [] -> []
| x :: l0 -> if f x then x :: (filter f l0) else filter f l0

(** val firstn : nat -> 'a1 list -> 'a1 list **)

let rec firstn n0 l =
  match n0 with
  | O -> []
  | S n1 -> (match l with
             | [] -> []
             | a :: l0 -> a :: (firstn n1 l0))

(** val seq : nat -> nat -> nat list **)

let rec seq start = function
| O -> []
| S len0 -> start :: (seq (S start) len0)

type positive =
| XI of positive
| XO of positive
| XH

type n =
| N0
| Npos of positive

module Pos =
 struct
  (** val succ : positive -> positive **)

  let rec succ = function
  | XI p -> XO (succ p)
  | XO p -> XI p
  | XH -> XO XH

  (** val eqb : positive -> positive -> bool **)

  let rec eqb p q =
    match p with
    | XI p0 -> (match q with
                | XI q0 -> eqb p0 q0
                | _ -> false)
    | XO p0 -> (match q with
                | XO q0 -> eqb p0 q0
                | _ -> false)
    | XH -> (match q with
             | XH -> true
             | _ -> false)
 end

module N =
 struct
  (** val succ : n -> n **)

  let succ = function
  | N0 -> Npos XH
  | Npos p -> Npos (Pos.succ p)

  (** val eqb : n -> n -> bool **)

  let eqb n0 m =
    match n0 with
    | N0 -> (match m with
             | N0 -> true
             | Npos _ -> false)
    | Npos p -> (match m with
                 | N0 -> false
                 | Npos q -> Pos.eqb p q)
 end

type fname =
| Current
| VersionFile of n
| TableFile of n
| BlobFile of n
| TempFile of n
| Other of n

type dname =
| Root
| Tables
| Blobs

(** val dir_of : fname -> dname **)

let dir_of = function
| TableFile _ -> Tables
| BlobFile _ -> Blobs
| _ -> Root

(** val fname_eqb : fname -> fname -> bool **)

let fname_eqb a b =
  match a with
  | Current -> (match b with
                | Current -> true
                | _ -> false)
  | VersionFile x -> (match b with
                      | VersionFile y -> N.eqb x y
                      | _ -> false)
  | TableFile x -> (match b with
                    | TableFile y -> N.eqb x y
                    | _ -> false)
  | BlobFile x -> (match b with
                   | BlobFile y -> N.eqb x y
                   | _ -> false)
  | TempFile x -> (match b with
                   | TempFile y -> N.eqb x y
                   | _ -> false)
  | Other x -> (match b with
                | Other y -> N.eqb x y
                | _ -> false)

(** val dname_eqb : dname -> dname -> bool **)

let dname_eqb a b =
  match a with
  | Root -> (match b with
             | Root -> true
             | _ -> false)
  | Tables -> (match b with
               | Tables -> true
               | _ -> false)
  | Blobs -> (match b with
              | Blobs -> true
              | _ -> false)

type fsop =
| Mkdir of dname
| Create of fname * bool
| Write of fname * n
| FsyncFile of fname
| FsyncDir of dname
| Rename of fname * fname
| Unlink of fname

type fsstate = { vns : (fname -> n option); dns : (fname -> n option);
                 vcont : (n -> n list); dcont : (n -> n list); next_ino : 
                 n; vdirs : (dname -> bool); ddirs : (dname -> bool);
                 names : fname list }

(** val fs_init : fsstate **)

let fs_init =
  { vns = (fun _ -> None); dns = (fun _ -> None); vcont = (fun _ -> []);
    dcont = (fun _ -> []); next_ino = N0; vdirs = (fun d ->
    dname_eqb d Root); ddirs = (fun d -> dname_eqb d Root); names = [] }

(** val upd_name :
    (fname -> n option) -> fname -> n option -> fname -> n option **)

let upd_name m f v g =
  if fname_eqb g f then v else m g

(** val upd_cont : (n -> n list) -> n -> n list -> n -> n list **)

let upd_cont m i v j =
  if N.eqb j i then v else m j

(** val add_name : fname -> fname list -> fname list **)

let add_name f l =
  if existsb (fname_eqb f) l then l else f :: l

(** val apply : fsstate -> fsop -> fsstate option **)

let apply s = function
| Mkdir d ->
  Some { vns = s.vns; dns = s.dns; vcont = s.vcont; dcont = s.dcont;
    next_ino = s.next_ino; vdirs = (fun e ->
    (||) (dname_eqb e d) (s.vdirs e)); ddirs = s.ddirs; names = s.names }
| Create (f, excl) ->
  if negb (s.vdirs (dir_of f))
  then None
  else (match s.vns f with
        | Some i ->
          if excl
          then None
          else Some { vns = s.vns; dns = s.dns; vcont =
                 (upd_cont s.vcont i []); dcont = s.dcont; next_ino =
                 s.next_ino; vdirs = s.vdirs; ddirs = s.ddirs; names =
                 s.names }
        | None ->
          let i = s.next_ino in
          Some { vns = (upd_name s.vns f (Some i)); dns = s.dns; vcont =
          (upd_cont s.vcont i []); dcont = (upd_cont s.dcont i []);
          next_ino = (N.succ i); vdirs = s.vdirs; ddirs = s.ddirs; names =
          (add_name f s.names) })
| Write (f, tok) ->
  (match s.vns f with
   | Some i ->
     Some { vns = s.vns; dns = s.dns; vcont =
       (upd_cont s.vcont i (app (s.vcont i) (tok :: []))); dcont = s.dcont;
       next_ino = s.next_ino; vdirs = s.vdirs; ddirs = s.ddirs; names =
       s.names }
   | None -> None)
| FsyncFile f ->
  (match s.vns f with
   | Some i ->
     Some { vns = s.vns; dns = s.dns; vcont = s.vcont; dcont =
       (upd_cont s.dcont i (s.vcont i)); next_ino = s.next_ino; vdirs =
       s.vdirs; ddirs = s.ddirs; names = s.names }
   | None -> None)
| FsyncDir d ->
  if negb (s.vdirs d)
  then None
  else Some { vns = s.vns; dns = (fun f ->
         if dname_eqb (dir_of f) d then s.vns f else s.dns f); vcont =
         s.vcont; dcont = s.dcont; next_ino = s.next_ino; vdirs = s.vdirs;
         ddirs = (fun e ->
         if dname_eqb d Root then (||) (s.ddirs e) (s.vdirs e) else s.ddirs e);
         names = s.names }
| Rename (src, dst) ->
  if negb (dname_eqb (dir_of src) (dir_of dst))
  then None
  else if fname_eqb src dst
       then (match s.vns src with
             | Some _ -> Some s
             | None -> None)
       else (match s.vns src with
             | Some i ->
               Some { vns =
                 (upd_name (upd_name s.vns src None) dst (Some i)); dns =
                 s.dns; vcont = s.vcont; dcont = s.dcont; next_ino =
                 s.next_ino; vdirs = s.vdirs; ddirs = s.ddirs; names =
                 (add_name dst s.names) }
             | None -> None)
| Unlink f ->
  (match s.vns f with
   | Some _ ->
     Some { vns = (upd_name s.vns f None); dns = s.dns; vcont = s.vcont;
       dcont = s.dcont; next_ino = s.next_ino; vdirs = s.vdirs; ddirs =
       s.ddirs; names = s.names }
   | None -> None)

(** val run_fs : fsstate -> fsop list -> fsstate option **)

let rec run_fs s = function
| [] -> Some s
| op :: tr' -> (match apply s op with
                | Some s' -> run_fs s' tr'
                | None -> None)

(** val first_impossible : fsstate -> fsop list -> nat -> nat option **)

let rec first_impossible s tr k =
  match tr with
  | [] -> None
  | op :: tr' ->
    (match apply s op with
     | Some s' -> first_impossible s' tr' (S k)
     | None -> Some k)

type vdesc = { vd_tables : n list; vd_blobs : n list }

type oracle = { version_contents : (n -> vdesc option);
                expected : (fname -> n list option);
                current_points : (n -> n option) }

type icontent = n list * bool

type image = { idirs : (dname -> bool); iget : (fname -> icontent option);
               inames : fname list }

(** val prefixes : n list -> n list list **)

let rec prefixes l =
  [] :: (match l with
         | [] -> []
         | x :: t -> map (fun x0 -> x :: x0) (prefixes t))

(** val is_prefixb : n list -> n list -> bool **)

let rec is_prefixb p l =
  match p with
  | [] -> true
  | x :: p' ->
    (match l with
     | [] -> false
     | y :: l' -> (&&) (N.eqb x y) (is_prefixb p' l'))

(** val crash_contents : n list -> n list -> icontent list **)

let crash_contents d v =
  (d,
    false) :: (flat_map (fun p ->
                if ltb (length p) (length v)
                then (p, false) :: ((p, true) :: [])
                else (p, false) :: [])
                (filter (fun p ->
                  if is_prefixb d v then leb (length d) (length p) else true)
                  (prefixes v)))

(** val entry_cands : fsstate -> fname -> icontent option list **)

let entry_cands s f =
  let of_ino = fun o ->
    match o with
    | Some i -> map (fun x -> Some x) (crash_contents (s.dcont i) (s.vcont i))
    | None -> None :: []
  in
  if match s.dns f with
     | Some i -> (match s.vns f with
                  | Some j -> N.eqb i j
                  | None -> false)
     | None -> (match s.vns f with
                | Some _ -> false
                | None -> true)
  then of_ino (s.dns f)
  else app (of_ino (s.dns f)) (of_ino (s.vns f))

(** val dir_cands : fsstate -> dname -> bool list **)

let dir_cands s d =
  if s.ddirs d
  then true :: []
  else if s.vdirs d then false :: (true :: []) else false :: []

(** val all_choices : (fname * 'a1 list) list -> (fname * 'a1) list list **)

let rec all_choices = function
| [] -> [] :: []
| p :: r ->
  let (f, cs) = p in
  flat_map (fun c -> map (fun x -> (f, c) :: x) (all_choices r)) cs

(** val alookup : (fname * 'a1 option) list -> fname -> 'a1 option **)

let rec alookup l f =
  match l with
  | [] -> None
  | p :: r -> let (g, v) = p in if fname_eqb f g then v else alookup r f

(** val crash_images : fsstate -> image list **)

let crash_images s =
  flat_map (fun dt ->
    flat_map (fun db ->
      map (fun ch -> { idirs = (fun d ->
        match d with
        | Root -> true
        | Tables -> dt
        | Blobs -> db); iget = (alookup ch); inames = s.names })
        (all_choices (map (fun f -> (f, (entry_cands s f))) s.names)))
      (dir_cands s Blobs)) (dir_cands s Tables)

(** val durable_image : fsstate -> image **)

let durable_image s =
  { idirs = s.ddirs; iget = (fun f ->
    match s.dns f with
    | Some i -> Some ((s.dcont i), false)
    | None -> None); inames = s.names }

(** val volatile_image : fsstate -> image **)

let volatile_image s =
  { idirs = (fun d -> (||) (s.ddirs d) (s.vdirs d)); iget = (fun f ->
    match s.vns f with
    | Some i -> Some ((s.vcont i), false)
    | None -> None); inames = s.names }

type rresult =
| Fresh
| Recovered of n * n list * n list * fname list
| Failed

(** val list_eqb : n list -> n list -> bool **)

let rec list_eqb a b =
  match a with
  | [] -> (match b with
           | [] -> true
           | _ :: _ -> false)
  | x :: a' ->
    (match b with
     | [] -> false
     | y :: b' -> (&&) (N.eqb x y) (list_eqb a' b'))

(** val memN : n -> n list -> bool **)

let memN x l =
  existsb (N.eqb x) l

(** val complete : oracle -> fname -> icontent -> bool **)

let complete o f c =
  match o.expected f with
  | Some e -> (&&) (negb (snd c)) (list_eqb (fst c) e)
  | None -> false

(** val img_file : image -> fname -> icontent option **)

let img_file img f =
  if img.idirs (dir_of f) then img.iget f else None

(** val file_ok : oracle -> image -> fname -> bool **)

let file_ok o img f =
  match img_file img f with
  | Some c -> complete o f c
  | None -> false

(** val listing : image -> dname -> fname list **)

let listing img d =
  filter (fun f ->
    (&&) (dname_eqb (dir_of f) d)
      (match img_file img f with
       | Some _ -> true
       | None -> false)) img.inames

(** val recover_dir : oracle -> image -> rresult **)

let recover_dir o img =
  match img_file img Current with
  | Some i ->
    let (l, _) = i in
    (match l with
     | [] -> Failed
     | t :: _ ->
       (match o.current_points t with
        | Some vid ->
          if negb (file_ok o img (VersionFile vid))
          then Failed
          else (match o.version_contents vid with
                | Some vd ->
                  if negb
                       (forallb (fun id -> file_ok o img (TableFile id))
                         vd.vd_tables)
                  then Failed
                  else let blobs_present = img.idirs Blobs in
                       if (&&) blobs_present
                            (negb
                              (forallb (fun id ->
                                file_ok o img (BlobFile id)) vd.vd_blobs))
                       then Failed
                       else let del_v =
                              filter (fun f ->
                                match f with
                                | VersionFile id -> negb (N.eqb id vid)
                                | _ -> false) (listing img Root)
                            in
                            let del_t =
                              filter (fun f ->
                                match f with
                                | TableFile id -> negb (memN id vd.vd_tables)
                                | _ -> false) (listing img Tables)
                            in
                            let del_b =
                              filter (fun f ->
                                match f with
                                | BlobFile id -> negb (memN id vd.vd_blobs)
                                | _ -> false) (listing img Blobs)
                            in
                            Recovered (vid, vd.vd_tables,
                            (if blobs_present then vd.vd_blobs else []),
                            (app del_v (app del_t del_b)))
                | None -> Failed)
        | None -> Failed))
  | None -> Fresh

type rsummary =
| SFresh
| SFailed
| SRec of n * n list * n list

(** val summary : rresult -> rsummary **)

let summary = function
| Fresh -> SFresh
| Recovered (v, t, b, _) -> SRec (v, t, b)
| Failed -> SFailed

(** val recover_result_of : oracle -> fsstate -> rresult **)

let recover_result_of o s =
  recover_dir o (durable_image s)

(** val write_all : fname -> n list -> fsop list **)

let write_all f toks =
  map (fun x -> Write (f, x)) toks

type wfile = { w_id : n; w_data : n list; w_tail : n list }

(** val table_finish : wfile -> fsop list **)

let table_finish w =
  app (write_all (TableFile w.w_id) w.w_tail) ((FsyncFile (TableFile
    w.w_id)) :: ((FsyncDir Tables) :: []))

(** val tables_from : wfile -> wfile list -> fsop list **)

let rec tables_from cur rest =
  app (write_all (TableFile cur.w_id) cur.w_data)
    (match rest with
     | [] -> table_finish cur
     | nxt :: rest' ->
       (Create ((TableFile nxt.w_id),
         true)) :: (app (table_finish cur) (tables_from nxt rest')))

(** val trace_tables : wfile list -> fsop list **)

let trace_tables = function
| [] -> []
| w :: rest -> (Create ((TableFile w.w_id), true)) :: (tables_from w rest)

(** val blob_finish : bool -> wfile -> fsop list **)

let blob_finish fix_dir w =
  app (write_all (BlobFile w.w_id) w.w_tail)
    (app ((FsyncFile (BlobFile w.w_id)) :: [])
      (if fix_dir then (FsyncDir Blobs) :: [] else []))

(** val blobs_from : bool -> wfile -> wfile list -> fsop list **)

let rec blobs_from fix_dir cur rest =
  app (write_all (BlobFile cur.w_id) cur.w_data)
    (match rest with
     | [] -> blob_finish fix_dir cur
     | nxt :: rest' ->
       (Create ((BlobFile nxt.w_id),
         false)) :: (app (blob_finish fix_dir cur)
                      (blobs_from fix_dir nxt rest')))

(** val trace_blobs : bool -> wfile list -> fsop list **)

let trace_blobs fix_dir = function
| [] -> []
| w :: rest ->
  (Create ((BlobFile w.w_id), false)) :: (blobs_from fix_dir w rest)

(** val trace_persist : n -> n list -> n -> n -> fsop list **)

let trace_persist vid vtoks tmp ctok =
  app ((Create ((VersionFile vid), false)) :: [])
    (app (write_all (VersionFile vid) vtoks) ((FsyncFile (VersionFile
      vid)) :: ((FsyncDir Root) :: ((Create ((TempFile tmp),
      true)) :: ((Write ((TempFile tmp), ctok)) :: ((FsyncFile (TempFile
      tmp)) :: ((Rename ((TempFile tmp), Current)) :: ((FsyncFile
      Current) :: ((FsyncDir Root) :: [])))))))))

(** val trace_maintenance : n list -> fsop list **)

let trace_maintenance old_vids =
  map (fun v -> Unlink (VersionFile v)) old_vids

(** val trace_drop_files : n list -> n list -> fsop list **)

let trace_drop_files tables blobs =
  app (map (fun t -> Unlink (TableFile t)) tables)
    (map (fun b -> Unlink (BlobFile b)) blobs)

(** val trace_flush :
    wfile list -> n -> n list -> n -> n -> n list -> fsop list **)

let trace_flush tables vid vtoks tmp ctok old_vids =
  app (trace_tables tables)
    (app (trace_persist vid vtoks tmp ctok) (trace_maintenance old_vids))

(** val trace_flush_blob :
    bool -> wfile list -> wfile list -> n -> n list -> n -> n -> n list ->
    fsop list **)

let trace_flush_blob fix_dir tables blobs vid vtoks tmp ctok old_vids =
  match tables with
  | [] -> []
  | w :: rest ->
    (Create ((TableFile w.w_id),
      true)) :: (app (trace_blobs fix_dir blobs)
                  (app (tables_from w rest)
                    (app (trace_persist vid vtoks tmp ctok)
                      (trace_maintenance old_vids))))

(** val trace_merge :
    bool -> wfile list -> wfile list -> n -> n list -> n -> n -> n list -> n
    list -> n list -> fsop list **)

let trace_merge fix_dir tables blobs vid vtoks tmp ctok old_vids old_tables old_blobs =
  match tables with
  | [] -> []
  | w :: rest ->
    (Create ((TableFile w.w_id),
      true)) :: (app
                  (match blobs with
                   | [] -> []
                   | b :: _ -> (Create ((BlobFile b.w_id), false)) :: [])
                  (app (tables_from w rest)
                    (app
                      (match blobs with
                       | [] -> []
                       | b :: brest -> blobs_from fix_dir b brest)
                      (app (trace_persist vid vtoks tmp ctok)
                        (app (trace_maintenance old_vids)
                          (trace_drop_files old_tables old_blobs))))))

(** val trace_move_or_drop :
    n -> n list -> n -> n -> n list -> n list -> n list -> fsop list **)

let trace_move_or_drop vid vtoks tmp ctok old_vids dropped_tables dropped_blobs =
  app (trace_persist vid vtoks tmp ctok)
    (app (trace_maintenance old_vids)
      (trace_drop_files dropped_tables dropped_blobs))

(** val trace_clear : n -> n list -> n -> n -> fsop list **)

let trace_clear =
  trace_persist

(** val trace_create_new : bool -> n list -> n -> n -> fsop list **)

let trace_create_new blob vtoks tmp ctok =
  app ((Mkdir Root) :: ((Mkdir Tables) :: ((FsyncDir Tables) :: ((FsyncDir
    Root) :: []))))
    (app (trace_persist N0 vtoks tmp ctok)
      (if blob then (Mkdir Blobs) :: ((FsyncDir Blobs) :: []) else []))

(** val trace_ingest :
    wfile list -> fsop list -> n -> n list -> n -> n -> fsop list **)

let trace_ingest tables flush_part vid vtoks tmp ctok =
  match tables with
  | [] -> []
  | w :: rest ->
    (Create ((TableFile w.w_id),
      true)) :: (app flush_part
                  (app (tables_from w rest)
                    (trace_persist vid vtoks tmp ctok)))

(** val trace_recover_cleanup : fname list -> fsop list **)

let trace_recover_cleanup deleted =
  map (fun x -> Unlink x) deleted

(** val opt_eqb : n option -> n option -> bool **)

let opt_eqb a b =
  match a with
  | Some x -> (match b with
               | Some y -> N.eqb x y
               | None -> false)
  | None -> (match b with
             | Some _ -> false
             | None -> true)

(** val pnames : oracle -> n -> fname list **)

let pnames o vid =
  match o.version_contents vid with
  | Some vd ->
    (VersionFile
      vid) :: (app (map (fun x -> TableFile x) vd.vd_tables)
                (map (fun x -> BlobFile x) vd.vd_blobs))
  | None -> []

(** val opnames : oracle -> n option -> fname list **)

let opnames o = function
| Some v -> pnames o v
| None -> []

(** val stableb : oracle -> fsstate -> fname -> bool **)

let stableb o s f =
  match s.dns f with
  | Some i ->
    (match s.vns f with
     | Some j ->
       (&&)
         ((&&) ((&&) (N.eqb i j) (list_eqb (s.dcont i) (s.vcont i)))
           (match o.expected f with
            | Some e -> list_eqb (s.vcont i) e
            | None -> false)) (s.ddirs (dir_of f))
     | None -> false)
  | None -> false

(** val touched : fsop -> fname list **)

let touched = function
| Create (f, _) -> f :: []
| Write (f, _) -> f :: []
| Rename (a, b) -> a :: (b :: [])
| Unlink f -> f :: []
| _ -> []

(** val safe_name : fname list -> fname -> bool **)

let safe_name p g =
  negb (existsb (fname_eqb g) p)

(** val safe_op : fname list -> fsop -> bool **)

let safe_op p op =
  forallb (safe_name p) (touched op)

type pstate = (n option * n option) * bool

(** val protected : oracle -> pstate -> fname list **)

let protected o = function
| (p, _) -> let (dv, vv) = p in Current :: (app (opnames o dv) (opnames o vv))

(** val cur_of :
    oracle -> fsstate -> (fname -> n option) -> n option option **)

let cur_of o s ns =
  match ns Current with
  | Some i ->
    (match s.vcont i with
     | [] -> None
     | t :: l ->
       (match l with
        | [] ->
          if list_eqb (s.dcont i) (t :: [])
          then (match o.current_points t with
                | Some v -> Some (Some v)
                | None -> None)
          else None
        | _ :: _ -> None))
  | None -> Some None

(** val publish_ok : oracle -> fsstate -> pstate -> n -> n option **)

let publish_ok o s ps k =
  let (p, pub) = ps in
  let (dv, vv) = p in
  if (||) pub (negb (opt_eqb dv vv))
  then None
  else (match cur_of o s (upd_name s.vns Current (s.vns (TempFile k))) with
        | Some o0 ->
          (match o0 with
           | Some v1 ->
             (match s.vns (TempFile k) with
              | Some _ ->
                if (&&) (forallb (stableb o s) (pnames o v1))
                     (match o.version_contents v1 with
                      | Some _ -> true
                      | None -> false)
                then Some v1
                else None
              | None -> None)
           | None -> None)
        | None -> None)

(** val proto_step : oracle -> fsstate -> pstate -> fsop -> pstate option **)

let proto_step o s ps op =
  let (p, pub) = ps in
  let (dv, vv) = p in
  (match op with
   | FsyncDir d ->
     (match d with
      | Root -> Some ((vv, vv), pub)
      | _ -> if safe_op (protected o ps) op then Some ps else None)
   | Rename (src, dst) ->
     (match src with
      | TempFile k ->
        (match dst with
         | Current ->
           (match publish_ok o s ps k with
            | Some v1 -> Some ((dv, (Some v1)), true)
            | None -> None)
         | _ -> if safe_op (protected o ps) op then Some ps else None)
      | _ -> if safe_op (protected o ps) op then Some ps else None)
   | _ -> if safe_op (protected o ps) op then Some ps else None)

(** val proto_run :
    oracle -> fsstate -> pstate -> fsop list -> (fsstate * pstate) option **)

let rec proto_run o s ps = function
| [] -> Some (s, ps)
| op :: tr' ->
  (match proto_step o s ps op with
   | Some ps' ->
     (match apply s op with
      | Some s' -> proto_run o s' ps' tr'
      | None -> None)
   | None -> None)

(** val protocol_ok : oracle -> fsstate -> fsop list -> bool **)

let protocol_ok o s tr =
  match cur_of o s s.dns with
  | Some dv ->
    (match cur_of o s s.vns with
     | Some vv ->
       (&&) (opt_eqb dv vv)
         (match proto_run o s ((dv, vv), false) tr with
          | Some p ->
            let (_, p0) = p in
            let (p1, _) = p0 in let (dvf, vvf) = p1 in opt_eqb dvf vvf
          | None -> false)
     | None -> false)
  | None -> false

(** val first_violation :
    oracle -> fsstate -> pstate -> fsop list -> nat -> nat option **)

let rec first_violation o s ps tr k =
  match tr with
  | [] -> None
  | op :: tr' ->
    (match proto_step o s ps op with
     | Some ps' ->
       (match apply s op with
        | Some s' -> first_violation o s' ps' tr' (S k)
        | None -> Some k)
     | None -> Some k)

(** val rsummary_eqb : rsummary -> rsummary -> bool **)

let rsummary_eqb a b =
  match a with
  | SFresh -> (match b with
               | SFresh -> true
               | _ -> false)
  | SFailed -> (match b with
                | SFailed -> true
                | _ -> false)
  | SRec (v, t, b1) ->
    (match b with
     | SRec (v', t', b') ->
       (&&) ((&&) (N.eqb v v') (list_eqb t t')) (list_eqb b1 b')
     | _ -> false)

(** val all_prefix_summaries :
    oracle -> fsstate -> fsop list -> rsummary list **)

let all_prefix_summaries o s tr =
  flat_map (fun n0 ->
    match run_fs s (firstn n0 tr) with
    | Some sn -> map (fun i -> summary (recover_dir o i)) (crash_images sn)
    | None -> []) (seq O (S (length tr)))

(** val crash_atomic_check : oracle -> fsstate -> fsop list -> bool **)

let crash_atomic_check o s tr =
  match run_fs s tr with
  | Some sf ->
    let before = summary (recover_result_of o s) in
    let after = summary (recover_result_of o sf) in
    (&&)
      (forallb (fun r -> (||) (rsummary_eqb r before) (rsummary_eqb r after))
        (all_prefix_summaries o s tr))
      (forallb (fun i -> rsummary_eqb (summary (recover_dir o i)) after)
        (crash_images sf))
  | None -> false

(** val disk_okb : oracle -> fsstate -> n option -> bool **)

let disk_okb o s ov =
  (&&)
    ((&&) (opt_eqb (s.dns Current) (s.vns Current))
      (match cur_of o s s.dns with
       | Some ov' -> opt_eqb ov' ov
       | None -> false))
    (match ov with
     | Some v ->
       (&&) (match o.version_contents v with
             | Some _ -> true
             | None -> false) (forallb (stableb o s) (pnames o v))
     | None -> true)
