(** Extraction of the file-system / persistence-protocol / recovery model
    ([Model/Fs.v]) for the strace-side correspondence engine ([bin/fs_engine.py],
    [ocaml/fsrunner.ml]).  Only ExtrOcamlBasic's directives are used; N / positive / nat
    stay Coq's inductives. *)
Require Extraction.
Require Import ExtrOcamlBasic.
From LsmV Require Import Model.Fs.

Extraction Language OCaml.

Extraction "../ocaml/fsmodel.ml"
  fs_init apply run_fs first_impossible
  crash_images durable_image volatile_image
  recover_dir summary recover_result_of rsummary_eqb
  protocol_ok first_violation proto_run cur_of disk_okb
  crash_atomic_check all_prefix_summaries
  trace_persist trace_tables trace_blobs trace_flush trace_flush_blob trace_merge
  trace_move_or_drop trace_clear trace_create_new trace_ingest trace_maintenance
  trace_recover_cleanup.
