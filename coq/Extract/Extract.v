(** Extraction of the executable model for the correspondence runner.
    Only ExtrOcamlBasic's directives are used (bool, option, unit, list, prod, sumbool,
    sumor -> OCaml's); N / positive / nat stay Coq's inductives. *)
Require Extraction.
Require Import ExtrOcamlBasic.
From LsmV Require Import Base.Bytes Model.Entry Model.Tree Model.Stream Model.History Model.Cert Model.Marks Model.Range Model.Prefix Model.Version Model.Bounds Model.Fifo.
From LsmV Require Model.DataBlock Model.Bloom Model.VersionCodec Model.Ints Model.BlockIndex Model.Leveled.

Extraction Language OCaml.

Extraction "../ocaml/model.ml"
  key_cmp key_eqb key_ltb key_leb
  mkE entry_eqb spec_get spec_range newest visible in_bounds keys_of
  mkM mkT mkV mkSV check_inv_sv sv_get sv_get_raw content containers table_ok run_ok
  sorted_b table_meta_ok recency_b newer_than nodup_N_b run_disjoint_b all_tables all_runs
  run_stream cstream merge_sorted no_filter
  version_for_snapshot maintenance latest SEQ_MAX
  content_agrees content_diff subset_of_history highest_persisted highest_memtable highest_overall impl_highest_persisted impl_highest_memtable impl_highest
  sv_range_run sv_range prefix_to_range is_prefix
  optimize_runs with_new_l0_run with_merge with_moved with_dropped version_inv merge_choice_ok move_choice_ok l0_choice_ok
  bounds_contains bounds_is_empty drop_range_choose fifo_choose_full
  LsmV.Model.DataBlock.encode_block LsmV.Model.DataBlock.decode_all LsmV.Model.DataBlock.point_read LsmV.Model.DataBlock.decode_all_back
  LsmV.Model.Bloom.bloom_build_opt LsmV.Model.Bloom.bloom_contains_opt LsmV.Model.Bloom.bloom_encode LsmV.Model.Bloom.bloom_decode
  LsmV.Model.VersionCodec.decode_tables_section LsmV.Model.VersionCodec.decode_blob_files_section LsmV.Model.VersionCodec.decode_gc_section LsmV.Model.VersionCodec.encode_tables_section
  LsmV.Model.BlockIndex.btable_check LsmV.Model.BlockIndex.btable_get LsmV.Model.BlockIndex.mkBT LsmV.Model.BlockIndex.mkBH LsmV.Model.BlockIndex.index_of

  LsmV.Model.Leveled.leveled_choices
  N.add N.mul N.sub N.eqb N.ltb N.leb N.of_nat N.to_nat.
