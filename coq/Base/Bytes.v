(** Keys are byte strings; bytes are modelled as unbounded [N] (well-formedness
    [< 256] is only required by theorems about byte arithmetic, e.g. prefix ranges).
    Mirrors: Rust's [impl Ord for [u8]] (lexicographic), used by [UserKey]/[Slice]. *)
From Coq Require Export List NArith Bool Lia.
Export ListNotations.
Open Scope N_scope.

Definition key := list N.

Fixpoint key_cmp (a b : key) : comparison :=
  match a, b with
  | [], [] => Eq
  | [], _ :: _ => Lt
  | _ :: _, [] => Gt
  | x :: a', y :: b' =>
      match N.compare x y with
      | Eq => key_cmp a' b'
      | c => c
      end
  end.

Definition key_eqb (a b : key) : bool := match key_cmp a b with Eq => true | _ => false end.
Definition key_ltb (a b : key) : bool := match key_cmp a b with Lt => true | _ => false end.
Definition key_leb (a b : key) : bool := match key_cmp a b with Gt => false | _ => true end.

Lemma key_cmp_refl a : key_cmp a a = Eq.
Proof. induction a as [|x a IH]; simpl; [reflexivity|]. now rewrite N.compare_refl. Qed.

Lemma key_cmp_eq a b : key_cmp a b = Eq <-> a = b.
Proof.
  split; [|intros ->; apply key_cmp_refl].
  revert b; induction a as [|x a IH]; intros [|y b]; simpl; try congruence.
  destruct (N.compare_spec x y) as [->|H|H]; try congruence.
  intros E. f_equal. now apply IH.
Qed.

Lemma key_cmp_antisym a b : key_cmp b a = CompOpp (key_cmp a b).
Proof.
  revert b; induction a as [|x a IH]; intros [|y b]; simpl; try reflexivity.
  rewrite (N.compare_antisym x y).
  destruct (N.compare x y); simpl; auto.
Qed.

Lemma key_cmp_lt_trans a b c : key_cmp a b = Lt -> key_cmp b c = Lt -> key_cmp a c = Lt.
Proof.
  revert b c; induction a as [|x a IH]; intros [|y b] [|z c]; simpl; try congruence.
  destruct (N.compare_spec x y) as [->|H1|H1]; try congruence.
  - destruct (N.compare_spec y z) as [->|H2|H2]; try congruence. apply IH.
  - intros _. destruct (N.compare_spec y z) as [->|H2|H2]; try congruence.
    + intros _. destruct (N.compare_spec x z); try lia; reflexivity.
    + intros _. destruct (N.compare_spec x z); try lia; reflexivity.
Qed.

Lemma key_eqb_eq a b : key_eqb a b = true <-> a = b.
Proof. unfold key_eqb. rewrite <- key_cmp_eq. destruct (key_cmp a b); split; congruence. Qed.

Lemma key_eqb_refl a : key_eqb a a = true.
Proof. now apply key_eqb_eq. Qed.

Lemma key_eqb_neq a b : key_eqb a b = false <-> a <> b.
Proof. rewrite <- key_eqb_eq. destruct (key_eqb a b); split; congruence. Qed.

Lemma key_eqb_sym a b : key_eqb a b = key_eqb b a.
Proof. unfold key_eqb. rewrite (key_cmp_antisym b a). destruct (key_cmp b a); reflexivity. Qed.

Lemma key_eq_dec (a b : key) : {a = b} + {a <> b}.
Proof. destruct (key_eqb a b) eqn:E; [left; now apply key_eqb_eq | right; now apply key_eqb_neq]. Qed.

Definition key_lt (a b : key) : Prop := key_cmp a b = Lt.
Definition key_le (a b : key) : Prop := key_cmp a b <> Gt.

Lemma key_ltb_lt a b : key_ltb a b = true <-> key_lt a b.
Proof. unfold key_ltb, key_lt. destruct (key_cmp a b); split; congruence. Qed.

Lemma key_leb_le a b : key_leb a b = true <-> key_le a b.
Proof. unfold key_leb, key_le. destruct (key_cmp a b); split; congruence. Qed.

Lemma key_lt_irrefl a : ~ key_lt a a.
Proof. unfold key_lt. rewrite key_cmp_refl. congruence. Qed.

Lemma key_lt_trans a b c : key_lt a b -> key_lt b c -> key_lt a c.
Proof. apply key_cmp_lt_trans. Qed.

Lemma key_lt_gt a b : key_cmp a b = Gt <-> key_lt b a.
Proof. unfold key_lt. rewrite (key_cmp_antisym a b). destruct (key_cmp a b); simpl; split; congruence. Qed.

Lemma key_le_lteq a b : key_le a b <-> key_lt a b \/ a = b.
Proof.
  unfold key_le, key_lt. rewrite <- key_cmp_eq.
  destruct (key_cmp a b); split; intros; try tauto; try congruence.
  - destruct H; congruence.
Qed.

Lemma key_le_refl a : key_le a a.
Proof. apply key_le_lteq. now right. Qed.

Lemma key_lt_le a b : key_lt a b -> key_le a b.
Proof. intros. apply key_le_lteq. now left. Qed.

Lemma key_le_lt_trans a b c : key_le a b -> key_lt b c -> key_lt a c.
Proof. rewrite key_le_lteq. intros [H| ->] ?; eauto using key_lt_trans. Qed.

Lemma key_lt_le_trans a b c : key_lt a b -> key_le b c -> key_lt a c.
Proof. rewrite key_le_lteq. intros ? [H| <-]; eauto using key_lt_trans. Qed.

Lemma key_le_trans a b c : key_le a b -> key_le b c -> key_le a c.
Proof.
  rewrite !key_le_lteq. intros [H1| ->] [H2| <-]; eauto using key_lt_trans.
Qed.

Lemma key_le_antisym a b : key_le a b -> key_le b a -> a = b.
Proof.
  rewrite !key_le_lteq. intros [H1| ->] [H2| E]; auto.
  exfalso. eapply key_lt_irrefl. eapply key_lt_trans; eauto.
Qed.

Lemma key_lt_total a b : key_lt a b \/ a = b \/ key_lt b a.
Proof.
  destruct (key_cmp a b) eqn:E.
  - right; left. now apply key_cmp_eq.
  - now left.
  - right; right. now apply key_lt_gt.
Qed.

Lemma key_not_lt_le a b : ~ key_lt a b <-> key_le b a.
Proof.
  rewrite key_le_lteq. destruct (key_lt_total a b) as [H|[->|H]]; split; intros; try tauto.
  - destruct H0 as [H0| ->]; [|now apply key_lt_irrefl in H].
    intro. eapply key_lt_irrefl. eapply key_lt_trans; eauto.
  - apply key_lt_irrefl.
  - intro. eapply key_lt_irrefl. eapply key_lt_trans; eauto.
Qed.

Lemma key_ltb_nlt a b : key_ltb a b = false <-> key_le b a.
Proof. rewrite <- key_not_lt_le, <- key_ltb_lt. destruct (key_ltb a b); split; congruence. Qed.

Lemma key_leb_nle a b : key_leb a b = false <-> key_lt b a.
Proof.
  unfold key_leb. rewrite <- key_lt_gt. destruct (key_cmp a b); split; congruence.
Qed.

Lemma key_leb_ltb a b : key_leb a b = negb (key_ltb b a).
Proof.
  unfold key_leb, key_ltb. rewrite (key_cmp_antisym a b). destruct (key_cmp a b); reflexivity.
Qed.

(** tactic: turn boolean key comparisons in hypotheses/goal into Props *)
Ltac key_prop :=
  repeat match goal with
  | H : key_ltb _ _ = true |- _ => apply key_ltb_lt in H
  | H : key_ltb _ _ = false |- _ => apply key_ltb_nlt in H
  | H : key_leb _ _ = true |- _ => apply key_leb_le in H
  | H : key_leb _ _ = false |- _ => apply key_leb_nle in H
  | H : key_eqb _ _ = true |- _ => apply key_eqb_eq in H
  | H : key_eqb _ _ = false |- _ => apply key_eqb_neq in H
  | |- key_ltb _ _ = true => apply key_ltb_lt
  | |- key_ltb _ _ = false => apply key_ltb_nlt
  | |- key_leb _ _ = true => apply key_leb_le
  | |- key_leb _ _ = false => apply key_leb_nle
  | |- key_eqb _ _ = true => apply key_eqb_eq
  | |- key_eqb _ _ = false => apply key_eqb_neq
  end.
