(** C06 - background flushes and compactions never change what readers see or lose a write.
    Interleaving model (Model/Conc.v) at the granularity of the tree's critical sections:
    one writer (draw seqno / insert / publish), readers (take + register snapshot, pin the
    superversion, read), rotator, flusher (capture sealed / build tables / register with the
    issue-287 check), k compactors (choose+hide / merge without locks / install into the
    CURRENT version + show), major compaction under the exclusive lock. All theorems hold
    for EVERY schedule (list of thread ids). *)
From LsmV Require Import Model.Tree Model.History Model.Conc Proofs.Conc.
From LsmV Require Model.Leveled Proofs.Leveled.
Open Scope N_scope.

(** the invariant holds in every reachable state of every schedule (or a compaction strategy violated its stated obligation: c_bad) *)
Theorem P_C06_CInv :
  forall (wprog : list wop) (ths : list thread) (sched : list nat),
  forallb thread_fresh ths = true -> CInv (crun (cinit wprog ths) sched).
Proof. exact C06_CInv. Qed.
Print Assumptions P_C06_CInv.

(** (a) every retained superversion is structurally sound (sorted containers, recency order), seqnos ordered *)
Theorem P_C06_inv_history :
  forall (wprog : list wop) (ths : list thread),
  forallb thread_fresh ths = true ->
  forall sched : list nat,
  c_bad (crun (cinit wprog ths) sched) = false ->
  exists l : csv,
  clatest (s_hist (c_sh (crun (cinit wprog ths) sched))) = Some l /\
  Sorted.StronglySorted N.le (map cs_seq (s_hist (c_sh (crun (cinit wprog ths) sched)))) /\
  s_vis (c_sh (crun (cinit wprog ths) sched)) <=
  s_ctr (c_sh (crun (cinit wprog ths) sched)) /\
  (forall sv : csv,
  In sv (s_hist (c_sh (crun (cinit wprog ths) sched))) ->
  cs_seq sv <= s_ctr (c_sh (crun (cinit wprog ths) sched)) /\
  recency_b (containers (s_heap (c_sh (crun (cinit wprog ths) sched))) sv) = true /\
  (forall c : list entry,
  In c (containers (s_heap (c_sh (crun (cinit wprog ths) sched))) sv) ->
  sorted_b c = true) /\
  (forall e : entry,
  In e (content (s_heap (c_sh (crun (cinit wprog ths) sched))) sv) ->
  seq e < s_ctr (c_sh (crun (cinit wprog ths) sched)))).
Proof. exact C06_inv_history. Qed.
Print Assumptions P_C06_inv_history.

(** (b) hidden-set discipline: inputs of every in-flight compaction are hidden, pairwise disjoint and still present in the current version *)
Theorem P_C06_inv_hidden :
  forall (wprog : list wop) (ths : list thread),
  forallb thread_fresh ths = true ->
  forall sched : list nat,
  c_bad (crun (cinit wprog ths) sched) = false ->
  exists l : csv,
  clatest (s_hist (c_sh (crun (cinit wprog ths) sched))) = Some l /\
  (forall (i : nat) (t : thread) (m : bool) (d : nat) (inp : list (nat * ctable)),
  nth_error (c_thr (crun (cinit wprog ths) sched)) i = Some t ->
  inflight t = Some (m, d, inp) ->
  incl (inp_ids inp) (s_hidden (c_sh (crun (cinit wprog ths) sched))) /\
  (forall p : nat * ctable, In p inp -> In (snd p) (concat (cs_ver l))) /\
  CompatV (cs_ver l) d inp) /\
  (forall (i j : nat) (t u : thread) (m : bool) (d : nat) (inp : list (nat * ctable))
  (m' : bool) (d' : nat) (inp' : list (nat * ctable)),
  i <> j ->
  nth_error (c_thr (crun (cinit wprog ths) sched)) i = Some t ->
  nth_error (c_thr (crun (cinit wprog ths) sched)) j = Some u ->
  inflight t = Some (m, d, inp) ->
  inflight u = Some (m', d', inp') ->
  forall x : N, In x (inp_ids inp) -> ~ In x (inp_ids inp')) /\
  (forall x : N,
  In x (s_hidden (c_sh (crun (cinit wprog ths) sched))) ->
  exists (i : nat) (t : thread) (m : bool) (d : nat) (inp : list (nat * ctable)),
  nth_error (c_thr (crun (cinit wprog ths) sched)) i = Some t /\
  inflight t = Some (m, d, inp) /\ In x (inp_ids inp)).
Proof. exact C06_inv_hidden. Qed.
Print Assumptions P_C06_inv_hidden.

(** (c) no acknowledged write is lost: the latest superversion reads exactly like the log of inserted writes *)
Theorem P_C06_inv_writes :
  forall (wprog : list wop) (ths : list thread),
  forallb thread_fresh ths = true ->
  forall sched : list nat,
  c_bad (crun (cinit wprog ths) sched) = false ->
  exists l : csv,
  clatest (s_hist (c_sh (crun (cinit wprog ths) sched))) = Some l /\
  (forall (k : key) (S : N),
  cs_seq l < S ->
  cget (s_heap (c_sh (crun (cinit wprog ths) sched))) l k S =
  spec_get (s_log (c_sh (crun (cinit wprog ths) sched))) k S).
Proof. exact C06_inv_writes. Qed.
Print Assumptions P_C06_inv_writes.

(** (d) a flusher's captured memtables are still a prefix of the sealed list: nothing is flushed twice or lost *)
Theorem P_C06_inv_flusher :
  forall (wprog : list wop) (ths : list thread),
  forallb thread_fresh ths = true ->
  forall sched : list nat,
  c_bad (crun (cinit wprog ths) sched) = false ->
  exists l : csv,
  clatest (s_hist (c_sh (crun (cinit wprog ths) sched))) = Some l /\
  (forall (i : nat) (t : thread),
  nth_error (c_thr (crun (cinit wprog ths) sched)) i = Some t ->
  match t with
  | TFlusher _ (FCapt _ ids) | TFlusher _ (FBuilt _ ids _) =>
  exists rest : list N, cs_sealed l = ids ++ rest
  | _ => True
  end).
Proof. exact C06_inv_flusher. Qed.
Print Assumptions P_C06_inv_flusher.

(** major compaction is exclusive *)
Theorem P_C06_major_exclusive :
  forall (wprog : list wop) (ths : list thread),
  forallb thread_fresh ths = true ->
  forall sched : list nat,
  c_bad (crun (cinit wprog ths) sched) = false ->
  forall (i j : nat) (t u : thread) (m : bool) (d : nat) (inp : list (nat * ctable))
  (x : bool * nat * list (nat * ctable)),
  i <> j ->
  nth_error (c_thr (crun (cinit wprog ths) sched)) i = Some t ->
  nth_error (c_thr (crun (cinit wprog ths) sched)) j = Some u ->
  inflight t = Some (m, d, inp) -> inflight u = Some x -> m = false.
Proof. exact C06_major_exclusive. Qed.
Print Assumptions P_C06_major_exclusive.

(** every read at a clean snapshot (in particular every snapshot the writer published) returns the ordered-map value for that snapshot, whatever the schedule *)
Theorem P_C06_reads :
  forall (wprog : list wop) (ths : list thread),
  forallb thread_fresh ths = true ->
  forall (sched : list nat) (o : obs),
  let st := crun (cinit wprog ths) sched in
  c_bad st = false ->
  In o (c_obs st) ->
  o_clean o = true -> o_res o = spec_get (s_log (c_sh st)) (o_key o) (o_S o).
Proof. exact C06_reads. Qed.
Print Assumptions P_C06_reads.

(** a snapshot equal to what the writer itself published is clean *)
Theorem P_C06_published_clean :
  forall (wprog : list wop) (ths : list thread),
  forallb thread_fresh ths = true ->
  forall sched : list nat,
  let st := crun (cinit wprog ths) sched in
  c_bad st = false -> s_vis (c_sh st) = s_wpub (c_sh st) -> snap_clean (c_sh st) = true.
Proof. exact C06_published_clean. Qed.
Print Assumptions P_C06_published_clean.

(** no operation hits an `expect` (no panic) in any schedule *)
Theorem P_C06_no_stuck :
  forall (wprog : list wop) (ths : list thread),
  forallb thread_fresh ths = true ->
  forall sched : list nat,
  c_bad (crun (cinit wprog ths) sched) = false ->
  c_panic (crun (cinit wprog ths) sched) = false.
Proof. exact C06_no_stuck. Qed.
Print Assumptions P_C06_no_stuck.

(** when all threads have finished every key reads its last write *)
Theorem P_C06_final :
  forall (wprog : list wop) (ths : list thread),
  forallb thread_fresh ths = true ->
  forall sched : list nat,
  let st := crun (cinit wprog ths) sched in
  c_bad st = false ->
  all_done st = true ->
  map e_op (s_log (c_sh st)) = wprog /\
  (forall k : key,
  final_get st k = spec_get (s_log (c_sh st)) k (s_vis (c_sh st)) /\
  res_val (final_get st k) = prog_get wprog (length wprog) k).
Proof. exact C06_final. Qed.
Print Assumptions P_C06_final.

(** two schedules of the same programs give the same final view and the same clean read results *)
Theorem P_C06_schedule_independent :
  forall (wprog : list wop) (ths : list thread),
  forallb thread_fresh ths = true ->
  forall sched1 sched2 : list nat,
  let st1 := crun (cinit wprog ths) sched1 in
  let st2 := crun (cinit wprog ths) sched2 in
  c_bad st1 = false ->
  c_bad st2 = false ->
  (all_done st1 = true ->
  all_done st2 = true ->
  forall k : key, res_val (final_get st1 k) = res_val (final_get st2 k)) /\
  (forall o1 o2 : obs,
  In o1 (c_obs st1) ->
  In o2 (c_obs st2) ->
  o_clean o1 = true ->
  o_clean o2 = true ->
  o_key o1 = o_key o2 ->
  covered (s_log (c_sh st1)) (o_S o1) = covered (s_log (c_sh st2)) (o_S o2) ->
  res_val (o_res o1) = res_val (o_res o2)).
Proof. exact C06_schedule_independent. Qed.
Print Assumptions P_C06_schedule_independent.

(** the major strategy always meets the strategy obligation *)
Theorem P_major_never_bad :
  forall (st : cstate) (i : nat) (job : cjob) (rest : list cjob) 
  (sh' : shr) (t' : thread) (os : list obs) (b p : bool),
  CInvG st ->
  nth_error (c_thr st) i = Some (TCompactor (job :: rest) KIdle) ->
  j_major job = true ->
  kstep (c_sh st) (c_thr st) (job :: rest) KIdle = Some (sh', t', os, b, p) -> b = false.
Proof. exact major_never_bad. Qed.
Print Assumptions P_major_never_bad.

(** REFUTED without the clean hypothesis: upgrade_version publishes (visible_seqno.fetch_max(seqno+1)) seqnos a writer has drawn but not inserted yet - a snapshot read from the visible counter at that moment can miss that write (known finding K2 family) *)
Theorem P_C06_reads_unclean_refuted :
  exists (wprog : list wop) (ths : list thread) (sched : list nat) 
  (o : obs),
  forallb thread_fresh ths = true /\
  (let st := crun (cinit wprog ths) sched in
  c_bad st = false /\
  In o (c_obs st) /\ o_res o <> spec_get (s_log (c_sh st)) (o_key o) (o_S o)).
Proof. exact ConcExample.C06_reads_unclean_refuted. Qed.
Print Assumptions P_C06_reads_unclean_refuted.


(** the strategy obligation for the default strategy: no table chosen by Leveled is hidden (owned
    by another running compaction), for every score outcome - except through the `'trivial_lmax`
    shortcut, which never consults the hidden set (refuted below; the worker then declines the
    Move, compaction/worker.rs, so no state changes) *)
Theorem P_C06_leveled_not_hidden :
  forall (lvl : nat) (need_new_l1 : bool) (size : table -> N) (l0_threshold target_size : N)
         (v : version) (hidden : list N),
    LsmV.Model.Version.version_inv v = true ->
    forall (ids : list N) (dest : nat),
      LsmV.Model.Leveled.leveled_trivial_lmax v = None ->
      LsmV.Model.Leveled.leveled_choose lvl need_new_l1 size l0_threshold target_size v hidden = LsmV.Model.Leveled.LMove ids dest \/
      LsmV.Model.Leveled.leveled_choose lvl need_new_l1 size l0_threshold target_size v hidden = LsmV.Model.Leveled.LMerge ids dest ->
      forall id : N, In id ids -> LsmV.Model.Leveled.is_hidden hidden id = false.
Proof. exact LsmV.Proofs.Leveled.leveled_not_hidden. Qed.
Print Assumptions P_C06_leveled_not_hidden.
