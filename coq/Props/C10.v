(** C10 - corrupted bytes on disk are reported, never served as data.
    Byte-level model of the integrity guards of the read paths (Model/Integrity.v); xxh3 is
    a PARAMETER: every theorem holds for every hash function, hash collisions are explicit
    disjuncts. A mutated / truncated file is rejected, or read exactly as before, or the
    mutation is a collision. *)
From LsmV Require Import Model.Integrity Proofs.Integrity.
Open Scope N_scope.

(** every byte of every block (33-byte header + payload) of a table / blob-meta block is guarded *)
Theorem C10_block_byte_guarded :
  forall h128 : list N -> N,
  (forall l : list N, h128 l < 2 ^ 128) ->
  forall (pre : list N) (h : header) (payload post : list N) (pos : nat)
  (b : N) (ty : block_type),
  h_checksum h = h128 payload ->
  h_data_length h < 2 ^ 32 ->
  h_uncompressed_length h < 2 ^ 32 ->
  (length pre <= pos < length pre + (33 + length payload))%nat ->
  let file := pre ++ block_bytes h128 h payload ++ post in
  let size := (33 + length payload)%nat in
  let r := load_block h128 file (length pre) size ty in
  let r' := load_block h128 (mutate file pos b) (length pre) size ty in
  (exists e : xerr, r' = BErr e) \/
  r' = r \/
  (exists p' : list N,
  p' <> payload /\ length p' = length payload /\ h128 p' = h128 payload) \/
  (exists hb' : list N,
  hb' <> header_body h /\
  length hb' = 29%nat /\ trunc 32 (h128 hb') = trunc 32 (h128 (header_body h))).
Proof. exact block_byte_guarded. Qed.
Print Assumptions C10_block_byte_guarded.

(** a truncation that cuts into a block is an error *)
Theorem C10_block_truncation_guarded :
  forall (h128 : list N -> N) (pre : list N) (h : header) (payload post : list N)
  (len : nat) (ty : block_type),
  (len < length pre + (33 + length payload))%nat ->
  load_block h128 (truncate (pre ++ block_bytes h128 h payload ++ post) len)
  (length pre) (33 + length payload) ty = BErr XEof.
Proof. exact block_truncation_guarded. Qed.
Print Assumptions C10_block_truncation_guarded.

(** a mutation outside a block does not change what loading it returns *)
Theorem C10_block_outside_unchanged :
  forall (h128 : list N -> N) (file : list N) (off size : nat) 
  (ty : block_type) (pos : nat) (b : N),
  (pos < off)%nat \/ (off + size <= pos)%nat ->
  load_block h128 (mutate file pos b) off size ty = load_block h128 file off size ty.
Proof. exact block_outside_unchanged. Qed.
Print Assumptions C10_block_outside_unchanged.

(** what the writer produces satisfies the hypotheses (non-vacuity) *)
Theorem C10_encode_block_loads :
  forall h128 : list N -> N,
  (forall l : list N, h128 l < 2 ^ 128) ->
  forall (pre : list N) (t : block_type) (p post : list N),
  load_block h128 (pre ++ encode_block h128 t p ++ post) (length pre) (33 + length p) t =
  BOk
  {|
  b_header :=
  {|
  h_type := t;
  h_checksum := h128 p;
  h_data_length := trunc 32 (N.of_nat (length p));
  h_uncompressed_length := trunc 32 (N.of_nat (length p))
  |};
  b_data := p
  |}.
Proof. exact encode_block_loads. Qed.
Print Assumptions C10_encode_block_loads.

(** the version file as a whole is guarded by the checksum stored in `current` (fix F8) *)
Theorem C10_version_file_guarded :
  forall (h128 : list N -> N) (cur vb vb' : list N),
  read_version h128 cur vb = BOk vb ->
  let r' := read_version h128 cur vb' in
  (exists e : xerr, r' = BErr e) \/ r' = BOk vb \/ vb' <> vb /\ h128 vb' = h128 vb.
Proof. exact version_file_guarded. Qed.
Print Assumptions C10_version_file_guarded.

(** ... for every single byte *)
Theorem C10_version_file_byte_guarded :
  forall (h128 : list N -> N) (cur vb : list N) (pos : nat) (b : N),
  read_version h128 cur vb = BOk vb ->
  let r' := read_version h128 cur (mutate vb pos b) in
  (exists e : xerr, r' = BErr e) \/
  r' = BOk vb \/ mutate vb pos b <> vb /\ h128 (mutate vb pos b) = h128 vb.
Proof. exact version_file_byte_guarded. Qed.
Print Assumptions C10_version_file_byte_guarded.

(** ... and every truncation *)
Theorem C10_version_file_truncation_guarded :
  forall (h128 : list N -> N) (cur vb : list N) (len : nat),
  read_version h128 cur vb = BOk vb ->
  (len < length vb)%nat ->
  let r' := read_version h128 cur (truncate vb len) in
  (exists e : xerr, r' = BErr e) \/
  truncate vb len <> vb /\ h128 (truncate vb len) = h128 vb.
Proof. exact version_file_truncation_guarded. Qed.
Print Assumptions C10_version_file_truncation_guarded.

(** ... hence everything recovery parses from it (table ids, global seqnos, run structure, blob files, GC statistics) *)
Theorem C10_recover_version_guarded :
  forall (h128 : list N -> N) (cur vb vb' : list N),
  read_version h128 cur vb = BOk vb ->
  let r' := recover_version h128 cur vb' in
  (exists e : xerr, r' = BErr e) \/
  r' = recover_version h128 cur vb \/ vb' <> vb /\ h128 vb' = h128 vb.
Proof. exact recover_version_guarded. Qed.
Print Assumptions C10_recover_version_guarded.

(** every byte of `current` (version id, checksum, type) *)
Theorem C10_current_file_guarded :
  forall h128 : list N -> N,
  (forall l : list N, h128 l < 2 ^ 128) ->
  forall (dir : list (N * list N)) (id : N) (vb : list N) (pos : nat) (b : N),
  id < 2 ^ 64 ->
  dir_lookup id dir = Some vb ->
  let cur := encode_current id (h128 vb) in
  let r' := read_version_dir h128 dir (mutate cur pos b) in
  read_version_dir h128 dir cur = BOk vb /\
  ((exists e : xerr, r' = BErr e) \/
  r' = BOk vb \/ (exists vb' : list N, vb' <> vb /\ h128 vb' = h128 vb)).
Proof. exact current_file_guarded. Qed.
Print Assumptions C10_current_file_guarded.

(** a truncated `current` is an error *)
Theorem C10_current_truncation_guarded :
  forall (h128 : list N -> N) (dir : list (N * list N)) (id ck : N) (len : nat),
  (len < 25)%nat ->
  read_version_dir h128 dir (truncate (encode_current id ck) len) = BErr XEof.
Proof. exact current_truncation_guarded. Qed.
Print Assumptions C10_current_truncation_guarded.

(** finding F8 (fixed): the 3.1.9 recovery accepted a flipped global_seqno silently *)
Theorem C10_version_file_old_refuted :
  exists (h : list N -> N) (cur vb : list N) (pos : nat) (b : N) 
  (v v' : vfile),
  (forall l : list N, h l < 2 ^ 128) /\
  recover_version h cur vb = BOk v /\
  recover_version_old h cur vb = BOk v /\
  recover_version_old h cur (mutate vb pos b) = BOk v' /\
  map (map (map vt_gseq)) (vf_levels v) = [[[0]; [0]]] /\
  map (map (map vt_gseq)) (vf_levels v') = [[[16]; [0]]] /\
  recover_version h cur (mutate vb pos b) = BErr XChecksumMismatch.
Proof. exact version_file_old_refuted. Qed.
Print Assumptions C10_version_file_old_refuted.

(** the archive's table of contents and trailer are guarded *)
Theorem C10_sfa_guarded :
  forall h128 : list N -> N,
  (forall l : list N, h128 l < 2 ^ 128) ->
  forall (body toc : list N) (tl : N) (entries : list (list N * N * N))
  (pos : nat) (b : N),
  N.of_nat (length body) < 2 ^ 64 ->
  let file := sfa_file h128 body toc tl in
  sfa_read_toc file (N.of_nat (length body)) = Ok (entries, toc) ->
  let r' := sfa_open h128 (mutate file pos b) in
  sfa_open h128 file = BOk entries /\
  ((exists e : xerr, r' = BErr e) \/
  r' = BOk entries \/ (exists c' : list N, c' <> toc /\ h128 c' = h128 toc)).
Proof. exact sfa_guarded. Qed.
Print Assumptions C10_sfa_guarded.

(** ... but not section payloads (they rely on the block / whole-file guards above) *)
Theorem C10_sfa_payload_unguarded :
  forall h128 : list N -> N,
  (forall l : list N, h128 l < 2 ^ 128) ->
  forall (body toc : list N) (tl : N) (entries : list (list N * N * N))
  (pos : nat) (b : N),
  N.of_nat (length body) < 2 ^ 64 ->
  (pos < length body)%nat ->
  let file := sfa_file h128 body toc tl in
  sfa_read_toc file (N.of_nat (length body)) = Ok (entries, toc) ->
  sfa_open h128 (mutate file pos b) = BOk entries.
Proof. exact sfa_payload_unguarded. Qed.
Print Assumptions C10_sfa_payload_unguarded.

(** every byte of a blob frame that a point read uses is guarded *)
Theorem C10_blob_frame_guarded :
  forall h128 : list N -> N,
  (forall l : list N, h128 l < 2 ^ 128) ->
  forall (dbg : bool) (pre post key : list N) (seqno : N) (value : list N)
  (pos : nat) (b : N),
  N.of_nat (length key) < 2 ^ 16 ->
  let F := encode_blob_frame h128 key seqno value (trunc 32 (N.of_nat (length value))) in
  (length pre <= pos < length pre + length F)%nat ->
  let file := pre ++ F ++ post in
  let r' := read_blob_frame h128 dbg (mutate file pos b) (length pre) (length value) key
  in
  read_blob_frame h128 dbg file (length pre) (length value) key = BOk value /\
  ((exists e : xerr, r' = BErr e) \/
  r' = BOk value \/
  (exists x : list N, x <> key ++ value /\ h128 x = h128 (key ++ value))).
Proof. exact blob_frame_guarded. Qed.
Print Assumptions C10_blob_frame_guarded.

(** the blob scanner (relocation) may return an altered seqno / uncompressed length for bytes 20..27 / 30..33 - never an altered key or value *)
Theorem C10_blob_scan_guarded :
  forall h128 : list N -> N,
  (forall l : list N, h128 l < 2 ^ 128) ->
  forall (key : list N) (seqno : N) (value rest : list N) (i : nat) (b : N),
  N.of_nat (length key) < 2 ^ 16 ->
  N.of_nat (length value) < 2 ^ 32 ->
  seqno < 2 ^ 64 ->
  let ul := trunc 32 (N.of_nat (length value)) in
  let F := encode_blob_frame h128 key seqno value ul in
  (i < length F)%nat ->
  let r' := scan_blob_frame h128 (mutate (F ++ rest) i b) in
  scan_blob_frame h128 (F ++ rest) =
  BOk
  (Some
  ({|
  se_key := key; se_seqno := seqno; se_value := value; se_uncompressed_len := ul
  |}, rest)) /\
  ((exists e : xerr, r' = BErr e) \/
  (exists sq ul' : N,
  r' =
  BOk
  (Some
  ({|
  se_key := key; se_seqno := sq; se_value := value; se_uncompressed_len := ul'
  |}, rest)) /\
  ((i < 20)%nat \/ (28 <= i)%nat -> sq = seqno) /\
  ((i < 30)%nat \/ (34 <= i)%nat -> ul' = ul)) \/
  (exists x : list N, x <> key ++ value /\ h128 x = h128 (key ++ value))).
Proof. exact blob_scan_guarded. Qed.
Print Assumptions C10_blob_scan_guarded.

(** known limitation: those header fields are outside every checksum *)
Theorem C10_blob_scan_seqno_refuted :
  exists
  (h : list N -> N) (key : list N) (seqno : N) (value : list N)
  (pos : nat) (b : N) (e' : scan_entry) (rest : list N),
  (forall l : list N, h l < 2 ^ 128) /\
  (let F := encode_blob_frame h key seqno value (trunc 32 (N.of_nat (length value))) in
  scan_blob_frame h (mutate F pos b) = BOk (Some (e', rest)) /\
  se_key e' = key /\ se_value e' = value /\ se_seqno e' <> seqno).
Proof. exact blob_scan_seqno_refuted. Qed.
Print Assumptions C10_blob_scan_seqno_refuted.

(** every byte of a table file lies in exactly one region: block, ToC, trailer, unread, or raw section *)
Theorem C10_table_file_covered :
  forall (h128 : list N -> N) (secs : list tsection) (pos : nat),
  let file := table_file_bytes h128 secs in
  let rs := regions_of_table_file secs in
  (pos < length file)%nat ->
  exists r : region,
  locate pos rs = Some r /\
  In r rs /\
  in_region pos r = true /\
  (forall r' : region, In r' rs -> in_region pos r' = true -> r' = r) /\
  region_layout h128 secs file r.
Proof. exact table_file_covered. Qed.
Print Assumptions C10_table_file_covered.

(** opening a table file after any single-byte mutation: error, same, or collision *)
Theorem C10_open_table_guarded :
  forall h128 : list N -> N,
  (forall l : list N, h128 l < 2 ^ 128) ->
  forall (body toc : list N) (tl : N) (entries : list (list N * N * N))
  (rg : table_regions) (pre : list N) (h : header) (payload post : list N)
  (pos : nat) (b : N),
  N.of_nat (length body) < 2 ^ 64 ->
  let file := sfa_file h128 body toc tl in
  sfa_read_toc file (N.of_nat (length body)) = Ok (entries, toc) ->
  parse_regions entries = BOk rg ->
  file = pre ++ block_bytes h128 h payload ++ post ->
  N.to_nat (fst (tr_meta rg)) = length pre ->
  N.to_nat (snd (tr_meta rg)) = (33 + length payload)%nat ->
  h_checksum h = h128 payload ->
  h_data_length h < 2 ^ 32 ->
  h_uncompressed_length h < 2 ^ 32 ->
  let r' := open_table h128 (mutate file pos b) in
  (exists e : xerr, r' = BErr e) \/ r' = open_table h128 file \/ some_collision h128.
Proof. exact open_table_guarded. Qed.
Print Assumptions C10_open_table_guarded.

(** known limitation: the raw `linked_blob_files` section of a table is unguarded (affects blob GC accounting, not reads) *)
Theorem C10_linked_blob_files_refuted :
  exists
  (h : list N -> N) (secs : list tsection) (pos : nat) (b : N)
  (off size : nat) (items items' : list (N * N * N * N)),
  (forall l : list N, h l < 2 ^ 128) /\
  (let file := table_file_bytes h secs in
  In (RRaw n_linked_blob_files off size) (regions_of_table_file secs) /\
  (off <= pos < off + size)%nat /\
  read_linked_blob_files file off size = BOk items /\
  read_linked_blob_files (mutate file pos b) off size = BOk items' /\
  items' <> items /\ is_err (open_table h (mutate file pos b)) = false).
Proof. exact linked_blob_files_refuted. Qed.
Print Assumptions C10_linked_blob_files_refuted.

(** known limitation: the archive format alone does not exclude a truncation that ends right after an embedded complete archive (only whole-file digests do; version files have one) *)
Theorem C10_sfa_truncation_refuted :
  exists
  (h : list N -> N) (secs : list section) (len : nat) (es es' : list (list N * N * N)),
  (forall l : list N, h l < 2 ^ 128) /\
  (let file := sfa_encode secs (h (sfa_toc secs)) in
  (len < length file)%nat /\
  sfa_open h file = BOk es /\ sfa_open h (truncate file len) = BOk es' /\ es' <> es).
Proof. exact sfa_truncation_refuted. Qed.
Print Assumptions C10_sfa_truncation_refuted.

