(** C12 - a table returns every item written to it through every read path.
    Byte-exact codec theorems; the hash function (xxh3) is a parameter: every statement holds
    for EVERY hash function. *)
From LsmV Require Import Model.Tree Proofs.Newest Proofs.Lookup.
From LsmV Require Model.DataBlock Proofs.DataBlock Model.Bloom Proofs.Bloom Model.Ints Proofs.Ints Model.BlockIndex Proofs.BlockIndex Model.Range.
Module DB := LsmV.Model.DataBlock.
Module DBP := LsmV.Proofs.DataBlock.
Module BL := LsmV.Model.Bloom.
Module BLP := LsmV.Proofs.Bloom.
Module IN := LsmV.Model.Ints.
Module INP := LsmV.Proofs.Ints.
Open Scope N_scope.

(** (1) full forward scan of a data block returns exactly the written items: every restart
    interval, every hash-index bucket count, truncated/full item layout, binary index with
    2- or 4-byte step, trailer *)
Theorem C12_datablock_roundtrip : forall hash ri nb items,
  items <> [] -> DBP.items_wf items -> 1 <= ri /\ ri <= 255 ->
  DBP.block_small (DB.encode_block hash ri nb items) ->
  DB.decode_all (DB.encode_block hash ri nb items) = Some items.
Proof. exact DBP.datablock_roundtrip. Qed.
Print Assumptions C12_datablock_roundtrip.

(** (2) ... and so does a full backward scan *)
Theorem C12_datablock_roundtrip_back : forall hash ri nb items,
  items <> [] -> DBP.items_wf items -> 1 <= ri /\ ri <= 255 ->
  DBP.block_small (DB.encode_block hash ri nb items) ->
  DB.decode_all_back (DB.encode_block hash ri nb items) = Some (rev items).
Proof. exact DBP.datablock_roundtrip_back. Qed.
Print Assumptions C12_datablock_roundtrip_back.

(** (3) a point lookup of ANY key at ANY sequence number returns the first item with that
    key and a smaller seqno - through the binary-search path, the hash-index hit, the
    FREE bucket (absent) and the CONFLICT fallback *)
Theorem C12_datablock_point_read : forall hash ri nb items k S,
  items <> [] -> sorted_b items = true -> DBP.items_wf items -> 1 <= ri /\ ri <= 255 ->
  DBP.block_small (DB.encode_block hash ri nb items) ->
  DB.point_read_res hash (DB.encode_block hash ri nb items) k S = Some (newest k S items) /\
  DB.point_read hash (DB.encode_block hash ri nb items) k S = newest k S items.
Proof. exact DBP.datablock_point_read. Qed.
Print Assumptions C12_datablock_point_read.

(** (4) the prefix-truncated key comparison used by every seek *)
Theorem C12_compare_prefixed_slice : forall prefix suffix needle,
  DB.compare_prefixed_slice prefix suffix needle = key_cmp (prefix ++ suffix) needle.
Proof. exact DBP.compare_prefixed_slice_spec. Qed.
Print Assumptions C12_compare_prefixed_slice.

(** (5) block header *)
Theorem C12_header_roundtrip : forall xxh h rest,
  DB.h_checksum h < 2 ^ 128 -> DB.h_data_length h < 2 ^ 32 -> DB.h_uncompressed_length h < 2 ^ 32 ->
  DB.decode_header xxh (DB.encode_header xxh h ++ rest) = Some (h, rest).
Proof. exact DBP.header_roundtrip. Qed.
Print Assumptions C12_header_roundtrip.

(** (6) keys that were written are never rejected by the filter (wrapping double hashing
    modelled mod 2^64; m a positive multiple of 8 as both constructors produce) *)
Theorem C12_bloom_no_false_negative : forall m k hs h,
  0 < m -> m mod 8 = 0 -> In h hs -> BL.bloom_contains m k (BL.bloom_build m k hs) h = true.
Proof. exact BLP.bloom_no_false_negative. Qed.
Print Assumptions C12_bloom_no_false_negative.

Theorem C12_bloom_codec_roundtrip : forall m k bits,
  m < 2 ^ 64 -> k < 2 ^ 64 -> BL.bloom_decode (BL.bloom_encode m k bits) = BL.BOk (m, k, bits).
Proof. exact BLP.bloom_codec_roundtrip. Qed.
Print Assumptions C12_bloom_codec_roundtrip.

(** (7) integers *)
Theorem C12_varint_roundtrip : forall n rest,
  n < 2 ^ 64 -> IN.decode_varint 64 (IN.encode_varint n ++ rest) = Some (n, rest).
Proof. exact INP.varint_roundtrip. Qed.
Print Assumptions C12_varint_roundtrip.

(** (8) sharpness: a tombstone carrying a value does NOT round-trip (the encoder drops the
    value) - harmless, the tree never writes one; kept visible *)
Theorem C12_tombstone_value_refuted : exists hash ri nb items,
  items <> [] /\ sorted_b items = true /\ Forall DBP.entry_wf items /\
  (1 <= ri /\ ri <= 255) /\ DBP.block_small (DB.encode_block hash ri nb items) /\
  DB.decode_all (DB.encode_block hash ri nb items) <> Some items.
Proof.
  destruct DBP.datablock_roundtrip_tomb_value_refuted as (h & ri & nb & it & A & B & C & D & E & F & _).
  exists h, ri, nb, it. repeat split; auto; apply D.
Qed.
Print Assumptions C12_tombstone_value_refuted.

(** (9) at table level (list of sorted entries + exact metadata), the point read with the
    seqno guard and a sound filter returns the newest visible version *)
Theorem C12_table_get : forall flt t k S, table_ok t = true ->
  (forall e, In e (ents t) -> flt (tid t) (ukey e) = true) ->
  table_get flt t k S = newest k S (ents t).
Proof. exact table_get_newest. Qed.
Print Assumptions C12_table_get.

(** (10) The layer between a data block and a table: a table file is a sequence of data blocks
    plus a block index (full, volatile or two-level/partitioned). [BI.btable_get],
    [BI.btable_range_pulls] and [BI.btable_scan] transliterate Table::get + point_read
    (saturating seqno translation, the seqnos.0 early exit, the index seek with the handle's
    seqno, the `end_key > key` stop rule), table/iter.rs (double-ended, bound seeks on every
    block) and table/scanner.rs. For EVERY way of cutting a sorted item list into non-empty
    blocks - in particular when the versions of one user key straddle block boundaries - and
    every partition of the index handles into non-empty chunks, all three index kinds give:
    point read = newest visible version; ranged iteration under every next/next_back
    interleaving = the deque over the items within the bounds; scanner = all items, each with
    the table's global seqno added. *)
Module BI := LsmV.Model.BlockIndex.
Module BIP := LsmV.Proofs.BlockIndex.
Theorem C12_every_cut_is_exact :
  forall (id g : N) (items : list entry) (blocks : list (list entry)) (chunks : list (list BI.bhandle)),
    sorted_b items = true -> BIP.seq_bound g items -> items <> [] ->
    concat blocks = items -> Forall (fun b : list entry => b <> []) blocks ->
    concat chunks = BI.index_of blocks -> Forall (fun c : list BI.bhandle => c <> []) chunks ->
    forall bt : BI.btable,
      In bt [BI.mk_btable_full id g blocks; BI.mk_btable_volatile id g blocks; BI.mk_btable_two_level id g blocks chunks] ->
      (forall (flt : N -> key -> bool) (k : key) (S : N),
         (forall e : entry, In e items -> flt id (ukey e) = true) ->
         BI.btable_get flt bt k S = newest k S (map (BI.bump g) items)) /\
      (forall (lo hi : bound) (code : list bool),
         BIP.range_valid_for (BI.bt_index bt) lo hi ->
         BI.btable_range_pulls bt lo hi code =
         BIP.dq_run code (filter (fun e : entry => in_bounds lo hi (ukey e)) (map (BI.bump g) items))) /\
      BI.btable_scan bt = map (BI.bump g) items.
Proof. exact BIP.every_cut_is_exact. Qed.
Print Assumptions C12_every_cut_is_exact.

(** the decidable validator run on the block structure dumped from every real table implies the
    hypotheses of the theorems above (the real index = the index the model's writer registers) *)
Theorem C12_btable_check_ok : forall bt : BI.btable, BI.btable_check bt = true -> BIP.btable_wf bt.
Proof. exact BIP.btable_check_ok. Qed.
Print Assumptions C12_btable_check_ok.

Theorem C12_btable_get_newest :
  forall (flt : N -> key -> bool) (bt : BI.btable) (k : key) (S : N),
    BIP.btable_wf bt -> BI.bt_blocks bt <> [] -> BI.bt_slo bt = min_seq (concat (BI.bt_blocks bt)) ->
    (forall e : entry, In e (BIP.flat_ents bt) -> flt (BI.bt_id bt) (ukey e) = true) ->
    BI.btable_get flt bt k S = newest k S (BIP.flat_ents bt).
Proof. exact BIP.btable_get_newest. Qed.
Print Assumptions C12_btable_get_newest.

(** sharpness of the seqno bound: an item stored with seqno u64::MAX is lost by a lower-bounded
    range (seek_lower(key, u64::MAX) against `s >= seqno`); harmless, no snapshot can see it *)
Theorem C12_range_u64_max_refuted :
  exists (bt : BI.btable) (lo hi : bound),
    Forall (fun b : list entry => b <> []) (BI.bt_blocks bt) /\
    sorted_b (concat (BI.bt_blocks bt)) = true /\
    BIP.bindex_wf (BI.bt_index bt) (BI.index_of (BI.bt_blocks bt)) /\
    BI.bt_gseq bt = 0 /\ BI.btable_range bt lo hi <> Range.table_range (BIP.flat_of bt) lo hi.
Proof. exact BIP.Ex.btable_range_flat_refuted_u64_max. Qed.
Print Assumptions C12_range_u64_max_refuted.
