(** C13 - a weak delete behaves like a delete for keys written once (single-delete
    discipline: per key, inserts and weak deletes strictly alternate). *)
From LsmV Require Import Model.Tree Model.Stream Proofs.Newest Proofs.Stream.
Open Scope N_scope.

(** On every read path a weak tombstone hides the key exactly like a strong one:
    [visible] (ignore_tombstone_value / the scan's tombstone filter) maps both to absent. *)
Theorem C13_weak_reads_as_deleted : forall e, ty e = WeakTomb -> visible (Some e) = None.
Proof. intros e H. unfold visible, is_tomb. now rewrite H. Qed.
Print Assumptions C13_weak_reads_as_deleted.

(** The only place a weak tombstone is treated differently is the compaction stream.
    For a key whose versions (newest first) strictly alternate between weak tombstones and
    values, the stream only ever removes adjacent (weak tombstone, value) pairs (plus,
    when compacting into the last level, what eviction allows); the key's remaining
    versions still alternate, a live newest value is kept, and a deleted key stays hidden. *)
Theorem C13_stream_discipline : forall W evict l out log k, ssorted l = true ->
  run_stream W evict no_filter l = (out, log) ->
  alternating (kents k l) = true ->
  subseq (kents k out) (kents k l) /\ alternating (kents k out) = true /\
  hk (kents k out) (kents k l) /\
  (kents k out = [] -> kents k l = [] \/ evict = true \/ last_value (kents k l) = true) /\
  (forall S, (forall e, In e l -> ukey e = k -> seq e < S) ->
     match kents k l with
     | [] => newest k S out = None
     | x :: _ => if negb (is_tomb x) then newest k S out = Some x
                 else visible (newest k S out) = None
     end).
Proof. exact cstream_weak_top. Qed.
Print Assumptions C13_stream_discipline.

(** Composition with the containers consulted after the compaction output ([deeper]): as
    long as the key's WHOLE history alternates, what a reader sees first is unchanged by
    the compaction, and the whole history still alternates afterwards - so the argument
    repeats for every later flush / compaction (induction over maintenance steps). *)
Theorem C13_view_with_deeper : forall W evict l out log k deeper, ssorted l = true ->
  run_stream W evict no_filter l = (out, log) ->
  alternating (kents k l ++ deeper) = true -> (evict = true -> deeper = []) ->
  visible (hd_error (kents k out ++ deeper)) = visible (hd_error (kents k l ++ deeper)) /\
  alternating (kents k out ++ deeper) = true.
Proof. exact cstream_weak_view_with_deeper. Qed.
Print Assumptions C13_view_with_deeper.

(** Finding F3 (fixed in /repo): the stream as shipped in 3.1.9 drained the whole tail of
    the key when cancelling a pair, so a disciplined key came back from the dead. *)
Theorem C13_shipped_stream_refuted : exists W l deeper k, ssorted (l ++ deeper) = true /\
  alternating (kents k (l ++ deeper)) = true /\
  visible (hd_error (kents k l ++ deeper)) = None /\
  visible (hd_error (kents k (fst (cstream_old W false no_filter None l)) ++ deeper)) <> None /\
  visible (hd_error (kents k (fst (run_stream W false no_filter l)) ++ deeper)) = None.
Proof.
  destruct cstream_old_resurrects as (W & l & deeper & k & A & B & C & D & E & F & G).
  exists W, l, deeper, k. repeat split; auto. rewrite E. discriminate.
Qed.
Print Assumptions C13_shipped_stream_refuted.

(** without the discipline a weak delete of a key written twice resurrects the older
    value - by design (documented on remove_weak) *)
Theorem C13_undisciplined_resurrects : exists W evict flt l out log k S, ssorted l = true /\
  run_stream W evict flt l = (out, log) /\ (forall e, In e l -> ukey e = k -> seq e < S) /\
  visible (newest k S out) <> visible (newest k S (filter_all flt l)).
Proof. exact cstream_top_view_refuted_weak. Qed.
Print Assumptions C13_undisciplined_resurrects.

Example C13_nonvacuous :
  let a := [97] in
  let l := [mkE a 3 WeakTomb []; mkE a 2 Value [1]; mkE a 1 WeakTomb []] in
  ssorted l = true /\ alternating (kents a (l ++ [mkE a 0 Value [0]])) = true /\
  fst (run_stream 1000 false no_filter l) = [mkE a 1 WeakTomb []].
Proof. vm_compute. repeat split; reflexivity. Qed.

(** UNBOUNDED, tree level: in the model's tree state machine, from the empty tree and for
    every operation list (writes, rotations, flushes, compactions whose choice keeps the
    versions of k contiguous, moves, history GC), a key whose write history alternates
    between weak deletes and values reads, at every snapshot above all writes, exactly as
    the ordered map says - i.e. as if remove had been called instead of remove_weak. *)
From LsmV Require Import Model.Machine Proofs.Machine Model.Snapshot Model.History Proofs.Snapshot Model.Cert.
Theorem C13_machine_weak_view : forall ops k, mops_ok minit ops = true -> wops_ok k minit ops ->
  let st := mrun minit ops in alternating (kents k (wlog st)) = true ->
  forall sv, latest (hist (hs st)) = Some sv -> forall S, ctr (hs st) <= S ->
  spec_get (content sv) k S = spec_get (wlog st) k S.
Proof. exact machine_weak_view. Qed.
Print Assumptions C13_machine_weak_view.

(** the contiguity side condition on compaction choices is necessary: leaving an older
    version of the key outside the compaction lets an old value come back *)
Theorem C13_contiguity_necessary : exists ops k, mops_ok minit ops = true /\
  alternating (kents k (wlog (mrun minit ops))) = true /\
  wops_ok_b k minit ops = false /\
  mget (fun _ _ => true) (mrun minit ops) k <> None /\
  spec_get (wlog (mrun minit ops)) k SEQ_MAX = None.
Proof.
  exists WeakExample.bad_ops, WeakExample.ka.
  destruct WeakExample.weak_without_contiguity_refuted as (A & B & C & D & E).
  repeat split; auto. rewrite D. discriminate.
Qed.
Print Assumptions C13_contiguity_necessary.
