(** C02 - a snapshot keeps returning the same answers until it is released. *)
From LsmV Require Import Model.Tree Model.History Model.Snapshot Model.Cert
     Proofs.Newest Proofs.Lookup Proofs.Cert Proofs.Snapshot.
Open Scope N_scope.

(** (1) Over the abstract machine of the version history (writes into the shared active
    memtable, in-place rotation, version upgrades = flush / compaction / ingestion /
    drop_range / clear with ARBITRARY effect on the new superversion, history GC), for every
    run of later operations obeying the documented protocol (write seqnos from the shared
    counter, GC watermarks never above the snapshot), a snapshot S read from the visible
    counter keeps resolving to a superversion with the same tables and the same memtable
    entries below S; every key reads the same, and so does every function of the entries
    below S (scans). *)
Theorem C02_snapshot_stable : forall st0 ops S,
  hinv st0 -> S = vis st0 -> protocol_ok S st0 ops = true ->
  exists sv0 sv', latest (hist st0) = Some sv0 /\ vfs (hist st0) S = Some sv0 /\
    vfs (hist (hrun st0 ops)) S = Some sv' /\
    sv_seq sv' = sv_seq sv0 /\ ver sv' = ver sv0 /\
    below S (mem_entries sv') = below S (mem_entries sv0) /\
    (forall k, newest k S (content sv') = newest k S (content sv0)) /\
    (forall k, spec_get (content sv') k S = spec_get (content sv0) k S) /\
    (forall A (F : list entry -> A), looks_below S F ->
       F (content sv') = F (content sv0)).
Proof. exact snapshot_stable. Qed.
Print Assumptions C02_snapshot_stable.

(** (2) the real read path returns the same entry for every key *)
Theorem C02_snapshot_reads_stable : forall flt st0 ops S sv0 sv',
  hinv st0 -> S = vis st0 -> protocol_ok S st0 ops = true ->
  latest (hist st0) = Some sv0 -> vfs (hist (hrun st0 ops)) S = Some sv' ->
  check_inv_sv sv0 = true -> check_inv_sv sv' = true -> filter_sound flt sv0 ->
  forall k, sv_get_raw flt sv' k S = sv_get_raw flt sv0 k S /\
            sv_get flt sv' k S = sv_get flt sv0 k S.
Proof. exact snapshot_reads_stable. Qed.
Print Assumptions C02_snapshot_reads_stable.

(** (3) ... and every range scan *)
Theorem C02_snapshot_scans_stable : forall lo hi S, looks_below S (fun l => spec_range l lo hi S).
Proof. exact spec_range_looks_below. Qed.
Print Assumptions C02_snapshot_scans_stable.

(** (4) the version the snapshot needs is never collected and the lookup never panics *)
Theorem C02_maintenance_keeps : forall h W S sv,
  W <= S -> vfs h S = Some sv -> vfs (maintenance h W) S = Some sv.
Proof. exact maintenance_keeps_any. Qed.
Print Assumptions C02_maintenance_keeps.

Theorem C02_never_panics : forall st0 ops S,
  hinv st0 -> S = vis st0 -> protocol_ok S st0 ops = true ->
  vfs (hist (hrun st0 ops)) S <> None.
Proof. exact snapshot_never_panics. Qed.
Print Assumptions C02_never_panics.

(** (5) the protocol matters: a watermark above a held snapshot loses its version *)
Theorem C02_watermark_above_snapshot_refuted : exists st0 S pre W,
  hinv st0 /\ mids_inv (hist st0) /\ S = vis st0 /\ S < W /\
  protocol_ok S st0 pre = true /\ run_wf st0 (pre ++ [HMaint W]) = true /\
  vfs (hist (hrun st0 pre)) S <> None /\
  vfs (hist (hrun st0 (pre ++ [HMaint W]))) S = None.
Proof. exact watermark_above_snapshot_refuted. Qed.
Print Assumptions C02_watermark_above_snapshot_refuted.

(** (6) certificate used on the dumps of the real tree: a held snapshot S whose resolved
    superversion passes the structural invariant and agrees with the write history at S
    reads, for EVERY key, what the ordered-map Spec reads at S. *)
Theorem C02_certified_snapshot_reads : forall flt h S sv H,
  version_for_snapshot h S = Some sv ->
  check_inv_sv sv = true -> filter_sound flt sv ->
  content_agrees (content sv) H S = true ->
  forall k, sv_get flt sv k S = spec_get H k S.
Proof.
  intros flt h S sv H _ I F A k.
  rewrite (sv_get_sound flt sv I F k S). exact (content_agrees_sound _ _ _ A k).
Qed.
Print Assumptions C02_certified_snapshot_reads.

(** non-vacuity: a concrete three-superversion history built from the initial state
    satisfies the invariant, a snapshot is taken, and a protocol-obeying run
    (delete, rotate, flush, GC, write, clear, GC) follows *)
Example C02_nonvacuous :
  hinv SnapshotExample.st0 /\
  protocol_ok SnapshotExample.S0 SnapshotExample.st0 SnapshotExample.ops1 = true.
Proof.
  split; [exact (proj1 SnapshotExample.st0_hinv) | exact (proj1 SnapshotExample.ops1_protocol)].
Qed.
