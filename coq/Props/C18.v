(** C18 - reported sequence-number high-water marks equal what is actually stored. *)
From LsmV Require Import Model.Marks Proofs.Marks Proofs.Lookup.
Open Scope N_scope.

(** get_highest_persisted_seqno (max over tables of stored upper seqno bound + global
    seqno) equals the largest effective sequence number among the entries actually stored
    in table files; None iff there is no table. *)
Theorem C18_persisted_exact : forall sv,
  check_inv_sv sv = true -> impl_highest_persisted sv = highest_persisted sv.
Proof. exact highest_persisted_exact. Qed.
Print Assumptions C18_persisted_exact.

Theorem C18_memtable_exact : forall sv, impl_highest_memtable sv = highest_memtable sv.
Proof. exact highest_memtable_exact. Qed.
Print Assumptions C18_memtable_exact.

Theorem C18_overall_exact : forall sv,
  check_inv_sv sv = true -> impl_highest sv = highest_overall sv.
Proof. exact highest_exact. Qed.
Print Assumptions C18_overall_exact.

(** "never more ... never less": the mark is attained by a stored entry and bounds all *)
Theorem C18_mark_is_maximum : forall l m,
  max_seq_opt l = Some m ->
  (exists e, In e l /\ seq e = m) /\ (forall e, In e l -> seq e <= m).
Proof.
  intros l m E. split; [now apply max_seq_opt_attained|].
  intros e HI. destruct (max_seq_opt_bound l e HI) as (m' & E' & B). congruence.
Qed.
Print Assumptions C18_mark_is_maximum.

Example C18_nonvacuous :
  check_inv_sv LookupExample.sv0 = true /\ impl_highest LookupExample.sv0 <> None.
Proof. split; [exact LookupExample.sv0_inv | vm_compute; discriminate]. Qed.
