(** C05 - a crash at any instant recovers to the state before or after the interrupted op.
    File-system model (Model/Fs.v): files with volatile and durable content, directories with
    volatile and durable entries; syscalls mkdir/create/write/fsync(file)/fsync(dir)/rename/
    unlink; crash images = per directory any subset of the not-yet-durable entry changes, per
    file the durable content plus any (possibly torn) prefix of the unsynced tail; recovery =
    transliteration of Tree::recover. The decidable predicate [protocol_ok] isolates what the
    proof needs from a trace; it is evaluated on the REAL syscall trace of every operation
    (strace) and the real crate is opened on materialised crash images. *)
From LsmV Require Import Model.Fs Proofs.Fs.
Open Scope N_scope.

(** for every protocol-conforming trace from a consistent disk, EVERY crash image of EVERY prefix recovers - never fails, never starts fresh - to exactly the state before or after the operation, and after the full trace only to after *)
Theorem C05_crash_atomic_generic :
  forall (o : oracle) (s : fsstate) (tr : list fsop),
  disk_consistent o s ->
  protocol_ok o s tr = true ->
  exists sf : fsstate,
  run_fs s tr = Some sf /\
  disk_consistent o sf /\
  (forall (n : nat) (sn : fsstate) (img : image),
  run_fs s (List.firstn n tr) = Some sn ->
  is_crash_image sn img ->
  (summary (recover_dir o img) = summary (recover_result_of o s) \/
  summary (recover_dir o img) = summary (recover_result_of o sf)) /\
  (length tr <= n -> summary (recover_dir o img) = summary (recover_result_of o sf)) /\
  summary (recover_dir o img) <> SFailed /\ summary (recover_dir o img) <> SFresh).
Proof. exact crash_atomic_generic. Qed.
Print Assumptions C05_crash_atomic_generic.

(** the same from the empty folder (tree creation) *)
Theorem C05_crash_atomic_from :
  forall (o : oracle) (s : fsstate) (ov : option BinNums.N) (tr : list fsop),
  disk_ok o s ov ->
  protocol_ok o s tr = true ->
  exists (sf : fsstate) (ovf : option BinNums.N),
  run_fs s tr = Some sf /\
  disk_ok o sf ovf /\
  summary (recover_result_of o s) = osummary o ov /\
  summary (recover_result_of o sf) = osummary o ovf /\
  (forall (n : nat) (sn : fsstate) (img : image),
  run_fs s (List.firstn n tr) = Some sn ->
  is_crash_image sn img ->
  (summary (recover_dir o img) = osummary o ov \/
  summary (recover_dir o img) = osummary o ovf) /\
  (length tr <= n -> summary (recover_dir o img) = osummary o ovf) /\
  summary (recover_dir o img) <> SFailed).
Proof. exact crash_atomic_from. Qed.
Print Assumptions C05_crash_atomic_from.

(** what recovery (incl. orphan cleanup) leaves behind is again a consistent disk: the argument repeats *)
Theorem C05_crash_preserves_consistency :
  forall (o : oracle) (s : fsstate) (tr : list fsop),
  disk_consistent o s ->
  protocol_ok o s tr = true ->
  forall (n : nat) (sn : fsstate) (img : image),
  run_fs s (List.firstn n tr) = Some sn ->
  is_crash_image sn img ->
  img_names_ok img ->
  exists (vid : BinNums.N) (ts bs : list BinNums.N) (del : list fname)
  (s' : fsstate),
  recover_dir o img = Recovered vid ts bs del /\
  run_fs (state_of_image img) (trace_recover_cleanup del) = Some s' /\
  disk_ok o s' (Some vid) /\ summary (recover_result_of o s') = SRec vid ts bs.
Proof. exact crash_preserves_consistency. Qed.
Print Assumptions C05_crash_preserves_consistency.

(** the enumerated crash images are crash images ... *)
Theorem C05_crash_images_sound :
  forall (s : fsstate) (img : image),
  wf s -> names_ok s -> List.In img (crash_images s) -> is_crash_image s img.
Proof. exact crash_images_sound. Qed.
Print Assumptions C05_crash_images_sound.

(** ... and every crash image is enumerated (the extracted checker misses none) *)
Theorem C05_crash_images_complete :
  forall (s : fsstate) (img : image),
  wf s ->
  names_ok s ->
  is_crash_image s img ->
  exists img' : image,
  List.In img' (crash_images s) /\
  (forall d : dname, idirs img' d = idirs img d) /\
  (forall f : fname, iget img' f = iget img f).
Proof. exact crash_images_complete. Qed.
Print Assumptions C05_crash_images_complete.

(** the crate's flush trace conforms *)
Theorem C05_trace_flush_protocol_ok :
  forall (o : oracle) (s : fsstate) (ov : option BinNums.N) (w : wfile)
  (rest : list wfile) (vid : BinNums.N) (vtoks : list BinNums.N)
  (tmp ctok : BinNums.N) (old_vids : list BinNums.N),
  disk_ok o s ov ->
  vdirs s Root = true ->
  vdirs s Tables = true ->
  ddirs s Tables = true ->
  batch_ok o s TableFile (w :: rest) ->
  vns s (TempFile tmp) = None ->
  new_version_ok o ov vid vtoks ctok (tnames (w :: rest)) ->
  dels_ok o s vid (List.map VersionFile old_vids) ->
  protocol_ok o s (trace_flush (w :: rest) vid vtoks tmp ctok old_vids) = true.
Proof. exact trace_flush_protocol_ok. Qed.
Print Assumptions C05_trace_flush_protocol_ok.

(** merge *)
Theorem C05_trace_merge_protocol_ok :
  forall (o : oracle) (s : fsstate) (ov : option BinNums.N) (fixd : bool) 
  (w : wfile) (rest : list wfile) (vid : BinNums.N) (vtoks : list BinNums.N)
  (tmp ctok : BinNums.N) (old_vids ots obs : list BinNums.N),
  disk_ok o s ov ->
  vdirs s Root = true ->
  vdirs s Tables = true ->
  ddirs s Tables = true ->
  batch_ok o s TableFile (w :: rest) ->
  vns s (TempFile tmp) = None ->
  new_version_ok o ov vid vtoks ctok (tnames (w :: rest)) ->
  dels_ok o s vid
  (List.map VersionFile old_vids ++ List.map TableFile ots ++ List.map BlobFile obs) ->
  protocol_ok o s (trace_merge fixd (w :: rest) nil vid vtoks tmp ctok old_vids ots obs) =
  true.
Proof. exact trace_merge_protocol_ok. Qed.
Print Assumptions C05_trace_merge_protocol_ok.

(** move / drop *)
Theorem C05_trace_move_or_drop_protocol_ok :
  forall (o : oracle) (s : fsstate) (ov : option BinNums.N) (vid : BinNums.N)
  (vtoks : list BinNums.N) (tmp ctok : BinNums.N) (old_vids dts dbs : list BinNums.N),
  disk_ok o s ov ->
  vdirs s Root = true ->
  vns s (TempFile tmp) = None ->
  new_version_ok o ov vid vtoks ctok nil ->
  dels_ok o s vid
  (List.map VersionFile old_vids ++ List.map TableFile dts ++ List.map BlobFile dbs) ->
  protocol_ok o s (trace_move_or_drop vid vtoks tmp ctok old_vids dts dbs) = true.
Proof. exact trace_move_or_drop_protocol_ok. Qed.
Print Assumptions C05_trace_move_or_drop_protocol_ok.

(** clear *)
Theorem C05_trace_clear_protocol_ok :
  forall (o : oracle) (s : fsstate) (ov : option BinNums.N) (vid : BinNums.N)
  (vtoks : list BinNums.N) (tmp ctok : BinNums.N),
  disk_ok o s ov ->
  vdirs s Root = true ->
  vns s (TempFile tmp) = None ->
  new_version_ok o ov vid vtoks ctok nil ->
  protocol_ok o s (trace_clear vid vtoks tmp ctok) = true.
Proof. exact trace_clear_protocol_ok. Qed.
Print Assumptions C05_trace_clear_protocol_ok.

(** ingestion *)
Theorem C05_trace_ingest_protocol_ok :
  forall (o : oracle) (s : fsstate) (ov : option BinNums.N) (w : wfile)
  (rest : list wfile) (vid : BinNums.N) (vtoks : list BinNums.N)
  (tmp ctok : BinNums.N),
  disk_ok o s ov ->
  vdirs s Root = true ->
  vdirs s Tables = true ->
  ddirs s Tables = true ->
  batch_ok o s TableFile (w :: rest) ->
  vns s (TempFile tmp) = None ->
  new_version_ok o ov vid vtoks ctok (tnames (w :: rest)) ->
  protocol_ok o s (trace_ingest (w :: rest) nil vid vtoks tmp ctok) = true.
Proof. exact trace_ingest_protocol_ok. Qed.
Print Assumptions C05_trace_ingest_protocol_ok.

(** version GC *)
Theorem C05_trace_maintenance_protocol_ok :
  forall (o : oracle) (s : fsstate) (v0 : BinNums.N) (old_vids : list BinNums.N),
  disk_ok o s (Some v0) ->
  List.NoDup old_vids ->
  (forall a : BinNums.N, List.In a old_vids -> vns s (VersionFile a) <> None /\ a <> v0) ->
  protocol_ok o s (trace_maintenance old_vids) = true.
Proof. exact trace_maintenance_protocol_ok. Qed.
Print Assumptions C05_trace_maintenance_protocol_ok.

(** recovery cleanup *)
Theorem C05_trace_recover_cleanup_protocol_ok :
  forall (o : oracle) (s : fsstate) (v0 : BinNums.N) (deleted : list fname),
  disk_ok o s (Some v0) ->
  List.NoDup deleted ->
  (forall f : fname,
  List.In f deleted -> vns s f <> None /\ f <> Current /\ ~ List.In f (pnames o v0)) ->
  protocol_ok o s (trace_recover_cleanup deleted) = true.
Proof. exact trace_recover_cleanup_protocol_ok. Qed.
Print Assumptions C05_trace_recover_cleanup_protocol_ok.

(** creation *)
Theorem C05_trace_create_new_protocol_ok :
  forall (o : oracle) (blob : bool) (vtoks : list BinNums.N) (tmp ctok : BinNums.N),
  expected o (VersionFile BinNums.N0) = Some vtoks ->
  current_points o ctok = Some BinNums.N0 ->
  version_contents o BinNums.N0 = Some {| vd_tables := nil; vd_blobs := nil |} ->
  protocol_ok o fs_init (trace_create_new blob vtoks tmp ctok) = true.
Proof. exact trace_create_new_protocol_ok. Qed.
Print Assumptions C05_trace_create_new_protocol_ok.

(** blob flush, with the directory fsync of fix F9 *)
Theorem C05_trace_flush_blob_fixed_protocol_ok :
  forall (o : oracle) (s : fsstate) (ov : option BinNums.N) (w : wfile)
  (rest : list wfile) (b : wfile) (brest : list wfile) (vid : BinNums.N)
  (vtoks : list BinNums.N) (tmp ctok : BinNums.N) (old_vids : list BinNums.N),
  disk_ok o s ov ->
  vdirs s Root = true ->
  vdirs s Tables = true ->
  ddirs s Tables = true ->
  vdirs s Blobs = true ->
  ddirs s Blobs = true ->
  batch_ok o s TableFile (w :: rest) ->
  batch_ok o s BlobFile (b :: brest) ->
  vns s (TempFile tmp) = None ->
  new_version_ok o ov vid vtoks ctok (tnames (w :: rest) ++ bnames (b :: brest)) ->
  dels_ok o s vid (List.map VersionFile old_vids) ->
  protocol_ok o s
  (trace_flush_blob true (w :: rest) (b :: brest) vid vtoks tmp ctok old_vids) = true.
Proof. exact trace_flush_blob_fixed_protocol_ok. Qed.
Print Assumptions C05_trace_flush_blob_fixed_protocol_ok.

(** blob merge, with the directory fsync of fix F9 *)
Theorem C05_trace_merge_blob_fixed_protocol_ok :
  forall (o : oracle) (s : fsstate) (ov : option BinNums.N) (w : wfile)
  (rest : list wfile) (b : wfile) (brest : list wfile) (vid : BinNums.N)
  (vtoks : list BinNums.N) (tmp ctok : BinNums.N) (old_vids ots obs : list BinNums.N),
  disk_ok o s ov ->
  vdirs s Root = true ->
  vdirs s Tables = true ->
  ddirs s Tables = true ->
  vdirs s Blobs = true ->
  ddirs s Blobs = true ->
  batch_ok o s TableFile (w :: rest) ->
  batch_ok o s BlobFile (b :: brest) ->
  vns s (TempFile tmp) = None ->
  new_version_ok o ov vid vtoks ctok (tnames (w :: rest) ++ bnames (b :: brest)) ->
  dels_ok o s vid
  (List.map VersionFile old_vids ++ List.map TableFile ots ++ List.map BlobFile obs) ->
  protocol_ok o s
  (trace_merge true (w :: rest) (b :: brest) vid vtoks tmp ctok old_vids ots obs) = true.
Proof. exact trace_merge_blob_fixed_protocol_ok. Qed.
Print Assumptions C05_trace_merge_blob_fixed_protocol_ok.

(** finding F9 (fixed): the 3.1.9 blob writer never fsynced blobs/: after a completed flush the durable image names a blob file whose directory entry is lost, and recovery fails *)
Theorem C05_ExBlob_trace_flush_blob_refuted :
  exists (o : oracle) (s : fsstate) (tr : list fsop) (sf : fsstate) 
  (img : image),
  disk_consistent o s /\
  tr =
  trace_flush_blob false
  ({|
  w_id := BinNums.N0;
  w_data :=
  BinNums.Npos (BinNums.xO (BinNums.xO (BinNums.xI (BinNums.xO BinNums.xH))))
  :: nil;
  w_tail :=
  BinNums.Npos (BinNums.xI (BinNums.xO (BinNums.xI (BinNums.xO BinNums.xH))))
  :: nil
  |} :: nil)
  ({|
  w_id := BinNums.N0;
  w_data :=
  BinNums.Npos (BinNums.xO (BinNums.xI (BinNums.xI (BinNums.xI BinNums.xH))))
  :: nil;
  w_tail :=
  BinNums.Npos (BinNums.xI (BinNums.xI (BinNums.xI (BinNums.xI BinNums.xH))))
  :: nil
  |} :: nil) (BinNums.Npos BinNums.xH)
  (BinNums.Npos (BinNums.xI (BinNums.xI (BinNums.xO BinNums.xH))) :: nil)
  (BinNums.Npos BinNums.xH)
  (BinNums.Npos
  (BinNums.xI
  (BinNums.xO (BinNums.xI (BinNums.xO (BinNums.xO (BinNums.xI BinNums.xH)))))))
  (BinNums.N0 :: nil) /\
  run_fs s tr = Some sf /\
  is_crash_image sf img /\
  recover_dir o img = Failed /\
  summary (recover_result_of o s) = SRec BinNums.N0 nil nil /\
  summary (recover_dir o (volatile_image sf)) =
  SRec (BinNums.Npos BinNums.xH) (BinNums.N0 :: nil) (BinNums.N0 :: nil).
Proof. exact ExBlob.trace_flush_blob_refuted. Qed.
Print Assumptions C05_ExBlob_trace_flush_blob_refuted.

