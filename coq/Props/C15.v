(** C15 - drop_range and clear affect only what they name, and only for later snapshots. *)
From LsmV Require Import Model.Tree Model.History Model.Snapshot Model.Version
     Proofs.Newest Proofs.Lookup Proofs.Snapshot Proofs.Version.
From LsmV Require Model.Bounds Proofs.Bounds.
Module B := LsmV.Model.Bounds.
Module BP := LsmV.Proofs.Bounds.
Open Scope N_scope.

(** (1) containment test of the DropRange strategy: a table is selected iff EVERY key of
    its key range lies inside the bounds (all nine bound-kind combinations) *)
Theorem C15_contains_spec : forall lo hi kmin kmax, key_le kmin kmax ->
  (B.bounds_contains lo hi kmin kmax = true <->
   forall k, key_le kmin k -> key_le k kmax -> in_bounds lo hi k = true).
Proof. exact BP.contains_spec. Qed.
Print Assumptions C15_contains_spec.

(** (2) hence everything drop_range(R) removes lies inside R: no key outside R is touched *)
Theorem C15_drop_range_sound : forall lo hi runs hidden ids id,
  B.tree_drop_range lo hi runs hidden = Some ids -> In id ids ->
  exists t, In t (concat runs) /\ B.t_id t = id /\
    (forall k, key_le (B.t_min t) k -> key_le k (B.t_max t) -> in_bounds lo hi k = true).
Proof. exact BP.tree_drop_range_sound. Qed.
Print Assumptions C15_drop_range_sound.

(** (3) an empty or inverted range changes nothing *)
Theorem C15_empty_range_noop : forall lo hi runs hidden,
  B.bounds_is_empty lo hi = true -> B.tree_drop_range lo hi runs hidden = None.
Proof. intros lo hi runs hidden E. unfold B.tree_drop_range. now rewrite E. Qed.
Print Assumptions C15_empty_range_noop.

Theorem C15_empty_bounds_name_nothing : forall lo hi,
  B.bounds_is_empty lo hi = true -> forall k, in_bounds lo hi k = false.
Proof. exact BP.is_empty_spec. Qed.
Print Assumptions C15_empty_bounds_name_nothing.

(** (4) removing tables keeps the version structurally sound (recency order is closed
    under removing containers), so reads of the untouched keys keep their meaning *)
Theorem C15_dropped_version_sound : forall v ids,
  version_inv v = true -> version_inv (with_dropped v ids) = true.
Proof. exact with_dropped_inv. Qed.
Print Assumptions C15_dropped_version_sound.

(** (5) drop_range and clear are version upgrades: snapshots taken before them keep their
    full view for ALL keys (the upgrade's effect on the new superversion is arbitrary) *)
Theorem C15_earlier_snapshots_untouched : forall st0 ops S,
  hinv st0 -> S = vis st0 -> protocol_ok S st0 ops = true ->
  exists sv0 sv', latest (hist st0) = Some sv0 /\ vfs (hist st0) S = Some sv0 /\
    vfs (hist (hrun st0 ops)) S = Some sv' /\
    sv_seq sv' = sv_seq sv0 /\ ver sv' = ver sv0 /\
    below S (mem_entries sv') = below S (mem_entries sv0) /\
    (forall k, newest k S (content sv') = newest k S (content sv0)) /\
    (forall k, spec_get (content sv') k S = spec_get (content sv0) k S) /\
    (forall A (F : list entry -> A), looks_below S F -> F (content sv') = F (content sv0)).
Proof. exact snapshot_stable. Qed.
Print Assumptions C15_earlier_snapshots_untouched.

(** (6) a point read of a key outside R is a function of the containers that can hold it:
    if no removed table has an entry for k, the newest visible version of k is unchanged *)
Theorem C15_untouched_key_reads_same : forall (c removed : list entry) k S,
  uniq (c ++ removed) ->
  (forall e, In e removed -> ukey e <> k) ->
  newest k S (c ++ removed) = newest k S c.
Proof.
  intros c removed k S U NK.
  rewrite newest_app; auto.
  - destruct (newest k S c); auto.
    apply newest_none. intros e HI. destruct (matches k S e) eqn:M; auto.
    apply matches_iff in M. destruct M as [E _]. exfalso. eapply NK; eauto.
  - intros e e' _ HI' _ E'. exfalso. eapply NK; eauto.
Qed.
Print Assumptions C15_untouched_key_reads_same.
