(** C16 - a failed flush or compaction changes nothing and can simply be retried. *)
From LsmV Require Import Model.Fs Proofs.Fs.
Open Scope N_scope.

(** an operation that aborts with an I/O error at ANY syscall of a protocol-conforming trace leaves a durable state that recovers to before-or-after, and the durably current version has every file intact *)
Theorem C16_fail_atomic :
  forall (o : oracle) (s : fsstate) (tr : list fsop) (vb : BinNums.N),
  disk_ok o s (Some vb) ->
  protocol_ok o s tr = true ->
  exists (sf : fsstate) (va : BinNums.N),
  run_fs s tr = Some sf /\
  disk_ok o sf (Some va) /\
  (forall (n : nat) (sn : fsstate),
  run_fs s (List.firstn n tr) = Some sn ->
  (summary (recover_result_of o sn) = summary (recover_result_of o s) \/
  summary (recover_result_of o sn) = summary (recover_result_of o sf)) /\
  (published o sn vb \/ published o sn va)).
Proof. exact fail_atomic. Qed.
Print Assumptions C16_fail_atomic.

(** every trace of the publish shape (write new files, fsync them and their directories, write+fsync v<N>, fsync root, temp current + fsync + rename + fsync root, then unlinks of unreferenced files) conforms *)
Theorem C16_publish_shape_ok :
  forall (o : oracle) (s : fsstate) (ov : option BinNums.N) (pre : list fsop)
  (vid : BinNums.N) (vtoks : list BinNums.N) (tmp ctok : BinNums.N)
  (dels : list fname) (s1 : fsstate),
  disk_ok o s ov ->
  vdirs s Root = true ->
  (forall op : fsop, List.In op pre -> safe_op (protected o (ov, ov, false)) op = true) ->
  run_fs s pre = Some s1 ->
  ~ List.In (VersionFile vid) (opnames o ov) ->
  vns s1 (TempFile tmp) = None ->
  expected o (VersionFile vid) = Some vtoks ->
  current_points o ctok = Some vid ->
  version_contents o vid <> None ->
  (forall f : fname, List.In f (pnames o vid) -> f <> VersionFile vid -> stable o s1 f) ->
  List.NoDup dels ->
  (forall f : fname,
  List.In f dels ->
  vns s1 f <> None /\
  f <> Current /\ f <> VersionFile vid /\ f <> TempFile tmp /\ ~ List.In f (pnames o vid)) ->
  protocol_ok o s (pre ++ trace_persist vid vtoks tmp ctok ++ List.map Unlink dels) = true.
Proof. exact publish_shape_ok. Qed.
Print Assumptions C16_publish_shape_ok.

(** known finding K3: if persist_version fails AFTER the rename of `current` (the final directory fsync), memory stays at version N while `current` names N+1; the retry re-creates v<N+1> by truncating it, and a crash inside the retry is unrecoverable *)
Theorem C16_Ex2_late_failure_retry_refuted :
  List.forallb
  (fun i : image => negb (rsummary_eqb (summary (recover_dir Ex.o1 i)) SFailed))
  (crash_images Ex2.sn16) = true /\
  protocol_ok Ex.o1 Ex2.sn16 Ex2.tr_retry = false /\
  List.nth_error Ex2.tr_retry 5 =
  Some (Create (VersionFile (BinNums.Npos (BinNums.xO BinNums.xH))) false) /\
  (exists img : image, is_crash_image Ex2.s_retry6 img /\ recover_dir Ex.o1 img = Failed).
Proof. exact Ex2.late_failure_retry_refuted. Qed.
Print Assumptions C16_Ex2_late_failure_retry_refuted.

