(** C03 - range and prefix scans are exact, ordered and consistent from both ends. *)
From LsmV Require Import Model.Tree Model.Range Model.Prefix Model.Cert
     Proofs.Newest Proofs.Lookup Proofs.Cert Proofs.Range Proofs.Prefix.
From LsmV Require Model.BlockIndex Proofs.BlockIndex.
Open Scope N_scope.

(** (1) For every structurally sound superversion, every pair of bounds (inclusive,
    exclusive, unbounded, empty, inverted), every snapshot and EVERY interleaving of
    next / next_back, the crate's scan pipeline (bound widening to internal keys, one
    source per run culled by range_overlap_indexes, per memtable; seqno filter; the
    double-ended k-way Merger; MvccStream with its DoubleEndedPeekable; tombstone filter)
    yields exactly the live pairs of the ordered-map Spec inside the bounds, each once,
    ascending from the front and descending from the back (deque semantics). *)
Theorem C03_range_exact : forall sv lo hi S ps, check_inv_sv sv = true ->
  (forall e, In e (content sv) -> seq e < MAX_SEQNO) ->
  sv_range_run sv None lo hi S ps = deque_run (spec_range (content sv) lo hi S) ps.
Proof. exact range_exact. Qed.
Print Assumptions C03_range_exact.

(** (2) the internal-key bounds select exactly the user-key bounds *)
Theorem C03_bounds_widening : forall lo hi e,
  seq e <= MAX_SEQNO -> ikey_in_range lo hi e = in_bounds lo hi (ukey e).
Proof. exact bounds_widening. Qed.
Print Assumptions C03_bounds_widening.

(** (3) prefix(p) = the scan restricted to keys starting with p, including 0xFF-terminated
    and all-0xFF prefixes; the empty prefix is the full scan *)
Theorem C03_prefix_to_range_exact : forall p k,
  Forall (fun b => b < 256) p -> Forall (fun b => b < 256) k ->
  let '(lo, hi) := prefix_to_range p in in_bounds lo hi k = is_prefix p k.
Proof. exact prefix_to_range_exact. Qed.
Print Assumptions C03_prefix_to_range_exact.

Theorem C03_prefix_empty : prefix_to_range [] = (Unb, Unb).
Proof. exact prefix_to_range_empty. Qed.
Print Assumptions C03_prefix_empty.

(** (4) first_key_value / last_key_value / len / is_empty *)
Theorem C03_first : forall sv S, check_inv_sv sv = true ->
  (forall e, In e (content sv) -> seq e < MAX_SEQNO) ->
  sv_first_key_value sv None S = ohd (spec_range (content sv) Unb Unb S).
Proof. exact first_key_value. Qed.
Print Assumptions C03_first.

Theorem C03_last : forall sv S, check_inv_sv sv = true ->
  (forall e, In e (content sv) -> seq e < MAX_SEQNO) ->
  sv_last_key_value sv None S = olast (spec_range (content sv) Unb Unb S).
Proof. exact last_key_value. Qed.
Print Assumptions C03_last.

Theorem C03_len : forall sv S, check_inv_sv sv = true ->
  (forall e, In e (content sv) -> seq e < MAX_SEQNO) ->
  sv_len sv S = length (spec_range (content sv) Unb Unb S).
Proof. exact len. Qed.
Print Assumptions C03_len.

Theorem C03_is_empty : forall sv S, check_inv_sv sv = true ->
  (forall e, In e (content sv) -> seq e < MAX_SEQNO) ->
  (sv_is_empty sv None S = true <-> spec_range (content sv) Unb Unb S = []).
Proof. exact is_empty. Qed.
Print Assumptions C03_is_empty.

(** (5) an overlay memtable shadows the tree's entries key by key *)
Theorem C03_overlay_shadows : forall sv m so lo hi S ps,
  check_inv_sv sv = true ->
  (forall e, In e (content sv) -> seq e < MAX_SEQNO) ->
  sorted_b (ments m) = true ->
  (forall e, In e (ments m) -> seq e < MAX_SEQNO) ->
  (forall x y, In x (ments m) -> In y (content sv) -> seq y < seq x) ->
  sv_range_run sv (Some (m, so)) lo hi S ps =
  deque_run (spec_list (overlay_get (ments m) (content sv) so S) lo hi
                       (keys_of (ments m ++ content sv))) ps.
Proof. exact overlay_shadows. Qed.
Print Assumptions C03_overlay_shadows.

(** non-vacuity *)
Example C03_nonvacuous :
  check_inv_sv RangeExamples.sv_ex = true /\
  (forall e, In e (content RangeExamples.sv_ex) -> seq e < MAX_SEQNO).
Proof. split; [exact RangeExamples.sv_ex_inv | exact RangeExamples.sv_ex_seqs]. Qed.

(** (10) one level down: the ranged, double-ended TABLE iterator (table/iter.rs) over a table
    stored as data blocks + block index (any cut into non-empty blocks, full / volatile /
    two-level index) yields, for every next/next_back interleaving, the deque over the table's
    entries within the bounds - the sorted list the pipeline theorem above starts from *)
Theorem C03_table_iter_over_blocks :
  forall (bt : LsmV.Model.BlockIndex.btable) (lo hi : bound) (code : list bool),
    LsmV.Proofs.BlockIndex.btable_wf bt ->
    LsmV.Proofs.BlockIndex.range_valid_for (LsmV.Model.BlockIndex.bt_index bt) lo hi ->
    LsmV.Model.BlockIndex.btable_range_pulls bt lo hi code =
    LsmV.Proofs.BlockIndex.dq_run code (table_range (LsmV.Proofs.BlockIndex.flat_of bt) lo hi).
Proof. exact LsmV.Proofs.BlockIndex.btable_range_pulls_flat. Qed.
Print Assumptions C03_table_iter_over_blocks.
