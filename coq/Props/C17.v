(** C17 - compaction filters act exactly as their verdicts say and spare old snapshots. *)
From LsmV Require Import Model.Tree Model.Stream Model.History Model.Snapshot
     Proofs.Newest Proofs.Stream Proofs.Snapshot.
Open Scope N_scope.

(** verdict mapping of compaction/filter.rs: Keep -> Keep; ReplaceValue v -> Replace Value v
    (Ind when v crosses the separation threshold); Remove -> Replace Tomb; RemoveWeak ->
    Replace WeakTomb; Destroy -> Drop *)

(** (1) After a compaction with ANY deterministic verdict function, every key reads at
    snapshots above all of its versions exactly as if the verdict had been applied to each
    of its entries ([filter_all]): unchanged for Keep, the replacement for Replace, absent
    for Replace-by-tombstone, and for Drop the entry is gone (so an older version, if the
    key was written more than once, resurfaces - on both sides). Keys without a weak
    tombstone (RemoveWeak is C13's discipline). *)
Theorem C17_verdicts_applied : forall W evict flt l out log, ssorted l = true ->
  run_stream W evict flt l = (out, log) ->
  forall k S, (forall e, In e l -> ukey e = k -> seq e < S) ->
  (forall e, In e (filter_all flt l) -> ukey e = k -> ty e <> WeakTomb) ->
  visible (newest k S out) = visible (newest k S (filter_all flt l)).
Proof. exact cstream_top_view_noweak. Qed.
Print Assumptions C17_verdicts_applied.

(** (2) the filter is never consulted on a tombstone: the stream's result only depends on
    the verdicts for non-tombstone entries *)
Theorem C17_never_shown_tombstones : forall W evict flt flt' dr l,
  (forall e, is_tomb e = false -> flt e = flt' e) ->
  cstream W evict flt dr l = cstream W evict flt' dr l.
Proof. exact cstream_filter_domain. Qed.
Print Assumptions C17_never_shown_tombstones.

(** (3) a replacement keeps the key and the sequence number of the entry it replaces (so
    recency order across containers is unaffected); nothing else is invented *)
Theorem C17_replace_keeps_seq : forall W evict flt l out log,
  run_stream W evict flt l = (out, log) -> forall h, In h out ->
  In h l \/ exists e t v, In e l /\ is_tomb e = false /\ flt e = Replace t v /\
                          h = mkE (ukey e) (seq e) t v.
Proof. exact cstream_replace_keeps_seq. Qed.
Print Assumptions C17_replace_keeps_seq.

(** (4) keys the filter was not shown are untouched: the stream is key-local *)
Theorem C17_key_local : forall W evict flt l k, ssorted l = true ->
  kents k (fst (run_stream W evict flt l)) = fst (run_stream W evict flt (kents k l)).
Proof. exact cstream_key_local. Qed.
Print Assumptions C17_key_local.

(** (5) every replaced / dropped entry is reported exactly once to the drop callback
    (what blob GC accounting needs when a replacement crosses the separation threshold) *)
Theorem C17_log_exact : forall W evict flt l out log, ssorted l = true ->
  run_stream W evict flt l = (out, log) -> forall e, In e l -> is_tomb e = false ->
  (In e out /\ ~ In e log) \/
  (count_occ entry_eq_dec log e = 1%nat /\
   forall h, In h out -> ukey h = ukey e -> seq h = seq e ->
             exists t v, flt e = Replace t v /\ h = mkE (ukey e) (seq e) t v).
Proof. exact cstream_log_exact_nontomb. Qed.
Print Assumptions C17_log_exact.

(** (6) snapshots taken before the compaction are unaffected: a compaction is a version
    upgrade (C02 machine) *)
Theorem C17_old_snapshots_spared : forall st0 ops S,
  hinv st0 -> S = vis st0 -> protocol_ok S st0 ops = true ->
  vfs (hist (hrun st0 ops)) S <> None.
Proof. exact snapshot_never_panics. Qed.
Print Assumptions C17_old_snapshots_spared.
