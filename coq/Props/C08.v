(** C08 - key-value separation is invisible to the user; no stored pointer ever fails to
    resolve to the bytes written for that key and version.
    Blob model: Model/Blob.v (frames, blob files, pointers, GC map, flush with separation,
    standard / relocating / filtering merges, drops, reopen). *)
From LsmV Require Import Model.Tree Model.Stream Model.Blob Proofs.Newest Proofs.Stream Proofs.Blob.
Open Scope N_scope.

(** under the invariant every pointer in every table resolves to a frame written for its key, of the recorded size *)
Theorem C08_blob_resolves :
  forall (d : bool) (v : bversion) (t : N * list entry) (e : entry),
  BInvG d v ->
  In t (b_tables v) ->
  In e (snd t) ->
  ty e = Ind ->
  exists (bf : blobfile) (fr : frame),
  In bf (b_blobs v) /\
  In fr (frames bf) /\
  fr_key fr = ukey e /\
  resolve v e = Some (fr_val fr) /\
  resolve_or_inline v e =
  {| ukey := ukey e; seq := seq e; ty := Value; val := fr_val fr |}.
Proof. exact blob_resolves. Qed.
Print Assumptions C08_blob_resolves.

(** a separating flush, read back through its pointers, holds exactly what the standard tree's flush holds *)
Theorem C08_blob_flush_transparent :
  forall (d : bool) (thr target W nid : N) (split : list entry -> list (N * list entry))
  (mem : list entry) (v : bversion),
  BInvG d v ->
  ids_below nid v ->
  (forall e : entry, In e mem -> ty e <> Ind) ->
  split_ok split (b_tables v) ->
  let v' := fst (blob_flush thr target W nid split mem v) in
  exists newtabs : list (N * list entry),
  b_tables v' = newtabs ++ b_tables v /\
  resolve_all v' (concat (map snd newtabs)) =
  map clear_tomb (fst (run_stream W false no_filter mem)).
Proof. exact blob_flush_transparent. Qed.
Print Assumptions C08_blob_flush_transparent.

(** ... and so does a (pass-through) merge *)
Theorem C08_blob_merge_transparent :
  forall (d : bool) (W : N) (evict : bool) (tids : list N)
  (split : list entry -> list (N * list entry)) (v : bversion),
  BInvG d v ->
  frames_pos (b_blobs v) ->
  split_ok split (b_tables v) ->
  tids_known tids v = true ->
  let v' := blob_merge_standard W evict no_filter tids split v in
  exists newtabs : list (N * list entry),
  b_tables v' = newtabs ++ rest_tables tids (b_tables v) /\
  resolve_all v' (concat (map snd newtabs)) =
  fst (run_stream W evict no_filter (resolve_all v (merge_input tids v))).
Proof. exact blob_merge_transparent. Qed.
Print Assumptions C08_blob_merge_transparent.

(** ... and a merge that rewrites blob files *)
Theorem C08_blob_merge_relocating_transparent :
  forall (d : bool) (W : N) (evict : bool) (tids rw : list N) 
  (target nid : N) (split : list entry -> list (N * list entry))
  (v : bversion),
  BInvG d v ->
  frames_pos (b_blobs v) ->
  ids_below nid v ->
  split_ok split (b_tables v) ->
  reloc_ok tids rw v ->
  tids_known tids v = true ->
  let v' := fst (blob_merge_relocating W evict no_filter tids rw target nid split v) in
  exists newtabs : list (N * list entry),
  b_tables v' = newtabs ++ rest_tables tids (b_tables v) /\
  resolve_all v' (concat (map snd newtabs)) =
  fst (run_stream W evict no_filter (resolve_all v (merge_input tids v))).
Proof. exact blob_merge_relocating_transparent. Qed.
Print Assumptions C08_blob_merge_relocating_transparent.

(** the invariant is decidable (the same facts are brute-forced on every dump of the real tree) *)
Theorem C08_check_binv_iff :
  forall v : bversion, check_binv v = true <-> BInv v.
Proof. exact check_binv_iff. Qed.
Print Assumptions C08_check_binv_iff.

(** it is preserved by flush *)
Theorem C08_blob_flush_inv :
  forall (d : bool) (thr target W nid : N) (split : list entry -> list (N * list entry))
  (mem : list entry) (v : bversion),
  BInvG d v ->
  ids_below nid v ->
  (forall e : entry, In e mem -> ty e <> Ind) ->
  split_ok split (b_tables v) ->
  BInvG d (fst (blob_flush thr target W nid split mem v)) /\
  ids_below (snd (blob_flush thr target W nid split mem v))
  (fst (blob_flush thr target W nid split mem v)) /\
  nid <= snd (blob_flush thr target W nid split mem v) /\
  (0 < thr ->
  frames_pos (b_blobs v) ->
  frames_pos (b_blobs (fst (blob_flush thr target W nid split mem v)))) /\
  b_gc (fst (blob_flush thr target W nid split mem v)) = b_gc v.
Proof. exact blob_flush_inv. Qed.
Print Assumptions C08_blob_flush_inv.

(** by pass-through merges *)
Theorem C08_blob_merge_standard_inv :
  forall (d : bool) (W : N) (evict : bool) (flt : entry -> verdict) 
  (tids : list N) (split : list entry -> list (N * list entry))
  (v : bversion),
  BInvG d v ->
  frames_pos (b_blobs v) ->
  flt_plain flt ->
  split_ok split (b_tables v) -> BInvG d (blob_merge_standard W evict flt tids split v).
Proof. exact blob_merge_standard_inv. Qed.
Print Assumptions C08_blob_merge_standard_inv.

(** by relocating merges, when the rewritten files are referenced by no table outside the compaction *)
Theorem C08_blob_merge_relocating_inv :
  forall (d : bool) (W : N) (evict : bool) (flt : entry -> verdict) 
  (tids rw : list N) (target nid : N) (split : list entry -> list (N * list entry))
  (v : bversion),
  BInvG d v ->
  frames_pos (b_blobs v) ->
  ids_below nid v ->
  flt_plain flt ->
  split_ok split (b_tables v) ->
  reloc_ok tids rw v ->
  let r := blob_merge_relocating W evict flt tids rw target nid split v in
  BInvG d (fst r) /\
  ids_below (snd r) (fst r) /\
  nid <= snd r /\ frames_pos (b_blobs (fst r)) /\ (gc_pruned v -> gc_pruned (fst r)).
Proof. exact blob_merge_relocating_inv. Qed.
Print Assumptions C08_blob_merge_relocating_inv.

(** which is exactly what the crate's selection guarantees *)
Theorem C08_pick_rewrite_ok :
  forall (sn sd an ad : N) (tids : list N) (v : bversion),
  reloc_ok tids (pick_rewrite sn sd an ad tids v) v.
Proof. exact pick_rewrite_ok. Qed.
Print Assumptions C08_pick_rewrite_ok.

(** by merges whose compaction filter writes replacement blobs *)
Theorem C08_blob_merge_filter_inv :
  forall (d : bool) (W : N) (evict : bool) (uf : entry -> uverdict) 
  (thr target nid : N) (tids : list N) (split : list entry -> list (N * list entry))
  (v : bversion),
  BInvG d v ->
  frames_pos (b_blobs v) ->
  ids_below nid v ->
  split_ok split (b_tables v) ->
  let r := blob_merge_filter W evict uf thr target nid tids split v in
  BInvG d (fst r) /\
  ids_below (snd r) (fst r) /\
  nid <= snd r /\
  (0 < thr -> frames_pos (b_blobs (fst r))) /\ (gc_pruned v -> gc_pruned (fst r)).
Proof. exact blob_merge_filter_inv. Qed.
Print Assumptions C08_blob_merge_filter_inv.

(** by drops *)
Theorem C08_blob_drop_tables_inv :
  forall (d : bool) (tids : list N) (v : bversion),
  BInvG d v -> frames_pos (b_blobs v) -> BInvG d (blob_drop_tables tids v).
Proof. exact blob_drop_tables_inv. Qed.
Print Assumptions C08_blob_drop_tables_inv.

(** and by reopen (statistics of files that left the version are discarded: fix F5) *)
Theorem C08_blob_reopen_inv :
  forall (d : bool) (v : bversion),
  BInvG d v ->
  let
  '(v', nid') := blob_reopen v in
  BInvG d v' /\
  gc_pruned v' /\
  ids_below nid' v' /\
  b_tables v' = b_tables v /\
  b_blobs v' = b_blobs v /\
  (forall bf : blobfile,
  In bf (b_blobs v) -> gc_get (b_gc v') (bf_id bf) = gc_get (b_gc v) (bf_id bf)) /\
  (frames_pos (b_blobs v) -> frames_pos (b_blobs v')).
Proof. exact blob_reopen_inv. Qed.
Print Assumptions C08_blob_reopen_inv.

(** within one session stale statistics of removed files are harmless: no file with a live pointer is ever dropped *)
Theorem C08_ghost_harmless_in_session :
  forall (d : bool) (v : bversion) (nid : N),
  BInvG d v ->
  frames_pos (b_blobs v) ->
  ids_below nid v ->
  (forall (thr target W : N) (split : list entry -> list (N * list entry))
  (mem : list entry),
  0 < thr ->
  (forall e : entry, In e mem -> ty e <> Ind) ->
  split_ok split (b_tables v) ->
  let r := blob_flush thr target W nid split mem v in
  BInvG d (fst r) /\
  frames_pos (b_blobs (fst r)) /\
  ids_below (snd r) (fst r) /\ nid <= snd r /\ keeps_live v (fst r)) /\
  (forall (W : N) (evict : bool) (flt : entry -> verdict) (tids : list N)
  (split : list entry -> list (N * list entry)),
  flt_plain flt ->
  split_ok split (b_tables v) ->
  let v' := blob_merge_standard W evict flt tids split v in
  BInvG d v' /\ frames_pos (b_blobs v') /\ ids_below nid v' /\ keeps_live v v') /\
  (forall (W : N) (evict : bool) (flt : entry -> verdict) (tids rw : list N)
  (target : N) (split : list entry -> list (N * list entry)),
  flt_plain flt ->
  split_ok split (b_tables v) ->
  reloc_ok tids rw v ->
  let r := blob_merge_relocating W evict flt tids rw target nid split v in
  BInvG d (fst r) /\
  frames_pos (b_blobs (fst r)) /\
  ids_below (snd r) (fst r) /\ nid <= snd r /\ keeps_live v (fst r)) /\
  (forall tids : list N,
  let v' := blob_drop_tables tids v in
  BInvG d v' /\ frames_pos (b_blobs v') /\ ids_below nid v' /\ keeps_live v v').
Proof. exact ghost_harmless_in_session. Qed.
Print Assumptions C08_ghost_harmless_in_session.

(** finding F5 (fixed): the 3.1.9 recovery kept those statistics; a reused blob id then got a live file deleted *)
Theorem C08_reopen_ghost_refuted :
  exists v : bversion,
  BInv v /\
  ~ gc_pruned v /\
  snd (blob_reopen_old v) = 0 /\
  (let
  '(v0, nid) := blob_reopen_old v in
  let v1 :=
  fst
  (blob_flush 4 1000 0 nid (BlobEx.one 1) [BlobEx.V BlobEx.kanother 1 BlobEx.big]
  v0) in
  let v2 := blob_merge_standard 1000 true no_filter [1] (BlobEx.one 2) v1 in
  ~ BInvG false v1 /\
  stale_bytes (b_gc v1) = 8 /\
  garbage_of v1 0 = gzero /\
  b_blobs v2 = [] /\ map (resolve v2) (concat (map snd (b_tables v2))) = [None]).
Proof. exact reopen_ghost_refuted. Qed.
Print Assumptions C08_reopen_ghost_refuted.

(** relocating a file that an outside table references would leave a dangling pointer (the eligibility check is necessary) *)
Theorem C08_reloc_ineligible_refuted :
  exists (tids rw : list N) (v : bversion),
  BInv v /\
  frames_pos (b_blobs v) /\
  ~ reloc_ok tids rw v /\
  (let v' :=
  fst (blob_merge_relocating 1000 true no_filter tids rw 1000 1 (BlobEx.one 4) v) in
  ~ BInvG false v' /\
  map (fun t : N * list entry => map (resolve v') (snd t)) (b_tables v') =
  [[Some [98]]; [None]]).
Proof. exact reloc_ineligible_refuted. Qed.
Print Assumptions C08_reloc_ineligible_refuted.

(** known limitation: with separation_threshold 0 an empty value's frame is not counted by is_dead *)
Theorem C08_is_dead_zero_len_refuted :
  BInv z3 /\
  ~ frames_pos (b_blobs z3) /\
  (exists bf : blobfile,
  In bf (b_blobs z3) /\
  is_dead (b_gc z3) bf = true /\ (exists p : ptr, In p (vptrs z3) /\ pf p = bf_id bf)) /\
  (let v' := blob_merge_standard 1000 true no_filter [2] (BlobEx.one 3) z3 in
  ~ BInvG false v' /\
  map (resolve v') (concat (map snd (b_tables v'))) = [None; Some [4]]).
Proof. exact is_dead_zero_len_refuted. Qed.
Print Assumptions C08_is_dead_zero_len_refuted.

(** known limitation: the relocation scanner's order assumption fails for ingested blobs (seqno 0 frames) *)
Theorem C08_relocate_scan_refuted :
  BInv scan_v /\
  reloc_ok [0] [0; 1] scan_v /\
  relocate_scan 1000 [0; 1] (scan_of (b_blobs scan_v) [0; 1])
  (bw_new 2) (concat (map snd (b_tables scan_v))) = None /\
  fst
  (relocate 1000 (b_blobs scan_v) [0; 1] (bw_new 2) (concat (map snd (b_tables scan_v)))) =
  [mk_ind BlobEx.ka 10 2 0 4 4; mk_ind BlobEx.ka 5 2 43 4 4].
Proof. exact relocate_scan_refuted. Qed.
Print Assumptions C08_relocate_scan_refuted.

