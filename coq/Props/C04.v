(** C04 - flushed data survives reopen and reopen restores exactly the flushed state. *)
From LsmV Require Import Model.Tree Model.Cert Proofs.Newest Proofs.Lookup Proofs.Cert.
From LsmV Require Model.VersionCodec Proofs.VersionCodec Model.Ints Proofs.Ints.
Module VC := LsmV.Model.VersionCodec.
Module VCP := LsmV.Proofs.VersionCodec.
Open Scope N_scope.

(** (1) the version file written at every flush/compaction decodes to exactly the
    structure that was written: level/run/table layout, table ids, checksums, global
    seqnos, blob files, GC statistics - for every version whose counts fit their fields *)
Theorem C04_version_file_roundtrip : forall v,
  VCP.version_encodable v -> VC.decode_version (VC.encode_version v) = Some v.
Proof. exact VCP.version_codec_roundtrip. Qed.
Print Assumptions C04_version_file_roundtrip.

Theorem C04_current_roundtrip : forall id ck,
  id < 2 ^ 64 -> VC.decode_current (VC.encode_current id ck) = VC.Ok id.
Proof. exact VCP.current_roundtrip. Qed.
Print Assumptions C04_current_roundtrip.

(** (2) the guard is sharp: finding F4 (fixed in /repo by rejecting such a version) *)
Theorem C04_many_runs_refuted : exists v,
  Exists (fun lv => length lv = 256%nat) (VC.vf_levels v) /\
  N.of_nat (length (VC.vf_levels v)) < 2 ^ 8 /\
  Forall (fun lv => Forall VCP.run_ok lv) (VC.vf_levels v) /\
  VCP.blobs_ok (VC.vf_blobs v) /\ VCP.gcs_ok (VC.vf_gc v) /\
  VC.decode_version (VC.encode_version v) <> Some v.
Proof. exact VCP.version_many_runs_refuted. Qed.
Print Assumptions C04_many_runs_refuted.

(** (3) a reopened tree holds the same tables in the same layout (checked on every real
    reopen by comparing full dumps); then every read is the same function of that content:
    two structurally sound superversions with equal containers read identically *)
Theorem C04_same_content_same_reads : forall flt sv sv',
  check_inv_sv sv = true -> check_inv_sv sv' = true ->
  filter_sound flt sv -> filter_sound flt sv' ->
  content sv = content sv' ->
  forall k S, sv_get flt sv k S = sv_get flt sv' k S.
Proof.
  intros flt sv sv' I I' F F' E k S.
  rewrite (sv_get_sound flt sv I F k S), (sv_get_sound flt sv' I' F' k S). now rewrite E.
Qed.
Print Assumptions C04_same_content_same_reads.
