(** C19 - FIFO compaction drops only the oldest tables and leaves the rest readable. *)
From LsmV Require Import Model.Tree Model.Version Proofs.Newest Proofs.Lookup Proofs.Version.
From LsmV Require Model.Fifo Proofs.Fifo.
Module F := LsmV.Model.Fifo.
Module FP := LsmV.Proofs.Fifo.
Open Scope N_scope.

(** (a) nothing is removed while the tree is within its size limit and TTL *)
Theorem C19_nothing_within_limits : forall limit ttl now blob_total tables,
  F.sum_by F.f_size tables + blob_total <= limit ->
  (forall t, In t tables -> F.f_expired (F.ttl_cutoff ttl now) t = false) ->
  F.fifo_choose_full limit ttl now blob_total tables = [].
Proof. exact FP.fifo_nothing_within_limits. Qed.
Print Assumptions C19_nothing_within_limits.

(** (b) every table older than the TTL is removed *)
Theorem C19_expired_dropped : forall limit ttl now blob_total tables t,
  In t tables -> F.f_expired (F.ttl_cutoff ttl now) t = true ->
  In (F.f_id t) (F.fifo_choose_full limit ttl now blob_total tables).
Proof. exact FP.fifo_expired_dropped. Qed.
Print Assumptions C19_expired_dropped.

(** (c) oldest first: no removed table is newer than a retained one *)
Theorem C19_oldest_first : forall limit ttl now blob_total tables r t,
  In r (F.fifo_expired_tables ttl now tables ++ F.fifo_size_selected limit ttl now blob_total tables) ->
  In t tables -> ~ In (F.f_id t) (F.fifo_choose_full limit ttl now blob_total tables) ->
  F.f_created r <= F.f_created t.
Proof. exact FP.fifo_oldest_first. Qed.
Print Assumptions C19_oldest_first.

(** (d) what is retained fits the limit, and the selection is minimal *)
Theorem C19_retained_within_limit : forall limit ttl now tables,
  F.sum_by F.f_credit
    (filter (fun t => negb (existsb (N.eqb (F.f_id t)) (F.fifo_choose limit ttl now tables))) tables)
  <= limit.
Proof. exact FP.fifo_choose_retained_within_limit. Qed.
Print Assumptions C19_retained_within_limit.

Theorem C19_minimal : forall limit ttl now tables pre last,
  F.fifo_size_selected limit ttl now (F.sum_by F.f_blob tables) tables = pre ++ [last] ->
  limit < F.f_credit last + F.sum_by F.f_credit (FP.fifo_kept limit ttl now (F.sum_by F.f_blob tables) tables).
Proof. exact FP.fifo_choose_minimal. Qed.
Print Assumptions C19_minimal.

(** (e) the choice names only existing tables, each once *)
Theorem C19_subset : forall limit ttl now blob_total tables id,
  In id (F.fifo_choose_full limit ttl now blob_total tables) -> In id (map F.f_id tables).
Proof. exact FP.fifo_choose_subset. Qed.
Print Assumptions C19_subset.

Theorem C19_nodup : forall limit ttl now blob_total tables,
  NoDup (map F.f_id tables) -> NoDup (F.fifo_choose_full limit ttl now blob_total tables).
Proof. exact FP.fifo_choose_NoDup. Qed.
Print Assumptions C19_nodup.

(** (f) the drop itself is [with_dropped]: the remaining version stays structurally sound,
    so (C01) every key of a retained table keeps reading its value *)
Theorem C19_retained_version_sound : forall v ids,
  version_inv v = true -> version_inv (with_dropped v ids) = true.
Proof. exact with_dropped_inv. Qed.
Print Assumptions C19_retained_version_sound.
