(** C20 - obsolete files are reclaimed and nothing live is ever deleted. *)
From LsmV Require Import Model.Fs Proofs.Fs.
Open Scope N_scope.

(** after recovery cleanup the directory holds exactly `current`, the current version file and the files it lists *)
Theorem C20_reclaim_exact :
  forall (o : oracle) (img : image) (vid : BinNums.N) (ts bs : list BinNums.N)
  (del : list fname),
  recover_dir o img = Recovered vid ts bs del ->
  forall f : fname,
  List.In f (inames img) ->
  img_file (cleanup_image img del) f <> None ->
  f = Current \/
  f = VersionFile vid \/
  (exists id : BinNums.N, f = TableFile id /\ List.In id ts) \/
  (exists id : BinNums.N, f = BlobFile id /\ List.In id bs) \/
  (exists k : BinNums.N, f = TempFile k) \/ (exists k : BinNums.N, f = Other k).
Proof. exact reclaim_exact. Qed.
Print Assumptions C20_reclaim_exact.

(** ... and every listed file is kept *)
Theorem C20_reclaim_keeps :
  forall (o : oracle) (img : image) (vid : BinNums.N) (ts bs : list BinNums.N)
  (del : list fname),
  recover_dir o img = Recovered vid ts bs del ->
  forall f : fname,
  f = Current \/
  f = VersionFile vid \/
  (exists id : BinNums.N, f = TableFile id /\ List.In id ts) \/
  (exists id : BinNums.N, f = BlobFile id /\ List.In id bs) ->
  img_file (cleanup_image img del) f = img_file img f /\ img_file img f <> None.
Proof. exact reclaim_keeps. Qed.
Print Assumptions C20_reclaim_keeps.

(** no file named by the durably current version is ever unlinked or truncated by a protocol-conforming trace, at any prefix *)
Theorem C20_fail_atomic :
  forall (o : oracle) (s : fsstate) (tr : list fsop) (vb : BinNums.N),
  disk_ok o s (Some vb) ->
  protocol_ok o s tr = true ->
  exists (sf : fsstate) (va : BinNums.N),
  run_fs s tr = Some sf /\
  disk_ok o sf (Some va) /\
  (forall (n : nat) (sn : fsstate),
  run_fs s (List.firstn n tr) = Some sn ->
  (summary (recover_result_of o sn) = summary (recover_result_of o s) \/
  summary (recover_result_of o sn) = summary (recover_result_of o sf)) /\
  (published o sn vb \/ published o sn va)).
Proof. exact fail_atomic. Qed.
Print Assumptions C20_fail_atomic.

(** version GC only unlinks version files that are no longer current *)
Theorem C20_trace_maintenance_protocol_ok :
  forall (o : oracle) (s : fsstate) (v0 : BinNums.N) (old_vids : list BinNums.N),
  disk_ok o s (Some v0) ->
  List.NoDup old_vids ->
  (forall a : BinNums.N, List.In a old_vids -> vns s (VersionFile a) <> None /\ a <> v0) ->
  protocol_ok o s (trace_maintenance old_vids) = true.
Proof. exact trace_maintenance_protocol_ok. Qed.
Print Assumptions C20_trace_maintenance_protocol_ok.

