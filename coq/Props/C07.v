(** C07 - every published tree version is structurally sound and matches its manifest. *)
From LsmV Require Import Model.Tree Model.Version Proofs.Newest Proofs.Lookup Proofs.Version.
From LsmV Require Model.VersionCodec Proofs.VersionCodec.
Module VC := LsmV.Model.VersionCodec.
Module VCP := LsmV.Proofs.VersionCodec.
From Coq Require Import Permutation.
Open Scope N_scope.

(** (1) What the decidable certificate [check_inv_sv] (evaluated on every superversion the
    real tree publishes, in every check) means: runs non-empty with tables ascending and
    pairwise disjoint; recorded key range / seqno range / counts equal to the contents;
    unique table ids; and wherever two containers share a key, the one consulted first
    holds only newer sequence numbers for it. *)
Theorem C07_certificate_meaning : forall sv, check_inv_sv sv = true ->
  sorted_b (ments (active sv)) = true /\
  (forall m, In m (sealed sv) -> sorted_b (ments m) = true) /\
  length (levels (ver sv)) = 7%nat /\
  (forall r, In r (all_runs (ver sv)) -> run_ok r = true) /\
  nodup_N_b (map tid (all_tables (ver sv))) = true /\
  recency_b (containers sv) = true.
Proof. exact check_inv_sv_inv. Qed.
Print Assumptions C07_certificate_meaning.

Theorem C07_recency_meaning : forall cs, recency_b cs = true <->
  forall i j c c', (i < j)%nat -> nth_error cs i = Some c -> nth_error cs j = Some c' ->
    forall e e', In e c -> In e' c' -> ukey e = ukey e' -> seq e' < seq e.
Proof. exact recency_b_spec. Qed.
Print Assumptions C07_recency_meaning.

(** all versions of one key inside one table of a run *)
Theorem C07_one_table_per_key : forall r k, run_ok r = true ->
  match run_get_for_key r k with
  | Some t => exists r1 r2, r = r1 ++ t :: r2 /\
       forall t', In t' (r1 ++ r2) -> forall e, In e (ents t') -> ukey e <> k
  | None => forall t', In t' r -> forall e, In e (ents t') -> ukey e <> k
  end.
Proof. exact run_get_for_key_spec. Qed.
Print Assumptions C07_one_table_per_key.

Theorem C07_table_bounds : forall t, table_ok t = true ->
  (forall e, In e (ents t) -> key_le (kmin t) (ukey e) /\ key_le (ukey e) (kmax t)) /\
  key_le (kmin t) (kmax t).
Proof. exact table_bounds. Qed.
Print Assumptions C07_table_bounds.

(** (2) The version transformations preserve the version part of the invariant, for ALL
    inputs: optimize_runs re-packs any runs into legal runs without losing a table and
    without reordering two tables that share a key ... *)
Theorem C07_optimize_runs_perm : forall rs, Permutation (concat (optimize_runs rs)) (concat rs).
Proof. exact optimize_runs_perm. Qed.
Print Assumptions C07_optimize_runs_perm.

Theorem C07_optimize_runs_run_ok : forall rs,
  forallb run_ok rs = true -> forallb run_ok (optimize_runs rs) = true.
Proof. exact optimize_runs_run_ok_gen. Qed.
Print Assumptions C07_optimize_runs_run_ok.

Theorem C07_optimize_runs_recency : forall rs,
  forallb table_ok (concat rs) = true ->
  recency_b (map ents (concat rs)) = true ->
  recency_b (map ents (concat (optimize_runs rs))) = true.
Proof. exact optimize_runs_recency. Qed.
Print Assumptions C07_optimize_runs_recency.

(** ... and flush / drop / merge / move keep the invariant exactly under the decidable
    placement conditions (which the correspondence run evaluates on every real step) *)
Theorem C07_with_new_l0_run : forall v tables, version_inv v = true ->
  l0_choice_ok v tables = true -> version_inv (with_new_l0_run v tables) = true.
Proof. exact with_new_l0_run_inv. Qed.
Print Assumptions C07_with_new_l0_run.

Theorem C07_with_dropped : forall v ids, version_inv v = true -> version_inv (with_dropped v ids) = true.
Proof. exact with_dropped_inv. Qed.
Print Assumptions C07_with_dropped.

Theorem C07_with_merge : forall v old_ids new_tables dest, version_inv v = true ->
  merge_choice_ok v old_ids new_tables dest = true ->
  version_inv (with_merge v old_ids new_tables dest) = true.
Proof. exact with_merge_inv. Qed.
Print Assumptions C07_with_merge.

Theorem C07_with_moved : forall v ids dest, version_inv v = true ->
  move_choice_ok v ids dest = true -> version_inv (with_moved v ids dest) = true.
Proof. exact with_moved_inv. Qed.
Print Assumptions C07_with_moved.

(** the pre-fix with_moved (finding F1) really was unsound: kept as a refutation *)
Theorem C07_with_moved_old_refuted :
  exists v ids dest k S, version_inv v = true /\ move_choice_ok v ids dest = true /\
     version_inv (with_moved_old v ids dest) = false /\
     runs_get (fun _ _ => true) (all_runs v) k S <> None /\
     runs_get (fun _ _ => true) (all_runs (with_moved_old v ids dest)) k S = None /\
     runs_get (fun _ _ => true) (all_runs (with_moved v ids dest)) k S
       = runs_get (fun _ _ => true) (all_runs v) k S.
Proof.
  exists vd, [1; 2], 3%nat, [98], 100. vm_compute. repeat split; try reflexivity; discriminate.
Qed.
Print Assumptions C07_with_moved_old_refuted.

(** (3) the version file decodes to the same structure (byte-exact codec), for every
    version whose counts fit their on-disk fields ... *)
Theorem C07_version_file_roundtrip : forall v,
  VCP.version_encodable v -> VC.decode_version (VC.encode_version v) = Some v.
Proof. exact VCP.version_codec_roundtrip. Qed.
Print Assumptions C07_version_file_roundtrip.

(** ... and NOT beyond: a level with 256 runs is written with run count 0 (`as u8`) *)
Theorem C07_many_runs_refuted : exists v,
  Exists (fun lv => length lv = 256%nat) (VC.vf_levels v) /\
  N.of_nat (length (VC.vf_levels v)) < 2 ^ 8 /\
  Forall (fun lv => Forall VCP.run_ok lv) (VC.vf_levels v) /\
  VCP.blobs_ok (VC.vf_blobs v) /\ VCP.gcs_ok (VC.vf_gc v) /\
  VC.decode_version (VC.encode_version v) <> Some v.
Proof. exact VCP.version_many_runs_refuted. Qed.
Print Assumptions C07_many_runs_refuted.

Example C07_nonvacuous : check_inv_sv LookupExample.sv0 = true.
Proof. exact LookupExample.sv0_inv. Qed.
