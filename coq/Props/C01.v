(** C01 - point reads return the most recent write, whatever maintenance has happened.
    Only statements + [exact] + [Print Assumptions]; proofs live in Proofs/. *)
From LsmV Require Import Model.Tree Model.Stream Model.Cert Proofs.Newest Proofs.Lookup Proofs.Cert Proofs.Stream.
From LsmV Require Model.Leveled Proofs.Leveled.
Open Scope N_scope.

(** (1) Certificate soundness: on ANY superversion (in particular every one dumped from the
    real tree) that passes the decidable structural invariant and whose content agrees
    with the write history at snapshot S, the real lookup order (active -> sealed newest
    first -> levels/runs, first hit wins, key-range + seqno guard + filter) returns for
    EVERY key what the ordered-map Spec returns. *)
Theorem C01_certified_point_reads :
  forall flt sv H S,
    check_inv_sv sv = true -> filter_sound flt sv ->
    content_agrees (content sv) H S = true ->
    forall k, sv_get flt sv k S = spec_get H k S.
Proof.
  intros flt sv H S I F A k.
  rewrite (sv_get_sound flt sv I F k S). exact (content_agrees_sound _ _ _ A k).
Qed.
Print Assumptions C01_certified_point_reads.

(** (2) The lookup is exactly "newest visible version over all containers". *)
Theorem C01_lookup_is_newest :
  forall flt sv, check_inv_sv sv = true -> filter_sound flt sv ->
  forall k S, sv_get_raw flt sv k S = newest k S (content sv).
Proof. exact sv_get_raw_sound. Qed.
Print Assumptions C01_lookup_is_newest.

(** (3) Flush and compaction rewrite data through the compaction stream; for every key
    driven by inserts and (strong) deletes - no weak tombstone among its versions - and
    every snapshot above all of the key's versions the stream's output reads exactly
    like its input (deleted keys stay deleted, overwritten values never resurface),
    for every watermark and with or without last-level tombstone eviction.
    (Weak deletes are property C13.) *)
Theorem C01_stream_preserves_newest :
  forall W evict l out log, ssorted l = true ->
  run_stream W evict no_filter l = (out, log) ->
  forall k S, (forall e, In e l -> ukey e = k -> seq e < S) ->
  (forall e, In e l -> ukey e = k -> ty e <> WeakTomb) ->
  visible (newest k S out) = visible (newest k S l).
Proof. exact cstream_top_view_nofilter. Qed.
Print Assumptions C01_stream_preserves_newest.

(** non-vacuity: a concrete non-trivial superversion satisfies the hypotheses *)
Example C01_nonvacuous :
  check_inv_sv LookupExample.sv0 = true /\ filter_sound LookupExample.flt0 LookupExample.sv0.
Proof. split; [exact LookupExample.sv0_inv | exact LookupExample.flt0_sound]. Qed.

(** (4) UNBOUNDED: the model's own tree state machine (Model/Machine.v: writes, rotation,
    flush through the compaction stream with table cutting, compaction of any choice
    satisfying the decidable placement / contiguity / eviction conditions, moves, history
    GC), from the empty tree, for EVERY operation list: every reachable latest superversion
    passes the structural invariant ... *)
From LsmV Require Import Model.Machine Proofs.Machine Model.Snapshot Model.History Proofs.Snapshot.
Theorem C01_machine_invariant : forall ops, mops_ok minit ops = true ->
  let st := mrun minit ops in
  hinv (hs st) /\ (exists sv, latest (hist (hs st)) = Some sv) /\
  (forall sv, latest (hist (hs st)) = Some sv ->
     check_inv_sv sv = true /\ uniq (content sv) /\
     (forall t, In t (all_tables (ver sv)) -> tid t < next_tid st) /\
     (forall m, In m (all_mts sv) -> mid m < next_mid st) /\
     (forall m, In m (sealed sv) -> mid m <> mid (active sv)) /\
     (forall e, In e (content sv) -> In e (wlog st) /\ seq e < ctr (hs st))) /\
  (forall e, In e (wlog st) -> seq e < ctr (hs st)) /\
  NoDup (map seq (wlog st)) /\ uniq (wlog st) /\ ctr (hs st) <= SEQ_LIMIT.
Proof. exact machine_inv. Qed.
Print Assumptions C01_machine_invariant.

(** ... and every point read at the newest snapshot returns exactly what the ordered map
    replaying the same writes returns (histories of inserts and strong deletes) *)
Theorem C01_machine_point_reads : forall ops, mops_ok minit ops = true ->
  (forall k t v, In (MWrite k t v) ops -> t <> WeakTomb) ->
  let st := mrun minit ops in forall sv, latest (hist (hs st)) = Some sv ->
  forall flt, filter_sound flt sv ->
  forall k, sv_get flt sv k SEQ_MAX = spec_get (wlog st) k SEQ_MAX.
Proof. exact machine_point_reads. Qed.
Print Assumptions C01_machine_point_reads.

(** the major strategy's choice (all tables into the last level) always satisfies the
    side conditions *)
Theorem C01_major_choice_ok : forall st l W cuts, minv st -> latest (hist (hs st)) = Some l ->
  all_tables (ver l) <> [] -> seq_avail st = true ->
  let ids := map tid (all_tables (ver l)) in
  cuts_ok cuts (compact_out W last_level (ver l) ids) = true ->
  mop_ok st (MCompact ids last_level W cuts) = true.
Proof. exact major_choice_ok. Qed.
Print Assumptions C01_major_choice_ok.

Example C01_machine_nonvacuous : mops_ok minit MachineExample.ops = true.
Proof. vm_compute. reflexivity. Qed.

(** (7) The default strategy. [leveled_choose] transliterates compaction/leveled/mod.rs
    (choose + pick_minimal_compaction) with the floating-point level scores replaced by oracle
    arguments (EVERY level may win). Whatever the scores, the hidden set, the file sizes and the
    parameters: a Move chosen by Leveled satisfies the obligation [mop_ok] the machine theorems
    assume; a Merge does whenever the levels involved have at most one run ([leveled_pre]) ... *)
Module LV := LsmV.Model.Leveled.
Module LVP := LsmV.Proofs.Leveled.
Theorem C01_leveled_move_ok :
  forall (st : mstate) (l : superversion) (lvl : nat) (need_new_l1 : bool) (size : table -> N)
         (l0_threshold target_size : N) (hidden ids : list N) (dest : nat),
    minv st -> latest (hist (hs st)) = Some l -> seq_avail st = true ->
    LV.leveled_choose lvl need_new_l1 size l0_threshold target_size (ver l) hidden = LV.LMove ids dest ->
    mop_ok st (MMove ids dest) = true.
Proof. exact LVP.leveled_move_mop_ok. Qed.
Print Assumptions C01_leveled_move_ok.

Theorem C01_leveled_merge_ok :
  forall (st : mstate) (l : superversion) (W : N) (cuts : list nat) (lvl : nat) (need_new_l1 : bool)
         (size : table -> N) (l0_threshold target_size : N) (hidden ids : list N) (dest : nat),
    minv st -> latest (hist (hs st)) = Some l -> seq_avail st = true ->
    LVP.leveled_pre lvl need_new_l1 (ver l) ->
    LV.leveled_choose lvl need_new_l1 size l0_threshold target_size (ver l) hidden = LV.LMerge ids dest ->
    cuts_ok cuts (compact_out W dest (ver l) ids) = true ->
    mop_ok st (MCompact ids dest W cuts) = true.
Proof. exact LVP.leveled_merge_mop_ok. Qed.
Print Assumptions C01_leveled_merge_ok.

(** ... and a tree that is only ever compacted by Leveled (any scores, any interleaving with
    writes, rotations, flushes and version GC) keeps that shape by itself, so every one of its
    operations is legal and every key reads its last write: no outside assumption is left. *)
Theorem C01_leveled_tree_ok : forall ops : list mop,
  LVP.lev_ops_ok minit ops ->
  mops_ok minit ops = true /\ LVP.st_single (mrun minit ops).
Proof. exact LVP.leveled_tree_ok. Qed.
Print Assumptions C01_leveled_tree_ok.

Theorem C01_leveled_tree_reads : forall ops : list mop,
  LVP.lev_ops_ok minit ops ->
  (forall (k : key) (t : vtype) (v : list N), In (MWrite k t v) ops -> t <> WeakTomb) ->
  forall k : key,
    mget (fun (_ : N) (_ : key) => true) (mrun minit ops) k =
    spec_get (wlog (mrun minit ops)) k SEQ_MAX.
Proof. exact LVP.leveled_tree_reads. Qed.
Print Assumptions C01_leveled_tree_reads.

(** sharpness: with two overlapping runs in L1 (only MoveDown / PullDown, which the crate hides
    from its documentation, can build that) Leveled's merge places its output beneath newer data:
    [get a] returns the value written at seqno 3 instead of the one written at seqno 6 *)
Theorem C01_leveled_multi_run_refuted :
  let st := mrun minit LVP.LeveledExamples.ops_r2 in
  let v := LVP.LeveledExamples.ver_of st in
  mops_ok minit LVP.LeveledExamples.ops_r2 = true /\
  LV.leveled_choose 1 false LVP.LeveledExamples.sz1 4 1000 v [] = LV.LMerge [2; 0] 2 /\
  ~ LVP.leveled_pre 1 false v /\
  mop_ok st (MCompact [2; 0] 2 0 []) = false /\
  LVP.LeveledExamples.get st LVP.LeveledExamples.ka =
    Some {| ukey := LVP.LeveledExamples.ka; seq := 6; ty := Value; val := [2] |} /\
  LVP.LeveledExamples.get (mstep st (MCompact [2; 0] 2 0 [])) LVP.LeveledExamples.ka =
    Some {| ukey := LVP.LeveledExamples.ka; seq := 3; ty := Value; val := [1] |}.
Proof.
  destruct LVP.LeveledExamples.leveled_merge_multi_run_refuted as (A & _ & _ & B & C & _ & D & E & _ & F).
  repeat split; assumption.
Qed.
Print Assumptions C01_leveled_multi_run_refuted.
