(** C11 - physical tuning and cache sharing never change logical results. *)
From LsmV Require Import Model.Tree Model.Range Model.Cache
     Proofs.Newest Proofs.Lookup Proofs.Range Proofs.Config Proofs.Cache.
From Coq Require Import Permutation.
Open Scope N_scope.

(** (1) Every read is a function of the logical content (the multiset of entries) of a
    structurally sound superversion - not of how entries are packed into blocks, tables or
    runs, which filter is used (any sound filter, including none), or pinning: two trees
    given the same history hold the same entries and therefore answer identically. *)
Theorem C11_point_reads_config_independent : forall flt flt' sv sv',
  check_inv_sv sv = true -> check_inv_sv sv' = true ->
  filter_sound flt sv -> filter_sound flt' sv' ->
  Permutation (content sv) (content sv') ->
  forall k S, sv_get flt sv k S = sv_get flt' sv' k S.
Proof. exact config_independent_get. Qed.
Print Assumptions C11_point_reads_config_independent.

Theorem C11_scans_config_independent : forall sv sv' lo hi S ps,
  check_inv_sv sv = true -> check_inv_sv sv' = true ->
  (forall e, In e (content sv) -> seq e < MAX_SEQNO) ->
  Permutation (content sv) (content sv') ->
  sv_range_run sv None lo hi S ps = sv_range_run sv' None lo hi S ps.
Proof. exact config_independent_range. Qed.
Print Assumptions C11_scans_config_independent.

(** (2) the block cache / descriptor table: keys are (kind tag, tree id, file id, offset) *)
Theorem C11_cache_key_injective : forall t1 r1 f1 o1 t2 r2 f2 o2,
  mkCK t1 r1 f1 o1 = mkCK t2 r2 f2 o2 <-> t1 = t2 /\ r1 = r2 /\ f1 = f2 /\ o1 = o2.
Proof. exact cache_key_injective. Qed.
Print Assumptions C11_cache_key_injective.

(** any sequence of block loads through ANY cache that only returns what was inserted under
    the key - any capacity (zero = always empty), any eviction at any time - returns exactly
    what the files hold *)
Theorem C11_cache_transparent : forall ks c d keep,
  coherent c d -> loads c d keep ks = map d ks.
Proof. exact loads_independent. Qed.
Print Assumptions C11_cache_transparent.

(** sharing one cache with other trees (whose table ids coincide): a tree reads its own
    blocks whatever the others inserted *)
Theorem C11_shared_cache_isolated : forall t1 d1 d2 c keep ks,
  coherent c (union_disk t1 d1 d2) ->
  (forall k, In k ks -> ck_tree k = t1) ->
  loads c (union_disk t1 d1 d2) keep ks = map d1 ks.
Proof. exact shared_cache_isolated. Qed.
Print Assumptions C11_shared_cache_isolated.

Example C11_nonvacuous : check_inv_sv LookupExample.sv0 = true /\ coherent [] (fun _ => []).
Proof. split; [exact LookupExample.sv0_inv | apply coherent_nil]. Qed.
