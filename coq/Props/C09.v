(** C09 - blob garbage statistics are exact and only unreferenced blob files are dropped. *)
From LsmV Require Import Model.Tree Model.Stream Model.Blob Proofs.Newest Proofs.Stream Proofs.Blob.
Open Scope N_scope.

(** BInv's clause (c): for every blob file of the version the recorded garbage equals, by brute force, its frames that no table entry points to; decidable *)
Theorem C09_check_binv_iff :
  forall v : bversion, check_binv v = true <-> BInv v.
Proof. exact check_binv_iff. Qed.
Print Assumptions C09_check_binv_iff.

(** stale_blob_bytes is the on-disk sum of exactly those frames *)
Theorem C09_stale_bytes_exact :
  forall v : bversion,
  BInv v ->
  gc_pruned v ->
  stale_bytes (b_gc v) =
  sumN (map (fun bf : blobfile => g_disk (garbage_of v (bf_id bf))) (b_blobs v)).
Proof. exact stale_bytes_exact. Qed.
Print Assumptions C09_stale_bytes_exact.

(** a file is dead iff nothing points into it *)
Theorem C09_is_dead_iff :
  forall (d : bool) (v : bversion) (bf : blobfile),
  BInvG d v ->
  frames_pos (b_blobs v) ->
  In bf (b_blobs v) ->
  is_dead (b_gc v) bf = true <-> (forall p : ptr, In p (vptrs v) -> pf p <> bf_id bf).
Proof. exact is_dead_iff. Qed.
Print Assumptions C09_is_dead_iff.

(** a file stays through a merge iff some pointer still pointed into it *)
Theorem C09_blob_merge_standard_keeps_iff :
  forall (d : bool) (W : N) (evict : bool) (flt : entry -> verdict) 
  (tids : list N) (split : list entry -> list (N * list entry))
  (v : bversion) (bf : blobfile),
  BInvG d v ->
  frames_pos (b_blobs v) ->
  tids_known tids v = true ->
  In bf (b_blobs v) ->
  In bf (b_blobs (blob_merge_standard W evict flt tids split v)) <->
  (exists p : ptr, In p (vptrs v) /\ pf p = bf_id bf).
Proof. exact blob_merge_standard_keeps_iff. Qed.
Print Assumptions C09_blob_merge_standard_keeps_iff.

(** a file stays through a drop iff a remaining table points into it *)
Theorem C09_blob_drop_tables_keeps_iff :
  forall (d : bool) (tids : list N) (v : bversion) (bf : blobfile),
  BInvG d v ->
  frames_pos (b_blobs v) ->
  tids_known tids v = true ->
  sel_tables tids (b_tables v) <> [] ->
  In bf (b_blobs v) ->
  In bf (b_blobs (blob_drop_tables tids v)) <->
  (exists p : ptr, In p (vptrs (blob_drop_tables tids v)) /\ pf p = bf_id bf).
Proof. exact blob_drop_tables_keeps_iff. Qed.
Print Assumptions C09_blob_drop_tables_keeps_iff.

(** a dead file is gone after the next merge *)
Theorem C09_dead_removed_by_merge :
  forall (W : N) (evict : bool) (flt : entry -> verdict) (tids : list N)
  (split : list entry -> list (N * list entry)) (v : bversion)
  (bf : blobfile),
  tids_known tids v = true ->
  In bf (b_blobs v) ->
  is_dead (b_gc v) bf = true ->
  ~ In (bf_id bf) (map bf_id (b_blobs (blob_merge_standard W evict flt tids split v))).
Proof. exact dead_removed_by_merge. Qed.
Print Assumptions C09_dead_removed_by_merge.

(** ... or the next effective drop *)
Theorem C09_dead_removed_by_drop :
  forall (d : bool) (tids : list N) (v : bversion) (bf : blobfile),
  BInvG d v ->
  frames_pos (b_blobs v) ->
  tids_known tids v = true ->
  sel_tables tids (b_tables v) <> [] ->
  In bf (b_blobs v) ->
  is_dead (b_gc v) bf = true -> ~ In bf (b_blobs (blob_drop_tables tids v)).
Proof. exact dead_removed_by_drop. Qed.
Print Assumptions C09_dead_removed_by_drop.

(** exactness is preserved by flush *)
Theorem C09_blob_flush_inv :
  forall (d : bool) (thr target W nid : N) (split : list entry -> list (N * list entry))
  (mem : list entry) (v : bversion),
  BInvG d v ->
  ids_below nid v ->
  (forall e : entry, In e mem -> ty e <> Ind) ->
  split_ok split (b_tables v) ->
  BInvG d (fst (blob_flush thr target W nid split mem v)) /\
  ids_below (snd (blob_flush thr target W nid split mem v))
  (fst (blob_flush thr target W nid split mem v)) /\
  nid <= snd (blob_flush thr target W nid split mem v) /\
  (0 < thr ->
  frames_pos (b_blobs v) ->
  frames_pos (b_blobs (fst (blob_flush thr target W nid split mem v)))) /\
  b_gc (fst (blob_flush thr target W nid split mem v)) = b_gc v.
Proof. exact blob_flush_inv. Qed.
Print Assumptions C09_blob_flush_inv.

(** merges (every dropped / replaced pointer is reported exactly once by the stream) *)
Theorem C09_blob_merge_standard_inv :
  forall (d : bool) (W : N) (evict : bool) (flt : entry -> verdict) 
  (tids : list N) (split : list entry -> list (N * list entry))
  (v : bversion),
  BInvG d v ->
  frames_pos (b_blobs v) ->
  flt_plain flt ->
  split_ok split (b_tables v) -> BInvG d (blob_merge_standard W evict flt tids split v).
Proof. exact blob_merge_standard_inv. Qed.
Print Assumptions C09_blob_merge_standard_inv.

(** relocating merges *)
Theorem C09_blob_merge_relocating_inv :
  forall (d : bool) (W : N) (evict : bool) (flt : entry -> verdict) 
  (tids rw : list N) (target nid : N) (split : list entry -> list (N * list entry))
  (v : bversion),
  BInvG d v ->
  frames_pos (b_blobs v) ->
  ids_below nid v ->
  flt_plain flt ->
  split_ok split (b_tables v) ->
  reloc_ok tids rw v ->
  let r := blob_merge_relocating W evict flt tids rw target nid split v in
  BInvG d (fst r) /\
  ids_below (snd r) (fst r) /\
  nid <= snd r /\ frames_pos (b_blobs (fst r)) /\ (gc_pruned v -> gc_pruned (fst r)).
Proof. exact blob_merge_relocating_inv. Qed.
Print Assumptions C09_blob_merge_relocating_inv.

(** drops (fix F6: on-disk bytes are now added too) *)
Theorem C09_blob_drop_tables_inv :
  forall (d : bool) (tids : list N) (v : bversion),
  BInvG d v -> frames_pos (b_blobs v) -> BInvG d (blob_drop_tables tids v).
Proof. exact blob_drop_tables_inv. Qed.
Print Assumptions C09_blob_drop_tables_inv.

(** and reopen: the statistics of the version's files are unchanged *)
Theorem C09_blob_reopen_inv :
  forall (d : bool) (v : bversion),
  BInvG d v ->
  let
  '(v', nid') := blob_reopen v in
  BInvG d v' /\
  gc_pruned v' /\
  ids_below nid' v' /\
  b_tables v' = b_tables v /\
  b_blobs v' = b_blobs v /\
  (forall bf : blobfile,
  In bf (b_blobs v) -> gc_get (b_gc v') (bf_id bf) = gc_get (b_gc v) (bf_id bf)) /\
  (frames_pos (b_blobs v) -> frames_pos (b_blobs v')).
Proof. exact blob_reopen_inv. Qed.
Print Assumptions C09_blob_reopen_inv.

(** finding F6 (fixed): the 3.1.9 drop lost on-disk bytes *)
Theorem C09_blob_drop_tables_old_inv_refuted :
  exists (tids : list N) (v : bversion),
  BInv v /\
  frames_pos (b_blobs v) /\
  gc_pruned v /\
  ~ BInv (blob_drop_tables_old tids v) /\
  gc_get (b_gc (blob_drop_tables_old tids v)) 0 =
  {| g_len := 2; g_bytes := 2; g_disk := 1 |} /\
  garbage_of (blob_drop_tables_old tids v) 0 =
  {| g_len := 2; g_bytes := 2; g_disk := 2 |} /\
  BInv (blob_drop_tables tids v) /\
  gc_get (b_gc (blob_drop_tables tids v)) 0 =
  {| g_len := 2; g_bytes := 2; g_disk := 2 |}.
Proof. exact blob_drop_tables_old_inv_refuted. Qed.
Print Assumptions C09_blob_drop_tables_old_inv_refuted.

(** known finding K1: a drop keeps a statistics entry for the file it removed (asserted by the crate's own test) *)
Theorem C09_gc_pruned_drop_refuted :
  exists (tids : list N) (v : bversion),
  BInv v /\
  gc_pruned v /\
  BInv (blob_drop_tables tids v) /\
  ~ gc_pruned (blob_drop_tables tids v) /\
  stale_bytes (b_gc (blob_drop_tables tids v)) = 8 /\
  sumN
  (map (fun bf : blobfile => g_disk (garbage_of (blob_drop_tables tids v) (bf_id bf)))
  (b_blobs (blob_drop_tables tids v))) = 0.
Proof. exact gc_pruned_drop_refuted. Qed.
Print Assumptions C09_gc_pruned_drop_refuted.

