(** C14 - bulk ingestion becomes visible atomically and overrides older data. *)
From LsmV Require Import Model.Tree Model.History Model.Snapshot Model.Version Model.Cert
     Proofs.Newest Proofs.Lookup Proofs.Cert Proofs.Snapshot Proofs.Version Proofs.Ingest.
From LsmV Require Model.BlockIndex Proofs.BlockIndex.
Open Scope N_scope.

(** (1) an ingested table (entries stored with local seqno 0, shifted by the global seqno g
    allocated by finish) is invisible to every snapshot S <= g and, for every S > g, acts as
    |batch| writes at seqno g - all of its entries at once *)
Theorem C14_atomic_visibility : forall flt t g,
  table_ok t = true -> (forall e, In e (ents t) -> flt (tid t) (ukey e) = true) ->
  ingested t g ->
  forall S, (S <= g -> forall k, table_get flt t k S = None) /\
            (g < S -> forall e, In e (ents t) -> table_get flt t (ukey e) S = Some e).
Proof. exact ingested_atomic. Qed.
Print Assumptions C14_atomic_visibility.

(** (2) it enters as the first run of L0; when its entries are newer than everything in the
    version (g exceeds all earlier seqnos; memtables were flushed first) the version stays
    structurally sound, hence the batch overrides all older data on every read path and
    later writes (memtable, newer seqnos) override it *)
Theorem C14_version_sound : forall v tables, version_inv v = true ->
  l0_choice_ok v tables = true -> version_inv (with_new_l0_run v tables) = true.
Proof. exact with_new_l0_run_inv. Qed.
Print Assumptions C14_version_sound.

(** (3) snapshots taken before finish() keep their full view (ingestion is a version
    upgrade with seqno g >= S) *)
Theorem C14_earlier_snapshots_untouched : forall st0 ops S,
  hinv st0 -> S = vis st0 -> protocol_ok S st0 ops = true ->
  vfs (hist (hrun st0 ops)) S <> None /\
  exists sv0 sv', latest (hist st0) = Some sv0 /\
    vfs (hist (hrun st0 ops)) S = Some sv' /\
    (forall k, spec_get (content sv') k S = spec_get (content sv0) k S).
Proof.
  intros st0 ops S I E P. split; [now apply (snapshot_never_panics st0 ops S)|].
  destruct (snapshot_stable st0 ops S I E P) as (sv0 & sv' & A & _ & B & _ & _ & _ & _ & C & _).
  exists sv0, sv'. auto.
Qed.
Print Assumptions C14_earlier_snapshots_untouched.

(** (4) certificate on the real tree: after every ingestion the dumped superversion is
    checked with check_inv_sv and its content against the history in which the batch is
    |batch| writes at seqno g; then EVERY key reads per the Spec *)
Theorem C14_certified_reads : forall flt sv H S,
  check_inv_sv sv = true -> filter_sound flt sv ->
  content_agrees (content sv) H S = true ->
  forall k, sv_get flt sv k S = spec_get H k S.
Proof.
  intros flt sv H S I F A k.
  rewrite (sv_get_sound flt sv I F k S). exact (content_agrees_sound _ _ _ A k).
Qed.
Print Assumptions C14_certified_reads.

(** (5) the read paths of an ingested table apply its global seqno to EVERY item: the compaction
    scanner returns all items of all blocks shifted by g, and the point read translates the
    snapshot by g (saturating) - for every cut of the items into data blocks and every index kind *)
Theorem C14_scanner_shifts_every_item : forall bt : LsmV.Model.BlockIndex.btable,
  LsmV.Proofs.BlockIndex.btable_wf bt ->
  LsmV.Model.BlockIndex.btable_scan bt = ents (LsmV.Proofs.BlockIndex.flat_of bt).
Proof. exact LsmV.Proofs.BlockIndex.btable_scan_flat. Qed.
Print Assumptions C14_scanner_shifts_every_item.
