(** Key-value separation: blob files, pointers, garbage statistics (logical level).
    Mirrors: src/blob_tree/mod.rs, src/blob_tree/gc.rs, src/blob_tree/handle.rs,
    src/vlog/handle.rs, src/vlog/blob_file/{mod,meta,writer,multi_writer,merge}.rs,
    src/table/multi_writer.rs (register_blob), src/table/writer/mod.rs (LinkedFile),
    src/compaction/flavour.rs, src/compaction/worker.rs, src/compaction/filter.rs,
    src/version/mod.rs (with_new_l0_run, with_merge, with_dropped),
    src/version/blob_file_list.rs.

    Modelled configuration: blob compression = None, so the on-disk length of a blob is
    the length of its value; the model nevertheless keeps [fr_disk] apart from
    [length fr_val], as the code does.  The level structure of a version is dropped:
    [b_tables] lists the tables in [Version::iter_tables] order. *)
From LsmV Require Export Model.Entry Model.Stream.
Open Scope N_scope.

(** * Small helpers *)
Definition lenN {A} (l : list A) : N := N.of_nat (length l).
Definition sumN (l : list N) : N := fold_right N.add 0 l.
Definition memN (x : N) (l : list N) : bool := existsb (N.eqb x) l.
Definition is_nil {A} (l : list A) : bool := match l with [] => true | _ => false end.

(** * Blob files *)

(** one blob as stored by vlog/blob_file/writer.rs: Writer::write_raw
    (header: magic 4, checksum 16, seqno 8, key len 2, real len 4, on-disk len 4) *)
Record frame := mkFr { fr_key : key; fr_seq : N; fr_off : N; fr_val : list N; fr_disk : N }.
Record blobfile := mkBf { bf_id : N; frames : list frame }.

(** writer.rs: BLOB_HEADER_LEN *)
Definition BLOB_HEADER_LEN : N := 38.
(** writer.rs: write_raw, "Update offset": header + key + on-disk value *)
Definition frame_span (k : key) (disk : N) : N := BLOB_HEADER_LEN + lenN k + disk.

(** meta.rs: Metadata, as filled by writer.rs: Writer::finish
    (item_count, total_compressed_bytes = written_blob_bytes = sum of on-disk value
    lengths -- no header, no key --, total_uncompressed_bytes = sum of real lengths) *)
Definition bf_items (bf : blobfile) : N := lenN (frames bf).
Definition bf_uncomp (bf : blobfile) : N := sumN (map (fun fr => lenN (fr_val fr)) (frames bf)).
Definition bf_comp (bf : blobfile) : N := sumN (map fr_disk (frames bf)).

(** version/blob_file_list.rs: BlobFileList::get *)
Definition find_file (blobs : list blobfile) (f : N) : option blobfile :=
  find (fun bf => bf_id bf =? f) blobs.
Definition has_file (blobs : list blobfile) (f : N) : bool :=
  existsb (fun bf => bf_id bf =? f) blobs.

(** vlog/accessor.rs: Accessor::get + blob_file/reader.rs: Reader::get -- the blob that
    starts at [off] in file [f] *)
Definition find_frame (blobs : list blobfile) (f off : N) : option frame :=
  match find_file blobs f with
  | Some bf => find (fun fr => fr_off fr =? off) (frames bf)
  | None => None
  end.

(** * Pointers (BlobIndirection) *)

(** blob_tree/handle.rs: BlobIndirection { vhandle { blob_file_id, offset, on_disk_size }, size }
    together with the user key of the entry that carries it.  An [Ind] entry's [val] is
    the list [file_id; offset; on_disk_size; size]. *)
Record ptr := mkP { pk : key; pf : N; po : N; pd : N; ps : N }.

Definition ptr_of (e : entry) : option ptr :=
  match ty e with
  | Ind => match val e with
           | [f; o; d; s] => Some (mkP (ukey e) f o d s)
           | _ => None
           end
  | _ => None
  end.

Definition mk_ind (k : key) (s : N) (f o d sz : N) : entry := mkE k s Ind [f; o; d; sz].

(** an [Ind] entry decodes (BlobIndirection::decode_from succeeds) *)
Definition wf_ind (e : entry) : bool :=
  match ty e with
  | Ind => match ptr_of e with Some _ => true | None => false end
  | _ => true
  end.

Definition ptrs (ents : list entry) : list ptr :=
  flat_map (fun e => match ptr_of e with Some p => [p] | None => [] end) ents.

Definition tgt (p : ptr) : N * N := (pf p, po p).

(** * Garbage statistics (FragmentationMap) *)

(** blob_tree/gc.rs: FragmentationEntry { len, bytes, on_disk_bytes } *)
Record gcentry := mkG { g_len : N; g_bytes : N; g_disk : N }.
Definition gzero : gcentry := mkG 0 0 0.
Definition gadd (a b : gcentry) : gcentry :=
  mkG (g_len a + g_len b) (g_bytes a + g_bytes b) (g_disk a + g_disk b).
(** version/mod.rs: with_dropped as shipped in 3.1.9, the [and_modify] closure: bytes and
    len only (see [add_linked_old]) *)
Definition gadd_nodisk (a b : gcentry) : gcentry :=
  mkG (g_len a + g_len b) (g_bytes a + g_bytes b) (g_disk a).

(** FragmentationMap(HashMap<BlobFileId, FragmentationEntry>) as an association list kept
    ascending by blob file id (the order [verif::gc_stats] dumps it in) *)
Definition gcmap := list (N * gcentry).

Fixpoint gc_find (m : gcmap) (f : N) : option gcentry :=
  match m with
  | [] => None
  | (k, x) :: m' => if k =? f then Some x else gc_find m' f
  end.
Definition gc_get (m : gcmap) (f : N) : gcentry :=
  match gc_find m f with Some x => x | None => gzero end.
Definition gc_mem (m : gcmap) (f : N) : bool :=
  match gc_find m f with Some _ => true | None => false end.

Fixpoint gc_modify (g : gcentry -> gcentry) (f : N) (m : gcmap) : gcmap :=
  match m with
  | [] => []
  | (k, x) :: m' => if k =? f then (k, g x) :: m' else (k, x) :: gc_modify g f m'
  end.
Fixpoint gc_insert (f : N) (x : gcentry) (m : gcmap) : gcmap :=
  match m with
  | [] => [(f, x)]
  | (k, y) :: m' => if f <? k then (f, x) :: m else (k, y) :: gc_insert f x m'
  end.
(** HashMap::entry(f).and_modify(|c| c := g c x).or_insert(x) *)
Definition gc_add_with (g : gcentry -> gcentry -> gcentry) (m : gcmap) (f : N) (x : gcentry) : gcmap :=
  if gc_mem m f then gc_modify (fun y => g y x) f m else gc_insert f x m.
Definition gc_add := gc_add_with gadd.
Definition gc_add_nodisk := gc_add_with gadd_nodisk.

(** gc.rs: FragmentationMap::merge_into (self = diff, other = m) *)
Definition gc_merge (diff m : gcmap) : gcmap :=
  fold_left (fun acc kx => gc_add acc (fst kx) (snd kx)) diff m.
(** gc.rs: FragmentationMap::prune *)
Definition gc_prune (m : gcmap) (blobs : list blobfile) : gcmap :=
  filter (fun kx => has_file blobs (fst kx)) m.
(** gc.rs: FragmentationMap::stale_bytes *)
Definition stale_bytes (m : gcmap) : N := sumN (map (fun kx => g_disk (snd kx)) m).

(** gc.rs: impl DroppedKvCallback for FragmentationMap -- only indirections count, with the
    sizes the *pointer* carries *)
Definition on_dropped (m : gcmap) (e : entry) : gcmap :=
  match ptr_of e with
  | Some p => gc_add m (pf p) (mkG 1 (ps p) (pd p))
  | None => m
  end.
Definition gc_of_log (log : list entry) : gcmap := fold_left on_dropped log [].

(** table/multi_writer.rs: register_blob, accumulated per table; table/writer/mod.rs:
    LinkedFile { blob_file_id, bytes, on_disk_bytes, len } -- the same shape as a
    fragmentation entry: (id, (len, sum size, sum on_disk_size)) *)
Definition linked_of (ents : list entry) : gcmap := gc_of_log ents.

(** vlog/blob_file/mod.rs: BlobFile::is_dead *)
Definition is_dead (m : gcmap) (bf : blobfile) : bool :=
  match gc_find m (bf_id bf) with
  | Some x => g_bytes x =? bf_uncomp bf
  | None => false
  end.
(** vlog/blob_file/mod.rs: BlobFile::is_stale; the f32 threshold is the rational
    [num/den] (approximation of the float comparison; 0/0 = NaN compares false,
    x/0 = inf compares true) *)
Definition is_stale (num den : N) (m : gcmap) (bf : blobfile) : bool :=
  match gc_find m (bf_id bf) with
  | Some x => if bf_uncomp bf =? 0 then 0 <? g_bytes x
              else num * bf_uncomp bf <=? g_bytes x * den
  | None => false
  end.

(** * The version, as far as blob accounting is concerned *)
Record bversion := mkBV {
  b_tables : list (N * list entry);   (* table id, entries *)
  b_blobs : list blobfile;
  b_gc : gcmap }.

Definition bv_empty : bversion := mkBV [] [] [].

Definition vptrs (v : bversion) : list ptr := flat_map (fun t => ptrs (snd t)) (b_tables v).

(** blob_tree/mod.rs: resolve_value_handle -- the bytes behind a pointer entry, if the file
    is in the version, a blob starts at the offset, it was written for this user key and
    has the recorded size *)
Definition resolve (v : bversion) (e : entry) : option (list N) :=
  match ptr_of e with
  | Some p =>
      match find_frame (b_blobs v) (pf p) (po p) with
      | Some fr => if key_eqb (fr_key fr) (ukey e) && (lenN (fr_val fr) =? ps p)
                   then Some (fr_val fr) else None
      | None => None
      end
  | None => None
  end.

(** what a reader gets for a table entry: pointers resolved, everything else as is *)
Definition resolve_or_inline (v : bversion) (e : entry) : entry :=
  match ty e with
  | Ind => match resolve v e with
           | Some bytes => mkE (ukey e) (seq e) Value bytes
           | None => e
           end
  | _ => e
  end.

(** ** Brute-force truth *)
Definition pointed (P : list ptr) (f off : N) : bool :=
  existsb (fun p => (pf p =? f) && (po p =? off)) P.

Definition gof (fr : frame) : gcentry := mkG 1 (lenN (fr_val fr)) (fr_disk fr).
Definition gsum (l : list frame) : gcentry := fold_right (fun fr a => gadd (gof fr) a) gzero l.

(** the blobs of [bf] no pointer of [P] points to *)
Definition garb (P : list ptr) (bf : blobfile) : list frame :=
  filter (fun fr => negb (pointed P (bf_id bf) (fr_off fr))) (frames bf).

Definition garbage_of (v : bversion) (f : N) : gcentry :=
  match find_file (b_blobs v) f with
  | Some bf => gsum (garb (vptrs v) bf)
  | None => gzero
  end.

(** ** The decidable invariant *)
Fixpoint nodup_b {A} (eqb : A -> A -> bool) (l : list A) : bool :=
  match l with
  | [] => true
  | x :: l' => negb (existsb (eqb x) l') && nodup_b eqb l'
  end.
Definition pairN_eqb (a b : N * N) : bool := (fst a =? fst b) && (snd a =? snd b).

(** pointer [p] resolves in [blobs] and carries the blob's sizes *)
Definition presolve (blobs : list blobfile) (p : ptr) : bool :=
  match find_frame blobs (pf p) (po p) with
  | Some fr => key_eqb (fr_key fr) (pk p) && (lenN (fr_val fr) =? ps p) && (fr_disk fr =? pd p)
  | None => false
  end.

(** [d = true]: all three counters are compared; [d = false]: len and bytes only *)
Definition gce_eqb (d : bool) (a b : gcentry) : bool :=
  (g_len a =? g_len b) && (g_bytes a =? g_bytes b) && (negb d || (g_disk a =? g_disk b)).

Definition file_ok (bf : blobfile) : bool :=
  negb (is_nil (frames bf)) && nodup_b N.eqb (map fr_off (frames bf)).

Definition check_binv_g (d : bool) (v : bversion) : bool :=
  nodup_b N.eqb (map fst (b_tables v))
  && nodup_b N.eqb (map bf_id (b_blobs v))
  && nodup_b N.eqb (map fst (b_gc v))
  && forallb file_ok (b_blobs v)
  && forallb (fun t => forallb wf_ind (snd t)) (b_tables v)
  && forallb (presolve (b_blobs v)) (vptrs v)
  && nodup_b pairN_eqb (map tgt (vptrs v))
  && forallb (fun bf => gce_eqb d (gc_get (b_gc v) (bf_id bf)) (garbage_of v (bf_id bf)))
             (b_blobs v).

Definition check_binv : bversion -> bool := check_binv_g true.

(** no statistics entry for a file that is not in the version *)
Definition gc_pruned_b (v : bversion) : bool :=
  forallb (fun kx => has_file (b_blobs v) (fst kx)) (b_gc v).
(** every blob has a non-empty value (true when separation_threshold >= 1) *)
Definition frames_pos_b (blobs : list blobfile) : bool :=
  forallb (fun bf => forallb (fun fr => 0 <? lenN (fr_val fr)) (frames bf)) blobs.
(** all blob file ids known to the version (files and statistics) are below the counter *)
Definition ids_below_b (nid : N) (v : bversion) : bool :=
  forallb (fun bf => bf_id bf <? nid) (b_blobs v) && forallb (fun kx => fst kx <? nid) (b_gc v).

(** * The blob file writer (vlog/blob_file/multi_writer.rs: MultiWriter) *)

(** [bw_next]: the shared id counter (blob_file_id_counter); [bw_id]/[bw_off]: the active
    writer; [bw_files]: files with at least one blob, oldest first (an active writer that
    has written nothing yields no file: consume_writer) *)
Record bwriter := mkBW { bw_next : N; bw_id : N; bw_off : N; bw_files : list blobfile }.

(** MultiWriter::new: takes an id from the counter at once *)
Definition bw_new (next : N) : bwriter := mkBW (next + 1) next 0 [].

Fixpoint add_frame (fs : list blobfile) (id : N) (fr : frame) : list blobfile :=
  match fs with
  | [] => [mkBf id [fr]]
  | bf :: fs' => if bf_id bf =? id then mkBf id (frames bf ++ [fr]) :: fs'
                 else bf :: add_frame fs' id fr
  end.

(** MultiWriter::write / write_raw: returns the handle (file id, offset); rotates when the
    offset reached the target size *)
Definition bw_write (target : N) (w : bwriter) (k : key) (s : N) (v : list N) (disk : N)
  : bwriter * (N * N) :=
  let fr := mkFr k s (bw_off w) v disk in
  let off' := bw_off w + frame_span k disk in
  let fs := add_frame (bw_files w) (bw_id w) fr in
  (if target <=? off' then mkBW (bw_next w + 1) (bw_next w) 0 fs
   else mkBW (bw_next w) (bw_id w) off' fs,
   (bw_id w, bw_off w)).

(** MultiWriter::finish: (created files, counter) *)
Definition bw_finish (w : bwriter) : list blobfile * N := (bw_files w, bw_next w).

(** * Flush (blob_tree/mod.rs: BlobTree::flush_to_tables, the loop over the stream) *)
Fixpoint separate (thr target : N) (w : bwriter) (items : list entry) : list entry * bwriter :=
  match items with
  | [] => ([], w)
  | e :: r =>
      if is_tomb e then
        let '(o, w') := separate thr target w r in
        (mkE (ukey e) (seq e) (ty e) [] :: o, w')
      else if thr <=? lenN (val e) then
        let '(w1, h) := bw_write target w (ukey e) (seq e) (val e) (lenN (val e)) in
        let '(o, w') := separate thr target w1 r in
        (mk_ind (ukey e) (seq e) (fst h) (snd h) (lenN (val e)) (lenN (val e)) :: o, w')
      else
        let '(o, w') := separate thr target w r in (e :: o, w')
  end.

(** abstract_tree.rs: flush (CompactionStream::new(merger, W), no eviction, no callback)
    + flush_to_tables + tree/mod.rs: register_tables + version/mod.rs: with_new_l0_run
    (diff = None: the statistics are not touched).  [mem]: the merged sealed memtables;
    [split]: how the table MultiWriter cuts the output into tables (ids included);
    [nid]: the blob file id counter.  Result: (version, counter). *)
Definition blob_flush (thr target W nid : N) (split : list entry -> list (N * list entry))
           (mem : list entry) (v : bversion) : bversion * N :=
  let '(out, _) := run_stream W false no_filter mem in
  let '(ents, w) := separate thr target (bw_new nid) out in
  let '(files, nid') := bw_finish w in
  (mkBV (split ents ++ b_tables v) (b_blobs v ++ files) (b_gc v), nid').

(** * Merge *)

Definition sel_tables (tids : list N) (tabs : list (N * list entry)) :=
  filter (fun t => memN (fst t) tids) tabs.
Definition rest_tables (tids : list N) (tabs : list (N * list entry)) :=
  filter (fun t => negb (memN (fst t) tids)) tabs.

(** version/mod.rs: Version::with_merge (blob part) *)
Definition with_merge (v : bversion) (tids : list N) (newtabs : list (N * list entry))
           (diff : gcmap) (newfiles : list blobfile) (drops : list N) : bversion :=
  let tabs := newtabs ++ rest_tables tids (b_tables v) in
  let has_diff := negb (is_nil diff) in
  let blobs :=
    if has_diff || negb (is_nil newfiles) || negb (is_nil drops)
    then filter (fun bf => negb (memN (bf_id bf) drops)) (b_blobs v ++ newfiles)
    else b_blobs v in
  let gc :=
    if has_diff || negb (is_nil drops)
    then gc_prune (gc_merge diff (b_gc v)) blobs
    else b_gc v in
  mkBV tabs blobs gc.

(** flavour.rs: finish -- the files that are dead according to the *current* statistics *)
Definition dead_ids (v : bversion) : list N :=
  map bf_id (filter (is_dead (b_gc v)) (b_blobs v)).

(** worker.rs: merge_tables declines when a table id is unknown *)
Definition tids_known (tids : list N) (v : bversion) : bool :=
  forallb (fun id => existsb (fun t => fst t =? id) (b_tables v)) tids.

(** the merged input of a compaction (create_compaction_stream: Merger over the tables) *)
Definition merge_input (tids : list N) (v : bversion) : list entry :=
  merge_sorted (map snd (sel_tables tids (b_tables v))).

(** worker.rs: merge_tables with flavour.rs: StandardCompaction (write, finish).
    [flt]: the stream filter (for the plain version it never answers [Replace Ind _]) *)
Definition blob_merge_standard (W : N) (evict : bool) (flt : entry -> verdict)
           (tids : list N) (split : list entry -> list (N * list entry))
           (v : bversion) : bversion :=
  if negb (tids_known tids v) then v else
  let '(out, log) := run_stream W evict flt (merge_input tids v) in
  with_merge v tids (split out) (gc_of_log log) [] (dead_ids v).

(** flavour.rs: RelocatingCompaction::write.  The blob is looked up at the pointer (the
    code finds it by advancing the merged scanner of the rewritten files, see
    [relocate_scan]); the new pointer keeps the old [size] and takes the on-disk length
    from the blob *)
Fixpoint relocate (target : N) (blobs : list blobfile) (rw : list N) (w : bwriter)
         (items : list entry) : list entry * bwriter :=
  match items with
  | [] => ([], w)
  | e :: r =>
      match ptr_of e with
      | Some p =>
          if memN (pf p) rw then
            match find_frame blobs (pf p) (po p) with
            | Some fr =>
                let '(w1, h) := bw_write target w (ukey e) (seq e) (fr_val fr) (fr_disk fr) in
                let '(o, w') := relocate target blobs rw w1 r in
                (mk_ind (ukey e) (seq e) (fst h) (snd h) (fr_disk fr) (ps p) :: o, w')
            | None => (* the code panics: "vptr was not matched with blob" *)
                let '(o, w') := relocate target blobs rw w r in (e :: o, w')
            end
          else let '(o, w') := relocate target blobs rw w r in (e :: o, w')
      | None => let '(o, w') := relocate target blobs rw w r in (e :: o, w')
      end
  end.

(** worker.rs: merge_tables with flavour.rs: RelocatingCompaction; [rw]: the ids
    pick_blob_files_to_rewrite returned (non-empty) *)
Definition blob_merge_relocating (W : N) (evict : bool) (flt : entry -> verdict)
           (tids rw : list N) (target nid : N) (split : list entry -> list (N * list entry))
           (v : bversion) : bversion * N :=
  if negb (tids_known tids v) then (v, nid) else
  let '(out, log) := run_stream W evict flt (merge_input tids v) in
  let '(out', w) := relocate target (b_blobs v) rw (bw_new nid) out in
  let '(files, nid') := bw_finish w in
  (with_merge v tids (split out') (gc_of_log log) files (rw ++ dead_ids v), nid').

(** ** Choosing the files to rewrite (worker.rs: pick_blob_files_to_rewrite) *)
Fixpoint insert_N (x : N) (l : list N) : list N :=
  match l with
  | [] => [x]
  | y :: l' => if x <? y then x :: l else if x =? y then l else y :: insert_N x l'
  end.
Definition sort_dedup (l : list N) : list N := fold_right insert_N [] l.

Definition linked_ids (ents : list entry) : list N := map fst (linked_of ents).

(** [stale_num/stale_den], [age_num/age_den]: staleness_threshold and age_cutoff *)
Definition pick_rewrite (stale_num stale_den age_num age_den : N) (tids : list N)
           (v : bversion) : list N :=
  let picked := sel_tables tids (b_tables v) in
  let cand := flat_map (fun t => linked_ids (snd t)) picked in
  let cand := filter (fun f => match find_file (b_blobs v) f with
                               | Some bf => is_stale stale_num stale_den (b_gc v) bf
                                            && negb (is_dead (b_gc v) bf)
                               | None => false (* the code panics *)
                               end) cand in
  let cand := sort_dedup cand in
  let cutoff := N.to_nat ((lenN cand * age_num) / age_den) in
  let cand := firstn cutoff cand in
  let others := flat_map (fun t => linked_ids (snd t)) (rest_tables tids (b_tables v)) in
  filter (fun f => negb (memN f others)) cand.

(** ** The scanner-faithful relocation (flavour.rs: drain_blobs + write)
    [scan]: what BlobFileMergeScanner yields for the rewritten files: all their blobs with
    the file id, ascending by (key, seqno descending) (merge.rs: Ord for IteratorValue).
    [None]: one of the code's panics/asserts fires. *)
Definition frame_ltb (a b : N * frame) : bool :=
  match key_cmp (fr_key (snd a)) (fr_key (snd b)) with
  | Lt => true
  | Gt => false
  | Eq => fr_seq (snd b) <? fr_seq (snd a)
  end.
Fixpoint ins_frame (x : N * frame) (l : list (N * frame)) : list (N * frame) :=
  match l with
  | [] => [x]
  | y :: l' => if frame_ltb x y then x :: l else y :: ins_frame x l'
  end.
Definition scan_of (blobs : list blobfile) (rw : list N) : list (N * frame) :=
  fold_right ins_frame []
    (flat_map (fun bf => if memN (bf_id bf) rw then map (fun fr => (bf_id bf, fr)) (frames bf)
                         else []) blobs).

(** drain_blobs: [Some rest] with the match (if any) at the head; [None]: assert failed *)
Fixpoint drain_blobs (scan : list (N * frame)) (k : key) (f off : N) : option (list (N * frame)) :=
  match scan with
  | [] => Some []
  | (fid, fr) :: rest =>
      if negb (key_eqb (fr_key fr) k) || negb (fid =? f) || (fr_off fr <? off) then
        if key_leb (fr_key fr) k then drain_blobs rest k f off else None
      else Some scan
  end.

Fixpoint relocate_scan (target : N) (rw : list N) (scan : list (N * frame)) (w : bwriter)
         (items : list entry) : option (list entry * bwriter) :=
  match items with
  | [] => Some ([], w)
  | e :: r =>
      match ptr_of e with
      | Some p =>
          if memN (pf p) rw then
            match drain_blobs scan (ukey e) (pf p) (po p) with
            | Some ((fid, fr) :: scan') =>
                if (fid =? pf p) && key_eqb (fr_key fr) (ukey e) && (fr_off fr =? po p) then
                  let '(w1, h) := bw_write target w (ukey e) (seq e) (fr_val fr) (fr_disk fr) in
                  match relocate_scan target rw scan' w1 r with
                  | Some (o, w') =>
                      Some (mk_ind (ukey e) (seq e) (fst h) (snd h) (fr_disk fr) (ps p) :: o, w')
                  | None => None
                  end
                else None
            | _ => None
            end
          else match relocate_scan target rw scan w r with
               | Some (o, w') => Some (e :: o, w')
               | None => None
               end
      | None => match relocate_scan target rw scan w r with
                | Some (o, w') => Some (e :: o, w')
                | None => None
                end
      end
  end.

(** * Dropping tables (worker.rs: drop_tables, version/mod.rs: with_dropped,
      blob_file_list.rs: prune_dead).  The statistics are NOT pruned here
      (tests/blob_nuke_gc_stats.rs asserts the entry of the removed file). *)

(** the dropped table's LinkedFile records are added to the statistics:
    entry(id).and_modify(bytes, on_disk_bytes, len +=).or_insert(record) *)
Definition add_linked (m : gcmap) (ents : list entry) : gcmap :=
  fold_left (fun acc kx => gc_add acc (fst kx) (snd kx)) (linked_of ents) m.
(** as shipped in 3.1.9 (before the repair of finding F6): the [and_modify] closure forgot
    [on_disk_bytes].  Kept only for [blob_drop_tables_old_inv_refuted]. *)
Definition add_linked_old (m : gcmap) (ents : list entry) : gcmap :=
  fold_left (fun acc kx => gc_add_nodisk acc (fst kx) (snd kx)) (linked_of ents) m.

Definition drop_tables_with (al : gcmap -> list entry -> gcmap) (tids : list N) (v : bversion)
  : bversion :=
  if negb (tids_known tids v) then v else
  let dropped := sel_tables tids (b_tables v) in
  if is_nil dropped then v else
  let gc := fold_left (fun acc t => al acc (snd t)) dropped (b_gc v) in
  let blobs := filter (fun bf => negb (is_dead gc bf)) (b_blobs v) in
  mkBV (rest_tables tids (b_tables v)) blobs gc.

Definition blob_drop_tables := drop_tables_with add_linked.
Definition blob_drop_tables_old := drop_tables_with add_linked_old.

(** * Compaction filter with key-value separation (compaction/filter.rs) *)
Inductive uverdict := UKeep | URemove | URemoveWeak | UReplace (v : list N) | UDestroy.

(** the marker carried by a replaced head until it is separated: an [Ind] entry whose
    payload is longer than any pointer *)
Definition mark (v : list N) : list N := 0 :: 0 :: 0 :: 0 :: 0 :: v.
Definition unmark (e : entry) : option (list N) :=
  match ty e with
  | Ind => match val e with 0 :: 0 :: 0 :: 0 :: 0 :: v => Some v | _ => None end
  | _ => None
  end.

(** StreamFilterAdapter::filter_item, before handle_write *)
Definition adapt (uf : entry -> uverdict) (e : entry) : verdict :=
  match uf e with
  | UKeep => Keep
  | URemove => Replace Tomb []
  | URemoveWeak => Replace WeakTomb []
  | UReplace v => Replace Ind (mark v)
  | UDestroy => Drop
  end.

(** StreamFilterAdapter::handle_write, applied to the replaced heads in stream order; the
    filter's blob writer is created on first use ([None] = not yet); a new blob carries the
    OLD user key and seqno *)
Fixpoint fsep (thr target nid : N) (ow : option bwriter) (items : list entry)
  : list entry * option bwriter :=
  match items with
  | [] => ([], ow)
  | h :: r =>
      match unmark h with
      | Some v =>
          if lenN v <? thr then
            let '(o, ow') := fsep thr target nid ow r in (mkE (ukey h) (seq h) Value v :: o, ow')
          else
            let w := match ow with Some w => w | None => bw_new nid end in
            let '(w1, hd) := bw_write target w (ukey h) (seq h) v (lenN v) in
            let '(o, ow') := fsep thr target nid (Some w1) r in
            (mk_ind (ukey h) (seq h) (fst hd) (snd hd) (lenN v) (lenN v) :: o, ow')
      | None => let '(o, ow') := fsep thr target nid ow r in (h :: o, ow')
      end
  end.

(** worker.rs: merge_tables with a compaction filter, StandardCompaction, extra_blob_files *)
Definition blob_merge_filter (W : N) (evict : bool) (uf : entry -> uverdict)
           (thr target nid : N) (tids : list N) (split : list entry -> list (N * list entry))
           (v : bversion) : bversion * N :=
  if negb (tids_known tids v) then (v, nid) else
  let '(out, log) := run_stream W evict (adapt uf) (merge_input tids v) in
  let '(out', ow) := fsep thr target nid None out in
  let '(extra, nid') := match ow with Some w => bw_finish w | None => ([], nid) end in
  (with_merge v tids (split out') (gc_of_log log) extra (dead_ids v), nid').

(** * Reopen
    blob_tree/mod.rs: BlobTree::open restarts the id counter above the highest file id of
    the recovered version *)
Definition reopen_counter (v : bversion) : N :=
  match b_blobs v with
  | [] => 0
  | _ => fold_right N.max 0 (map bf_id (b_blobs v)) + 1
  end.

(** version/recovery.rs: recover -- tables, files and statistics come back as persisted,
    except that statistics of blob files the version does not list are discarded
    ([gc_stats.retain(|id, _| listed)], the repair of finding F5).  Result: (version, counter).
    The recovery of 3.1.9 kept the map as it was: [(v, reopen_counter v)]. *)
Definition blob_reopen (v : bversion) : bversion * N :=
  (mkBV (b_tables v) (b_blobs v) (gc_prune (b_gc v) (b_blobs v)), reopen_counter v).
Definition blob_reopen_old (v : bversion) : bversion * N := (v, reopen_counter v).

(** * A concrete table splitter for examples: table ids [ids], cut after [cuts] entries *)
Fixpoint split_cuts (ids : list N) (cuts : list nat) (l : list entry) : list (N * list entry) :=
  match ids with
  | [] => []
  | id :: ids' =>
      match cuts with
      | [] => if is_nil l then [] else [(id, l)]
      | c :: cuts' => if is_nil l then [] else (id, firstn c l) :: split_cuts ids' cuts' (skipn c l)
      end
  end.
