(** The compaction stream (also used by flush).
    Mirrors: src/compaction/stream.rs (CompactionStream::next, drain_key).
    The Rust iterator's inner [drain_key] loop (skip the following entries with the
    head's user key, reporting each to the drop callback) is written as a mode of the
    same structural recursion ([dr = Some k]: "draining k"), so no fuel is needed and
    the function is total by construction.  Result: (emitted entries, drop-callback log). *)
From LsmV Require Export Model.Entry.
Open Scope N_scope.

(** StreamFilterVerdict *)
Inductive verdict := Keep | Replace (t : vtype) (v : list N) | Drop.

Definition is_strong_tomb (e : entry) : bool := match ty e with Tomb => true | _ => false end.
Definition is_value (e : entry) : bool := match ty e with Value => true | _ => false end.
Definition is_weak_tomb (e : entry) : bool := match ty e with WeakTomb => true | _ => false end.

(** the filter step applied to a head entry: (surviving head, entries reported dropped) *)
Definition apply_filter (flt : entry -> verdict) (e : entry) : option entry * list entry :=
  if is_tomb e then (Some e, [])
  else match flt e with
       | Keep => (Some e, [])
       | Replace t v => (Some (mkE (ukey e) (seq e) t v), [e])
       | Drop => (None, [e])
       end.

Definition draining (dr : option key) (e : entry) : bool :=
  match dr with Some k => key_eqb (ukey e) k | None => false end.

Fixpoint cstream (W : N) (evict : bool) (flt : entry -> verdict)
         (dr : option key) (l : list entry) : list entry * list entry :=
  match l with
  | [] => ([], [])
  | e :: rest =>
      if draining dr e then
        let '(o, d) := cstream W evict flt dr rest in (o, e :: d)
      else
        let '(hd, lg) := apply_filter flt e in
        match hd with
        | None => let '(o, d) := cstream W evict flt None rest in (o, lg ++ d)
        | Some head =>
            match rest with
            | [] => if is_tomb head && evict then ([], lg) else ([head], lg)
            | peeked :: _ =>
                if key_ltb (ukey head) (ukey peeked) then
                  let '(o, d) := cstream W evict flt None rest in
                  if is_tomb head && evict then (o, lg ++ d) else (head :: o, lg ++ d)
                else if seq peeked <? W then
                  let '(o, d) := cstream W evict flt (Some (ukey head)) rest in
                  if is_strong_tomb head && evict then (o, lg ++ d)
                  else if is_value peeked && is_weak_tomb head then (o, lg ++ d)
                  else (head :: o, lg ++ d)
                else
                  let '(o, d) := cstream W evict flt None rest in (head :: o, lg ++ d)
            end
        end
  end.

Definition no_filter (e : entry) : verdict := Keep.

(** entry point: CompactionStream::new(iter, W).evict_tombstones(evict).with_filter(flt) *)
Definition run_stream (W : N) (evict : bool) (flt : entry -> verdict) (l : list entry) :=
  cstream W evict flt None l.

(** merge of several sorted sources into one InternalKey-sorted stream (Merger);
    insertion-based, stable: earlier sources win ties *)
Fixpoint ins_sorted (e : entry) (l : list entry) : list entry :=
  match l with
  | [] => [e]
  | x :: l' => if ikey_ltb x e || ikey_eqb x e then x :: ins_sorted e l' else e :: l
  end.

Definition merge_sorted (srcs : list (list entry)) : list entry :=
  fold_right (fun src acc => fold_right ins_sorted acc src) [] srcs.
