(** The compaction stream (also used by flush).
    Mirrors: src/compaction/stream.rs (CompactionStream::next, drain_key).
    The Rust iterator's inner [drain_key] loop (skip the following entries with the
    head's user key, reporting each to the drop callback) is written as a mode of the
    same structural recursion ([dr = Drain k]: "draining k"), so no fuel is needed and
    the function is total by construction.  Result: (emitted entries, drop-callback log).
    This is the stream AFTER the repair of finding F3 (weak tombstone + value pair: only
    the pair is dropped, not the whole tail of the key); [cstream_old] keeps the shipped
    3.1.9 behaviour for the refutation theorem. *)
From LsmV Require Export Model.Entry.
Open Scope N_scope.

(** StreamFilterVerdict *)
Inductive verdict := Keep | Replace (t : vtype) (v : list N) | Drop.

Definition is_strong_tomb (e : entry) : bool := match ty e with Tomb => true | _ => false end.
Definition is_value (e : entry) : bool := match ty e with Value => true | _ => false end.
Definition is_weak_tomb (e : entry) : bool := match ty e with WeakTomb => true | _ => false end.

(** the filter step applied to a head entry: (surviving head, entries reported dropped) *)
Definition apply_filter (flt : entry -> verdict) (e : entry) : option entry * list entry :=
  if is_tomb e then (Some e, [])
  else match flt e with
       | Keep => (Some e, [])
       | Replace t v => (Some (mkE (ukey e) (seq e) t v), [e])
       | Drop => (None, [e])
       end.

(** what the loop does with the entries that follow the current head:
    [Drain k]  = inside [drain_key k]: every following entry with user key k is dropped and
                 reported to the drop callback;
    [DropNext] = the weak-tombstone/value pair rule: exactly the next entry (the value
                 directly below the weak tombstone) is dropped and reported, then the loop
                 goes on normally (an older version of the key becomes a head again). *)
Inductive dmode := NoDrain | Drain (k : key) | DropNext.

(** [evict]: drain_key collects every following version of the key when tombstones are
    evicted (last level); otherwise it STOPS at a weak tombstone, which then becomes a
    stream head again (it may still have to cancel or shadow a value in a deeper level). *)
Definition draining (evict : bool) (dr : dmode) (e : entry) : bool :=
  match dr with
  | Drain k => key_eqb (ukey e) k && (evict || negb (is_weak_tomb e))
  | DropNext => true
  | NoDrain => false
  end.

Definition after_drop (dr : dmode) : dmode :=
  match dr with DropNext => NoDrain | d => d end.

Fixpoint cstream (W : N) (evict : bool) (flt : entry -> verdict)
         (dr : dmode) (l : list entry) : list entry * list entry :=
  match l with
  | [] => ([], [])
  | e :: rest =>
      if draining evict dr e then
        let '(o, d) := cstream W evict flt (after_drop dr) rest in (o, e :: d)
      else
        let '(hd, lg) := apply_filter flt e in
        match hd with
        | None => let '(o, d) := cstream W evict flt NoDrain rest in (o, lg ++ d)
        | Some head =>
            match rest with
            | [] => if is_tomb head && evict then ([], lg) else ([head], lg)
            | peeked :: _ =>
                if key_ltb (ukey head) (ukey peeked) then
                  let '(o, d) := cstream W evict flt NoDrain rest in
                  if is_tomb head && evict then (o, lg ++ d) else (head :: o, lg ++ d)
                else if seq peeked <? W then
                  if is_strong_tomb head && evict then
                    let '(o, d) := cstream W evict flt (Drain (ukey head)) rest in (o, lg ++ d)
                  else if negb (is_tomb peeked) && is_weak_tomb head then
                    (* a weak tombstone cancels exactly the one value (inline or separated)
                       directly below it: only the pair goes *)
                    let '(o, d) := cstream W evict flt DropNext rest in (o, lg ++ d)
                  else
                    let '(o, d) := cstream W evict flt (Drain (ukey head)) rest in
                    (head :: o, lg ++ d)
                else
                  let '(o, d) := cstream W evict flt NoDrain rest in (head :: o, lg ++ d)
            end
        end
  end.

(** The stream as shipped in 3.1.9 (before the repair of F3): in the weak-pair case the
    whole tail of the key was drained. Kept only for [cstream_old_resurrects] (Proofs). *)
Definition draining_old (dr : option key) (e : entry) : bool :=
  match dr with Some k => key_eqb (ukey e) k | None => false end.

Fixpoint cstream_old (W : N) (evict : bool) (flt : entry -> verdict)
         (dr : option key) (l : list entry) : list entry * list entry :=
  match l with
  | [] => ([], [])
  | e :: rest =>
      if draining_old dr e then
        let '(o, d) := cstream_old W evict flt dr rest in (o, e :: d)
      else
        let '(hd, lg) := apply_filter flt e in
        match hd with
        | None => let '(o, d) := cstream_old W evict flt None rest in (o, lg ++ d)
        | Some head =>
            match rest with
            | [] => if is_tomb head && evict then ([], lg) else ([head], lg)
            | peeked :: _ =>
                if key_ltb (ukey head) (ukey peeked) then
                  let '(o, d) := cstream_old W evict flt None rest in
                  if is_tomb head && evict then (o, lg ++ d) else (head :: o, lg ++ d)
                else if seq peeked <? W then
                  let '(o, d) := cstream_old W evict flt (Some (ukey head)) rest in
                  if is_strong_tomb head && evict then (o, lg ++ d)
                  else if is_value peeked && is_weak_tomb head then (o, lg ++ d)
                  else (head :: o, lg ++ d)
                else
                  let '(o, d) := cstream_old W evict flt None rest in (head :: o, lg ++ d)
            end
        end
  end.

Definition no_filter (e : entry) : verdict := Keep.

(** entry point: CompactionStream::new(iter, W).evict_tombstones(evict).with_filter(flt) *)
Definition run_stream (W : N) (evict : bool) (flt : entry -> verdict) (l : list entry) :=
  cstream W evict flt NoDrain l.

(** merge of several sorted sources into one InternalKey-sorted stream (Merger);
    insertion-based, stable: earlier sources win ties *)
Fixpoint ins_sorted (e : entry) (l : list entry) : list entry :=
  match l with
  | [] => [e]
  | x :: l' => if ikey_ltb x e || ikey_eqb x e then x :: ins_sorted e l' else e :: l
  end.

Definition merge_sorted (srcs : list (list entry)) : list entry :=
  fold_right (fun src acc => fold_right ins_sorted acc src) [] srcs.
