(** Interleaving model of the crate's concurrency protocol (property C06), at the
    granularity of its critical sections.
    Mirrors: src/tree/inner.rs (the locks), src/tree/mod.rs (append_entry,
    get_internal_entry, rotate_memtable, register_tables, compact, major_compact),
    src/abstract_tree.rs (flush), src/compaction/worker.rs (do_compaction, merge_tables),
    src/compaction/state/hidden_set.rs, src/version/super_version.rs, src/seqno.rs.

    CONTENT LEVEL.  A table is its id and its entry list; a version is the list of its
    levels, each level the list of its tables in lookup order (the runs of a level are
    flattened in the order [Version::iter_levels().flat_map(|lvl| lvl.iter())] visits
    them); [with_merge] is "remove the input tables from every level, put the output
    tables in front of level [dest]", [with_new_l0_run] is "put the tables in front of
    level 0".  What this abstracts from the concrete functions of Model/Version.v
    (run structure, [optimize_runs], table metadata, key-range culling and Bloom
    filters of the read path) is discharged by Proofs/Version.v ([optimize_runs_perm],
    [optimize_runs_order], [optimize_runs_recency], [with_merge_inv],
    [with_new_l0_run_inv]) and Proofs/Lookup.v ([sv_get_raw_sound]); see the header of
    Proofs/Conc.v.

    A memtable is one shared object (Arc<Memtable>): superversions refer to it by id, the
    entries live in a store ([heap]) indexed by id, so an insert is seen through every
    reference (also through the superversion a reader has pinned).

    Every critical section (a region under the [version_history] guard and/or the
    [compaction_state] mutex) is ONE atomic step.  The two long-held locks are functions
    of the program counters: [flush_lock] is held by a flusher between F1 and F3;
    [major_compaction_lock] is read-held by a minor compactor and write-held by a major
    compactor between K1 and K3. *)
From LsmV Require Export Model.Snapshot Model.Stream.
Open Scope N_scope.

(** * 1. Tables, versions, superversions, the memtable store *)

Record ctable := mkCT { ct_id : N; ct_ents : list entry }.

Definition cversion := list (list ctable).

(** SuperVersion: seqno, active memtable (id), sealed memtables (ids, oldest first), version *)
Record csv := mkCSV { cs_seq : N; cs_active : N; cs_sealed : list N; cs_ver : cversion }.

Definition heap := list (N * list entry).

Fixpoint heap_get (h : heap) (id : N) : list entry :=
  match h with
  | [] => []
  | (i, l) :: h' => if i =? id then l else heap_get h' id
  end.

(** Memtable::insert on the object with id [id] *)
Fixpoint heap_ins (h : heap) (id : N) (e : entry) : heap :=
  match h with
  | [] => [(id, mt_insert e [])]
  | (i, l) :: h' => if i =? id then (i, mt_insert e l) :: h' else (i, l) :: heap_ins h' id e
  end.

Definition mem_in (x : N) (l : list N) : bool := existsb (N.eqb x) l.

(** lookup order: active memtable, sealed memtables newest first, tables level by level
    (src/tree/mod.rs: get_internal_entry_from_version) *)
Definition containers (h : heap) (sv : csv) : list (list entry) :=
  heap_get h (cs_active sv)
  :: map (heap_get h) (rev (cs_sealed sv)) ++ map ct_ents (concat (cs_ver sv)).

Definition content (h : heap) (sv : csv) : list entry := concat (containers h sv).

(** first container, in lookup order, with a version of [k] visible at [S]; inside a
    container Memtable::get / Table::get = [slab_get] (Model/Tree.v) *)
Fixpoint lookup_first (cs : list (list entry)) (k : key) (S : N) : option entry :=
  match cs with
  | [] => None
  | c :: cs' => match slab_get c k S with Some e => Some e | None => lookup_first cs' k S end
  end.

(** Tree::get_internal_entry_from_version (ignore_tombstone_value = [visible]) *)
Definition cget (h : heap) (sv : csv) (k : key) (S : N) : option entry :=
  visible (lookup_first (containers h sv) k S).

(** * 2. The version history (src/version/super_version.rs) *)

(** get_version_for_snapshot; [None] = the `expect` panics *)
Definition cvfs (hist : list csv) (S : N) : option csv :=
  if S =? 0 then hd_error hist
  else find (fun sv => cs_seq sv <? S) (rev hist).

(** maintenance *)
Definition cmaint (hist : list csv) (W : N) : list csv :=
  if W =? 0 then hist
  else if Nat.ltb (length hist - 1) 1 then hist
  else match rposition (fun sv => cs_seq sv <? W) hist with
       | Some hi => skipn hi hist
       | None => hist
       end.

(** latest_version *)
Definition clatest (hist : list csv) : option csv := hd_error (rev hist).

(** replace_latest_version *)
Definition creplace (hist : list csv) (sv : csv) : list csv :=
  match hist with [] => [] | _ :: _ => removelast hist ++ [sv] end.

(** * 3. Version transformations at content level (src/version/mod.rs) *)

Definition t_kept (ids : list N) (t : ctable) : bool := negb (mem_in (ct_id t) ids).

(** [retain(|x| !ids.contains(x.id))] on every run of every level *)
Definition v_remove (ids : list N) (v : cversion) : cversion := map (filter (t_kept ids)) v.

(** [runs.insert(0, run)] at level [d]; if [d >= level_count] nothing is inserted *)
Fixpoint v_insert (d : nat) (ts : list ctable) (v : cversion) : cversion :=
  match v with
  | [] => []
  | l :: v' =>
      match d with
      | O => (ts ++ l) :: v'
      | S d' => l :: v_insert d' ts v'
      end
  end.

(** Version::with_merge *)
Definition v_merge (v : cversion) (ids : list N) (ts : list ctable) (d : nat) : cversion :=
  v_insert d ts (v_remove ids v).

(** Version::with_new_l0_run *)
Definition v_flush (v : cversion) (ts : list ctable) : cversion := v_insert 0 ts v.

(** tables with their level index, in lookup order *)
Fixpoint tag_levels (i : nat) (v : cversion) : list (nat * ctable) :=
  match v with
  | [] => []
  | l :: v' => map (pair i) l ++ tag_levels (S i) v'
  end.

(** Run::new(tables) is None for an empty vector; the writer's output at content level is
    one table (MultiWriter splits it into a run of key-disjoint tables) *)
Definition mk_out (id : N) (es : list entry) : list ctable :=
  match es with [] => [] | _ :: _ => [mkCT id es] end.

Definition LAST_LEVEL : nat := 6.
Definition LEVEL_COUNT : nat := 7.

Definition empty_version : cversion := repeat [] LEVEL_COUNT.

(** * 4. Threads *)

(** the writer's program: inserts and (strong) deletes; no weak tombstones *)
Inductive wop := Put (k : key) (v : list N) | Del (k : key).

Definition wop_entry (o : wop) (s : N) : entry :=
  match o with
  | Put k v => mkE k s Value v
  | Del k => mkE k s Tomb []
  end.

(** writer pc (src/seqno.rs, the protocol of the doc comment):
    W1 [seqno.next()] -> W2 [Tree::append_entry] -> W3 [visible_seqno.fetch_max(seq+1)] *)
Inductive wst := WIdle | WDrawn (e : entry) | WIns (e : entry).

(** reader pc: RA [S := visible_seqno.get(); register S with the snapshot tracker]
    -> per key: RB [read guard; get_version_for_snapshot(S); release]
                RC [read from the pinned clone]
    -> RD [release the snapshot].  [clean] is a ghost flag: no write with seqno < S was
    drawn but not yet inserted when S was taken *)
Inductive rst :=
| RInit
| RSnap (S : N) (clean : bool)
| RPin (S : N) (clean : bool) (sv : csv)
| RDone.

(** flusher pc (src/abstract_tree.rs: flush; src/tree/mod.rs: register_tables) *)
Inductive fst_ :=
| FIdle
| FCapt (W : N) (ids : list N)
| FBuilt (W : N) (ids : list N) (out : list ctable).

(** a compaction job = the strategy's [Choice::Merge] payload (or a major compaction) plus
    the GC watermark the caller passes *)
Record cjob := mkJob { j_major : bool; j_ids : list N; j_dest : nat; j_wreq : N }.

(** compactor pc (src/compaction/worker.rs: do_compaction / merge_tables);
    [inp]: the chosen tables with their level, cloned under the lock; [oid]: the table id
    drawn by prepare_table_writer under the lock *)
Inductive kst :=
| KIdle
| KChosen (W : N) (maj : bool) (dest : nat) (oid : N) (inp : list (nat * ctable))
| KMerged (W : N) (maj : bool) (dest : nat) (inp : list (nat * ctable)) (out : list ctable).

Inductive thread :=
| TReader (keys : list key) (s : rst)
| TRotator (n : nat)
| TFlusher (prog : list N) (s : fst_)       (* one requested watermark per flush call *)
| TCompactor (prog : list cjob) (s : kst).

Record obs := mkObs { o_rid : nat; o_key : key; o_S : N; o_clean : bool; o_res : option entry }.

(** shared state: the tree (version history, memtable store, hidden set), the counters
    config.seqno / config.visible_seqno / table_id_counter / memtable_id_counter, the
    writer's pc; ghost: [s_log] (entries inserted so far, in order), [s_wpub] (the highest
    seqno+1 the WRITER itself has published) *)
Record shr := mkS {
  s_hist : list csv; s_heap : heap;
  s_ctr : N; s_vis : N; s_ntid : N; s_nmid : N;
  s_hidden : list N;
  s_wst : wst;
  s_log : list entry; s_wpub : N }.

Record cstate := mkC {
  c_sh : shr;
  c_wprog : list wop;
  c_thr : list thread;
  c_obs : list obs;
  c_bad : bool;       (* a compaction choice violated [strategy_ok] *)
  c_panic : bool }.   (* an `expect` fired *)

(** ** lock state as a function of the pcs *)

Definition busy_flusher (t : thread) : bool :=
  match t with
  | TFlusher _ (FCapt _ _) | TFlusher _ (FBuilt _ _ _) => true
  | _ => false
  end.

(** in-flight compaction: (major?, dest, inputs) *)
Definition inflight (t : thread) : option (bool * nat * list (nat * ctable)) :=
  match t with
  | TCompactor _ (KChosen _ maj d _ inp) => Some (maj, d, inp)
  | TCompactor _ (KMerged _ maj d inp _) => Some (maj, d, inp)
  | _ => None
  end.

Definition is_inflight (t : thread) : bool :=
  match inflight t with Some _ => true | None => false end.

Definition is_inflight_major (t : thread) : bool :=
  match inflight t with Some (maj, _, _) => maj | None => false end.

Definition inp_ids (inp : list (nat * ctable)) : list N := map (fun p => ct_id (snd p)) inp.

(** ** the snapshot tracker: the watermark that is safe to hand to flush / compact *)

Definition live_snap (t : thread) : option N :=
  match t with
  | TReader _ (RSnap sn _) | TReader _ (RPin sn _ _) => Some sn
  | _ => None
  end.

Definition safe_wm (vis : N) (ths : list thread) : N :=
  fold_right (fun t acc => match live_snap t with Some sn => N.min sn acc | None => acc end) vis ths.

Fixpoint set_nth {A} (i : nat) (x : A) (l : list A) : list A :=
  match l with
  | [] => []
  | y :: l' => match i with O => x :: l' | S i' => y :: set_nth i' x l' end
  end.

(** * 5. The compaction choice *)

Definition newer_t (a b : ctable) : bool := newer_than (ct_ents a) (ct_ents b).

Definition kdisj (a b : list entry) : bool :=
  forallb (fun e => forallb (fun e' => negb (key_eqb (ukey e) (ukey e'))) b) a.

Definition kdisj_t (a b : ctable) : bool := kdisj (ct_ents a) (ct_ents b).

Definition sel_in (ids : list N) (p : nat * ctable) : bool := mem_in (ct_id (snd p)) ids.

(** the chosen tables, with their levels, in the order create_compaction_stream visits them *)
Definition chosen (ids : list N) (v : cversion) : list (nat * ctable) :=
  filter (sel_in ids) (tag_levels 0 v).

Definition unchosen (ids : list N) (v : cversion) : list (nat * ctable) :=
  filter (fun p => negb (sel_in ids p)) (tag_levels 0 v).

(** what worker.rs itself checks before it runs a merge: no chosen id is hidden
    (should_decline_compaction) and every chosen id names a table of the current version
    ([get_table(id)] for all ids) *)
Definition rust_checks (hidden : list N) (v : cversion) (ids : list N) : bool :=
  forallb (fun id => negb (mem_in id hidden)) ids
  && forallb (fun id => mem_in id (map ct_id (concat v))) ids.

(** two in-flight compactions into the SAME level must not share a key between the inputs
    one of them has AT that level and the inputs of the other: both outputs go to the front
    of that level, in the order the two happen to finish *)
Definition pw_ok (dest : nat) (inp : list (nat * ctable)) (u : thread) : bool :=
  match inflight u with
  | None => true
  | Some (_, d', inp') =>
      negb (Nat.eqb d' dest)
      || (forallb (fun p => negb (Nat.eqb (fst p) dest)
                            || forallb (fun q => kdisj_t (snd p) (snd q)) inp') inp
          && forallb (fun q => negb (Nat.eqb (fst q) dest)
                               || forallb (fun p => kdisj_t (snd q) (snd p)) inp) inp')
  end.

(** the obligation on a compaction strategy ([choice_ok] of the task):
    - ids without repetition (a HashSet in the crate), 1 <= dest < level_count;
    - (D) data moves down: every chosen table lives at a level <= dest;
    - (P2) every other table above dest (level < dest) is newer than every chosen table
           on every key they share;
    - (P3) every chosen table is newer than every other table at level >= dest on every
           key they share;
    - (P4) when tombstones are evicted (dest = last level) the chosen tables share no key
           with any other table at level >= dest;
    - (PW) [pw_ok] against every in-flight compaction. *)
Definition strategy_ok (ths : list thread) (v : cversion) (ids : list N) (dest : nat) : bool :=
  let inp := chosen ids v in
  nodup_N_b ids
  && Nat.leb 1 dest && Nat.ltb dest LEVEL_COUNT
  && forallb (fun p => Nat.leb (fst p) dest) inp
  && forallb (fun q =>
       if Nat.ltb (fst q) dest
       then forallb (fun p => newer_t (snd q) (snd p)) inp
       else forallb (fun p => newer_t (snd p) (snd q)) inp
            && (negb (Nat.eqb dest LAST_LEVEL)
                || forallb (fun p => kdisj_t (snd p) (snd q)) inp))
     (unchosen ids v)
  && forallb (pw_ok dest inp) ths.

(** [choice_ok]: what makes a [Choice::Merge] safe to run concurrently with the writer,
    rotations, flushes and the other in-flight compactions: the checks worker.rs performs
    itself plus the obligation on the strategy.  K1 runs every choice that passes
    [rust_checks] (as the crate does) and raises the flag [c_bad] when [strategy_ok] fails;
    the theorems of Proofs/Conc.v are about runs in which the flag stays down. *)
Definition choice_ok (hidden : list N) (ths : list thread) (v : cversion) (ids : list N)
           (dest : nat) : bool :=
  rust_checks hidden v ids && strategy_ok ths v ids dest.

(** * 6. Steps *)

(** ** writer (thread id 0) *)
Definition wstep (sh : shr) (prog : list wop) : option (shr * list wop * bool) :=
  match s_wst sh with
  | WIdle =>
      match prog with
      | [] => None
      | o :: rest =>
          (* W1  caller: [let seq = seqno.next()] *)
          Some (mkS (s_hist sh) (s_heap sh) (s_ctr sh + 1) (s_vis sh) (s_ntid sh) (s_nmid sh)
                    (s_hidden sh) (WDrawn (wop_entry o (s_ctr sh))) (s_log sh) (s_wpub sh),
                rest, false)
      end
  | WDrawn e =>
      (* W2  Tree::append_entry: read guard; latest_version().active_memtable.insert(e) *)
      match clatest (s_hist sh) with
      | None => Some (sh, prog, true)
      | Some l =>
          Some (mkS (s_hist sh) (heap_ins (s_heap sh) (cs_active l) e) (s_ctr sh) (s_vis sh)
                    (s_ntid sh) (s_nmid sh) (s_hidden sh) (WIns e) (s_log sh ++ [e]) (s_wpub sh),
                prog, false)
      end
  | WIns e =>
      (* W3  caller: [visible_seqno.fetch_max(seq + 1)] *)
      Some (mkS (s_hist sh) (s_heap sh) (s_ctr sh) (N.max (s_vis sh) (seq e + 1)) (s_ntid sh)
                (s_nmid sh) (s_hidden sh) WIdle (s_log sh) (N.max (s_wpub sh) (seq e + 1)),
            prog, false)
  end.

(** ghost: is a snapshot taken now free of drawn-but-not-inserted writes below it? *)
Definition snap_clean (sh : shr) : bool :=
  match s_wst sh with
  | WDrawn p => s_vis sh <=? seq p
  | _ => true
  end.

(** SuperVersions::upgrade_version + maintenance, as every installer does it:
    [seqno.next()], append, [visible_seqno.fetch_max(seqno + 1)], then GC with [W] *)
Definition install (sh : shr) (sv_of : N -> csv) (W : N) (hidden' : list N) : shr :=
  let s := s_ctr sh in
  mkS (cmaint (s_hist sh ++ [sv_of s]) W) (s_heap sh) (s + 1) (N.max (s_vis sh) (s + 1))
      (s_ntid sh) (s_nmid sh) hidden' (s_wst sh) (s_log sh) (s_wpub sh).

Definition set_ntid (sh : shr) (n : N) : shr :=
  mkS (s_hist sh) (s_heap sh) (s_ctr sh) (s_vis sh) n (s_nmid sh) (s_hidden sh) (s_wst sh)
      (s_log sh) (s_wpub sh).

Definition set_hidden (sh : shr) (hd : list N) : shr :=
  mkS (s_hist sh) (s_heap sh) (s_ctr sh) (s_vis sh) (s_ntid sh) (s_nmid sh) hd (s_wst sh)
      (s_log sh) (s_wpub sh).

(** result of a thread step: new shared state, new thread state, observations, bad-choice
    flag, panic flag *)
Definition tres : Type := shr * thread * list obs * bool * bool.

Definition ok_res (sh : shr) (t : thread) : option tres := Some (sh, t, [], false, false).

(** ** reader *)
Definition rstep (i : nat) (sh : shr) (keys : list key) (s : rst) : option tres :=
  match s with
  | RInit =>
      (* RA *)
      ok_res sh (TReader keys (RSnap (s_vis sh) (snap_clean sh)))
  | RSnap sn cl =>
      match keys with
      | [] => ok_res sh (TReader [] RDone)                         (* RD *)
      | _ :: _ =>
          (* RB  get_internal_entry: read guard, get_version_for_snapshot(S) *)
          match cvfs (s_hist sh) sn with
          | None => Some (sh, TReader keys s, [], false, true)     (* `expect` fires *)
          | Some sv => ok_res sh (TReader keys (RPin sn cl sv))
          end
      end
  | RPin sn cl sv =>
      match keys with
      | [] => ok_res sh (TReader [] (RSnap sn cl))
      | k :: rest =>
          (* RC  get_internal_entry_from_version on the clone, no lock *)
          Some (sh, TReader rest (RSnap sn cl),
                [mkObs i k sn cl (cget (s_heap sh) sv k sn)], false, false)
      end
  | RDone => None
  end.

(** ** rotator (src/tree/mod.rs: rotate_memtable, under the write guard) *)
Definition rotstep (sh : shr) (n : nat) : option tres :=
  match n with
  | O => None
  | S n' =>
      match clatest (s_hist sh) with
      | None => Some (sh, TRotator n, [], false, true)
      | Some l =>
          match heap_get (s_heap sh) (cs_active l) with
          | [] => ok_res sh (TRotator n')                         (* active memtable empty *)
          | _ :: _ =>
              ok_res (mkS (creplace (s_hist sh)
                             (mkCSV (cs_seq l) (s_nmid sh) (cs_sealed l ++ [cs_active l]) (cs_ver l)))
                          (s_heap sh) (s_ctr sh) (s_vis sh) (s_ntid sh) (s_nmid sh + 1)
                          (s_hidden sh) (s_wst sh) (s_log sh) (s_wpub sh))
                     (TRotator n')
          end
      end
  end.

(** ** flusher *)
Definition fstep (sh : shr) (ths : list thread) (prog : list N) (s : fst_) : option tres :=
  match s with
  | FIdle =>
      match prog with
      | [] => None
      | wreq :: rest =>
          (* F1  caller takes flush_lock; flush: guard, snapshot the sealed memtables *)
          if existsb busy_flusher ths then None                    (* flush_lock is held *)
          else match clatest (s_hist sh) with
               | None => Some (sh, TFlusher prog s, [], false, true)
               | Some l =>
                   match cs_sealed l with
                   | [] => ok_res sh (TFlusher rest FIdle)         (* Ok(None) *)
                   | _ :: _ =>
                       ok_res sh (TFlusher prog
                                    (FCapt (N.min wreq (safe_wm (s_vis sh) ths)) (cs_sealed l)))
                   end
               end
      end
  | FCapt W ids =>
      (* F2  flush_to_tables, no lock: Merger over the captured memtables, CompactionStream
             with the watermark, MultiWriter draws the table id *)
      let out := fst (run_stream W false no_filter
                        (merge_sorted (map (heap_get (s_heap sh)) ids))) in
      ok_res (set_ntid sh (s_ntid sh + 1)) (TFlusher prog (FBuilt W ids (mk_out (s_ntid sh) out)))
  | FBuilt W ids out =>
      (* F3  register_tables: compaction_state + write guard; the issue-287 check *)
      match clatest (s_hist sh) with
      | None => Some (sh, TFlusher prog s, [], false, true)
      | Some l =>
          if forallb (fun id => mem_in id (cs_sealed l)) ids
          then ok_res (install sh
                         (fun c => mkCSV c (cs_active l)
                                     (filter (fun m => negb (mem_in m ids)) (cs_sealed l))
                                     (v_flush (cs_ver l) out))
                         W (s_hidden sh))
                      (TFlusher (tl prog) FIdle)
          else ok_res sh (TFlusher (tl prog) FIdle)
      end
  end.

(** ** compactor *)
Definition kstep (sh : shr) (ths : list thread) (prog : list cjob) (s : kst) : option tres :=
  match s with
  | KIdle =>
      match prog with
      | [] => None
      | job :: rest =>
          (* major_compaction_lock: write for major_compact, read for compact *)
          if (if j_major job then existsb is_inflight ths else existsb is_inflight_major ths)
          then None
          else
          (* K1  do_compaction: compaction_state lock + read guard, choose, checks, clone the
                 tables, prepare_table_writer, hide *)
          match clatest (s_hist sh) with
          | None => Some (sh, TCompactor prog s, [], false, true)
          | Some l =>
              let v := cs_ver l in
              let ids := if j_major job then map ct_id (concat v) else j_ids job in
              let dest := if j_major job then LAST_LEVEL else j_dest job in
              if rust_checks (s_hidden sh) v ids
              then Some (mkS (s_hist sh) (s_heap sh) (s_ctr sh) (s_vis sh) (s_ntid sh + 1)
                             (s_nmid sh) (ids ++ s_hidden sh) (s_wst sh) (s_log sh) (s_wpub sh),
                         TCompactor prog
                           (KChosen (N.min (j_wreq job) (safe_wm (s_vis sh) ths)) (j_major job)
                                    dest (s_ntid sh) (chosen ids v)),
                         [], negb (strategy_ok ths v ids dest), false)
              else ok_res sh (TCompactor rest KIdle)               (* declined: Ok(()) *)
          end
      end
  | KChosen W maj dest oid inp =>
      (* K2  the merge, no lock; tombstones are evicted iff dest is the last level *)
      let out := fst (run_stream W (Nat.eqb dest LAST_LEVEL) no_filter
                        (merge_sorted (map (fun p => ct_ents (snd p)) inp))) in
      ok_res sh (TCompactor prog (KMerged W maj dest inp (mk_out oid out)))
  | KMerged W maj dest inp out =>
      (* K3  compaction_state lock + write guard: with_merge on the CURRENT latest version,
             upgrade_version, show, maintenance *)
      match clatest (s_hist sh) with
      | None => Some (sh, TCompactor prog s, [], false, true)
      | Some l =>
          let ids := inp_ids inp in
          ok_res (install sh
                    (fun c => mkCSV c (cs_active l) (cs_sealed l) (v_merge (cs_ver l) ids out dest))
                    W (filter (fun x => negb (mem_in x ids)) (s_hidden sh)))
                 (TCompactor (tl prog) KIdle)
      end
  end.

Definition tstep (i : nat) (sh : shr) (ths : list thread) (t : thread) : option tres :=
  match t with
  | TReader keys s => rstep i sh keys s
  | TRotator n => rotstep sh n
  | TFlusher prog s => fstep sh ths prog s
  | TCompactor prog s => kstep sh ths prog s
  end.

(** one step of thread [tid] (0 = the writer, [S i] = the i-th other thread);
    [None]: not enabled (finished, blocked on a lock, or the process has panicked) *)
Definition cstep (st : cstate) (tid : nat) : option cstate :=
  if c_panic st then None
  else match tid with
       | O =>
           match wstep (c_sh st) (c_wprog st) with
           | None => None
           | Some (sh', prog', p) =>
               Some (mkC sh' prog' (c_thr st) (c_obs st) (c_bad st) p)
           end
       | S i =>
           match nth_error (c_thr st) i with
           | None => None
           | Some t =>
               match tstep i (c_sh st) (c_thr st) t with
               | None => None
               | Some (sh', t', os, b, p) =>
                   Some (mkC sh' (c_wprog st) (set_nth i t' (c_thr st)) (c_obs st ++ os)
                             (c_bad st || b) p)
               end
           end
       end.

(** a schedule is a list of thread ids; picks that are not enabled are skipped *)
Definition crun (st : cstate) (sched : list nat) : cstate :=
  fold_left (fun s tid => match cstep s tid with Some s' => s' | None => s end) sched st.

(** ** initial and final states *)

(** SuperVersions::new, TreeInner::create_new (memtable ids start at 1, table ids at 0) *)
Definition sh_init : shr :=
  mkS [mkCSV 0 0 [] empty_version] [] 0 0 0 1 [] WIdle [] 0.

Definition cinit (wprog : list wop) (ths : list thread) : cstate :=
  mkC sh_init wprog ths [] false false.

Definition thread_fresh (t : thread) : bool :=
  match t with
  | TReader _ RInit | TRotator _ | TFlusher _ FIdle | TCompactor _ KIdle => true
  | _ => false
  end.

Definition thread_done (t : thread) : bool :=
  match t with
  | TReader _ RDone | TRotator O | TFlusher [] FIdle | TCompactor [] KIdle => true
  | _ => false
  end.

Definition all_done (st : cstate) : bool :=
  match c_wprog st, s_wst (c_sh st) with
  | [], WIdle => forallb thread_done (c_thr st)
  | _, _ => false
  end.

(** what a reader that arrives after everything has finished sees *)
Definition final_get (st : cstate) (k : key) : option entry :=
  match clatest (s_hist (c_sh st)) with
  | Some l => cget (s_heap (c_sh st)) l k (s_vis (c_sh st))
  | None => None
  end.

(** last-write-wins over the first [n] operations of the writer's program: the schedule-
    independent meaning of a read that sees exactly [n] writes *)
Definition wop_key (o : wop) : key := match o with Put k _ | Del k => k end.

Definition prog_get (prog : list wop) (n : nat) (k : key) : option (list N) :=
  match find (fun o => key_eqb (wop_key o) k) (rev (firstn n prog)) with
  | Some (Put _ v) => Some v
  | _ => None
  end.

Definition res_val (r : option entry) : option (list N) :=
  match r with Some e => Some (val e) | None => None end.

(** how many of the inserted writes a snapshot covers *)
Definition covered (log : list entry) (sn : N) : nat :=
  length (filter (fun e => seq e <? sn) log).
