(** Entries (InternalValue), the internal-key order and the ordered-map Spec.
    Mirrors: src/key.rs (InternalKey, Ord), src/value.rs, src/value_type.rs. *)
From LsmV Require Export Base.Bytes.
Open Scope N_scope.

Inductive vtype := Value | Tomb | WeakTomb | Ind.

Definition vtype_eqb (a b : vtype) : bool :=
  match a, b with
  | Value, Value | Tomb, Tomb | WeakTomb, WeakTomb | Ind, Ind => true
  | _, _ => false
  end.

Record entry := mkE { ukey : key; seq : N; ty : vtype; val : list N }.

(** ValueType::is_tombstone *)
Definition is_tomb (e : entry) : bool :=
  match ty e with Tomb | WeakTomb => true | _ => false end.

(** impl Ord for InternalKey: (user_key asc, seqno desc); value type is not compared *)
Definition ikey_ltb (a b : entry) : bool :=
  match key_cmp (ukey a) (ukey b) with
  | Lt => true
  | Gt => false
  | Eq => seq b <? seq a
  end.

Definition ikey_lt (a b : entry) : Prop := ikey_ltb a b = true.

(** impl PartialEq for InternalKey: user_key and seqno *)
Definition ikey_eqb (a b : entry) : bool := key_eqb (ukey a) (ukey b) && (seq a =? seq b).

Fixpoint list_N_eqb (a b : list N) : bool :=
  match a, b with
  | [], [] => true
  | x :: a', y :: b' => (x =? y) && list_N_eqb a' b'
  | _, _ => false
  end.

Definition entry_eqb (a b : entry) : bool :=
  key_eqb (ukey a) (ukey b) && (seq a =? seq b) && vtype_eqb (ty a) (ty b)
  && list_N_eqb (val a) (val b).

(** ** Spec: an ordered map with MVCC over a bag of writes *)

(** does entry [e] match key [k] at snapshot [S] (visible iff seqno < S) *)
Definition matches (k : key) (S : N) (e : entry) : bool := key_eqb (ukey e) k && (seq e <? S).

(** the newest (highest-seqno) entry for [k] visible at [S] in a bag of entries *)
Fixpoint newest (k : key) (S : N) (l : list entry) : option entry :=
  match l with
  | [] => None
  | e :: l' =>
      let r := newest k S l' in
      if matches k S e then
        match r with
        | Some e' => if seq e' <? seq e then Some e else r
        | None => Some e
        end
      else r
  end.

(** what a reader is handed: tombstones (strong or weak) read as absent *)
Definition visible (o : option entry) : option entry :=
  match o with
  | Some e => if is_tomb e then None else Some e
  | None => None
  end.

Definition spec_get (H : list entry) (k : key) (S : N) : option entry := visible (newest k S H).

(** user-key range bounds (std::ops::Bound) *)
Inductive bound := Incl (k : key) | Excl (k : key) | Unb.

Definition lo_ok (lo : bound) (k : key) : bool :=
  match lo with Incl b => key_leb b k | Excl b => key_ltb b k | Unb => true end.
Definition hi_ok (hi : bound) (k : key) : bool :=
  match hi with Incl b => key_leb k b | Excl b => key_ltb k b | Unb => true end.
Definition in_bounds (lo hi : bound) (k : key) : bool := lo_ok lo k && hi_ok hi k.

(** sorted insertion of a key into a strictly ascending key list (set semantics) *)
Fixpoint key_insert (k : key) (l : list key) : list key :=
  match l with
  | [] => [k]
  | x :: l' =>
      match key_cmp k x with
      | Lt => k :: l
      | Eq => l
      | Gt => x :: key_insert k l'
      end
  end.

Definition keys_of (H : list entry) : list key :=
  fold_right (fun e acc => key_insert (ukey e) acc) [] H.

(** [spec_range H lo hi S]: ascending, each live key of H inside the bounds once,
    with the entry [spec_get] returns for it *)
Definition spec_range (H : list entry) (lo hi : bound) (S : N) : list entry :=
  flat_map (fun k => if in_bounds lo hi k
                     then match spec_get H k S with Some e => [e] | None => [] end
                     else [])
           (keys_of H).
