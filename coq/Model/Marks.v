(** Sequence-number high-water marks as the crate computes them.
    Mirrors: src/tree/mod.rs (get_highest_persisted_seqno, get_highest_memtable_seqno),
    src/abstract_tree.rs (get_highest_seqno), src/table/mod.rs (Table::get_highest_seqno =
    metadata.seqnos.1 + global_seqno), src/memtable/mod.rs (get_highest_seqno: None when
    empty, else the running fetch_max of inserted seqnos). *)
From LsmV Require Export Model.Cert.
Open Scope N_scope.

(** Option<u64>::max : None < Some *)
Definition omax := opt_max.

(** iter_tables().map(Table::get_highest_seqno).max() *)
Definition impl_highest_persisted (sv : superversion) : option N :=
  fold_left (fun acc t => omax acc (Some (shi t + gseq t))) (all_tables (ver sv)) None.

(** Memtable::get_highest_seqno *)
Definition mt_highest (m : memtable) : option N :=
  match ments m with [] => None | _ => Some (max_seq (ments m)) end.

(** active.max(sealed.map(get_highest_seqno).max().flatten()) *)
Definition impl_highest_memtable (sv : superversion) : option N :=
  omax (mt_highest (active sv))
       (fold_left (fun acc m => omax acc (mt_highest m)) (sealed sv) None).

Definition impl_highest (sv : superversion) : option N :=
  omax (impl_highest_memtable sv) (impl_highest_persisted sv).
