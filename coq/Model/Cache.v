(** Block cache / descriptor table as an arbitrary partial map.
    Mirrors: src/cache.rs (CacheKey(tag, tree id, table or blob-file id, offset); get_block /
    insert_block / get_blob / insert_blob), src/table/util.rs load_block (cache hit, else
    read the file and insert), src/descriptor_table.rs (fd cache keyed by GlobalTableId).
    quick_cache itself is NOT modelled: the cache is ANY partial function that only ever
    returns what was inserted under that key (it may forget anything at any time:
    capacity 0 = always empty). *)
From Coq Require Import List NArith Bool.
Import ListNotations.
Open Scope N_scope.

Record ckey := mkCK { ck_tag : N; ck_tree : N; ck_file : N; ck_off : N }.

Definition ckey_eqb (a b : ckey) : bool :=
  (ck_tag a =? ck_tag b) && (ck_tree a =? ck_tree b) && (ck_file a =? ck_file b) && (ck_off a =? ck_off b).

Definition block := list N.

(** an association list, newest binding first; eviction = dropping any bindings *)
Definition cache := list (ckey * block).

Fixpoint cache_get (c : cache) (k : ckey) : option block :=
  match c with
  | [] => None
  | (k', b) :: c' => if ckey_eqb k' k then Some b else cache_get c' k
  end.

Definition cache_insert (c : cache) (k : ckey) (b : block) : cache := (k, b) :: c.

(** what reading the file at that position returns: files are written once and ids are
    never reused under one tree id (table / blob ids come from monotone counters; a reopen
    gets a fresh process-unique tree id), so this is a function of the key *)
Definition disk := ckey -> block.

(** load_block: cache hit, else read + insert *)
Definition load (c : cache) (d : disk) (k : ckey) : block * cache :=
  match cache_get c k with
  | Some b => (b, c)
  | None => (d k, cache_insert c k (d k))
  end.

(** a sequence of loads interleaved with arbitrary evictions ([keep] decides which
    bindings survive before each load) *)
Fixpoint loads (c : cache) (d : disk) (keep : list (ckey -> bool)) (ks : list ckey) : list block :=
  match ks with
  | [] => []
  | k :: ks' =>
      let c1 := match keep with f :: _ => filter (fun kb => f (fst kb)) c | [] => c end in
      let '(b, c2) := load c1 d k in
      b :: loads c2 d (tl keep) ks'
  end.
