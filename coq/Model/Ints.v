(** Integer codecs used by the crate's on-disk formats.

    Bytes are [N] values [< 256]; byte strings are [list N].

    Sources
    - fixed width: [byteorder-lite 0.1.0] [WriteBytesExt::write_u{16,32,64,128}::<LittleEndian>]
      / [ReadBytesExt::read_u..] (the crate uses LittleEndian everywhere on disk:
      src/version/mod.rs, src/version/recovery.rs, src/version/persist.rs,
      src/table/block/trailer.rs, src/table/filter/standard_bloom/*.rs,
      src/vlog/blob_file/{writer,reader,scanner,meta}.rs, src/table/meta.rs).
      BigEndian is never used for on-disk integers (only [to_be_bytes] for building
      test keys and src/key_range.rs:150), it is modelled for completeness.
    - varint: [varint-rs 2.2.1] src/lib.rs, macros [write_varint!] (l.270-290) and
      [read_varint!] (l.84-105), instantiated at u16/u32/u64 by
      src/table/data_block/mod.rs, src/table/index_block/block_handle.rs,
      src/vlog/handle.rs, src/blob_tree/handle.rs.

    All definitions are total and computable. *)
From LsmV Require Export Base.Bytes.
Open Scope N_scope.

(** ** Casts *)

(** Rust [x as uW] on an unsigned integer: keep the low [bits] bits. *)
Definition trunc (bits : N) (n : N) : N := n mod 2 ^ bits.

(** ** Fixed-width encoders *)

(** [n.to_le_bytes()] for a [w]-byte unsigned type, applied to the low [8w] bits of [n]
    (byteorder [write_uN::<LittleEndian>]). The model takes any [N]; what reaches the
    file are the low [8*w] bits, which is exactly what a preceding [as uN] cast leaves
    (theorem [le_bytes_trunc] in Proofs/Ints.v). *)
Fixpoint le_bytes (n : N) (w : nat) : list N :=
  match w with
  | O => []
  | S w' => (n mod 256) :: le_bytes (n / 256) w'
  end.

(** byteorder [write_uN::<BigEndian>] / [to_be_bytes] *)
Definition be_bytes (n : N) (w : nat) : list N := rev (le_bytes n w).

(** ** Fixed-width decoders *)

(** [uN::from_le_bytes] of a byte string *)
Fixpoint le_value (l : list N) : N :=
  match l with
  | [] => 0
  | b :: l' => b + 256 * le_value l'
  end.

(** [uN::from_be_bytes] of a byte string *)
Fixpoint be_value_acc (acc : N) (l : list N) : N :=
  match l with
  | [] => acc
  | b :: l' => be_value_acc (acc * 256 + b) l'
  end.
Definition be_value (l : list N) : N := be_value_acc 0 l.

(** [Read::read_exact] of [w] bytes from a cursor: [None] = UnexpectedEof *)
Fixpoint take_bytes (w : nat) (l : list N) : option (list N * list N) :=
  match w with
  | O => Some ([], l)
  | S w' =>
      match l with
      | [] => None
      | b :: l' =>
          match take_bytes w' l' with
          | Some (a, r) => Some (b :: a, r)
          | None => None
          end
      end
  end.

(** byteorder [read_uN::<LittleEndian>] with N = 8*w: value and remaining input *)
Definition read_le (w : nat) (l : list N) : option (N * list N) :=
  match take_bytes w l with
  | Some (a, r) => Some (le_value a, r)
  | None => None
  end.

(** byteorder [read_uN::<BigEndian>] *)
Definition read_be (w : nat) (l : list N) : option (N * list N) :=
  match take_bytes w l with
  | Some (a, r) => Some (be_value a, r)
  | None => None
  end.

Definition write_u8 (n : N) : list N := le_bytes n 1.
Definition write_u16_le (n : N) : list N := le_bytes n 2.
Definition write_u32_le (n : N) : list N := le_bytes n 4.
Definition write_u64_le (n : N) : list N := le_bytes n 8.
Definition write_u128_le (n : N) : list N := le_bytes n 16.
Definition read_u8 := read_le 1.
Definition read_u16_le := read_le 2.
Definition read_u32_le := read_le 4.
Definition read_u64_le := read_le 8.
Definition read_u128_le := read_le 16.

(** ** Varint (LEB128, unsigned) *)

(** varint-rs src/lib.rs: [write_varint!] (l.270-290).
<<
   if value == 0 { write(0) } else {
     while value >= 0x80 { write((value & 0x7f) as u8 | 0x80); value >>= 7; }
     write((value & 0x7f) as u8) }
>>
    The macro body does not depend on the integer type except through the domain of
    [value]; [fuel] bounds the loop ([encode_varint] supplies enough). *)
Fixpoint write_varint_go (fuel : nat) (v : N) : list N :=
  match fuel with
  | O => [N.land v 127]
  | S f =>
      if 128 <=? v
      then N.lor (N.land v 127) 128 :: write_varint_go f (N.shiftr v 7)
      else [N.land v 127]
  end.

Definition encode_varint (v : N) : list N :=
  if v =? 0 then [0] else write_varint_go (N.to_nat (N.size v)) v.

(** typed entry points; the [trunc] models the [as u16]/[as u32] cast that the crate
    performs at the call sites (e.g. src/table/data_block/mod.rs:208,214,237,242,259:
    [key.len() as u16], [value.len() as u32]). *)
Definition write_u16_varint (v : N) : list N := encode_varint (trunc 16 v).
Definition write_u32_varint (v : N) : list N := encode_varint (trunc 32 v).
Definition write_u64_varint (v : N) : list N := encode_varint (trunc 64 v).

(** Outcome of [read_varint!]:
    - [VOk n rest]
    - [VEof]: the reader ran dry ([io::ErrorKind::UnexpectedEof])
    - [VShiftPanic]: a continuation bit was set on the byte whose [shift] would reach
      the type width, so the next [<< shift] is an arithmetic overflow: a *panic* in
      builds with overflow checks (debug/test profile), and a masked shift in release
      (see [read_varint_release_go]). There is NO length check and NO error for
      overlong input in varint-rs. *)
Inductive vres := VOk (n : N) (rest : list N) | VEof | VShiftPanic.

(** varint-rs src/lib.rs: [read_varint!] (l.84-105), for a type of [bits] bits, as
    compiled with overflow checks.
<<
   let mut shift: T = 0; let mut decoded: T = 0;
   loop { next = read()?;
          decoded |= ((next & 0x7f) as T) << shift;      // bits shifted out are LOST
          if next & 0x80 == 0x80 { shift += 7 } else { return Ok(decoded) } }
>> *)
Fixpoint read_varint_go (bits shift decoded : N) (l : list N) : vres :=
  match l with
  | [] => VEof
  | next :: l' =>
      if bits <=? shift then VShiftPanic
      else
        let decoded' := N.lor decoded ((N.land next 127 * 2 ^ shift) mod 2 ^ bits) in
        if N.land next 128 =? 128
        then read_varint_go bits (shift + 7) decoded' l'
        else VOk decoded' l'
  end.

Definition read_varint (bits : N) (l : list N) : vres := read_varint_go bits 0 0 l.

(** the same macro compiled WITHOUT overflow checks (release profile): [<<] masks the
    shift amount to [shift mod bits] ([bits] is a power of two that divides [2^bits],
    so the wrap-around of [shift += 7] itself is absorbed by the mask). *)
Fixpoint read_varint_release_go (bits shift decoded : N) (l : list N) : option (N * list N) :=
  match l with
  | [] => None
  | next :: l' =>
      let decoded' :=
        N.lor decoded ((N.land next 127 * 2 ^ (shift mod bits)) mod 2 ^ bits) in
      if N.land next 128 =? 128
      then read_varint_release_go bits (shift + 7) decoded' l'
      else Some (decoded', l')
  end.

Definition read_varint_release (bits : N) (l : list N) : option (N * list N) :=
  read_varint_release_go bits 0 0 l.

(** [Result]-level view used by the other codecs: error and panic both are "no value" *)
Definition decode_varint (bits : N) (l : list N) : option (N * list N) :=
  match read_varint bits l with
  | VOk n rest => Some (n, rest)
  | _ => None
  end.

Definition read_u16_varint := decode_varint 16.
Definition read_u32_varint := decode_varint 32.
Definition read_u64_varint := decode_varint 64.

(** all bytes of a string are real bytes *)
Definition bytes_wf (l : list N) : Prop := Forall (fun b => b < 256) l.
Definition bytes_wfb (l : list N) : bool := forallb (fun b => b <? 256) l.
