(** The version history as an abstract state machine: writes into the shared active
    memtable, memtable rotation, version upgrades (flush / compaction / ingestion /
    drop_range / clear) and history GC, together with the usage protocol of the two
    sequence-number counters.
    Mirrors: src/version/super_version.rs (upgrade_version_with_seqno, append_version,
    replace_latest_version, maintenance, get_version_for_snapshot), src/tree/mod.rs
    (append_entry, rotate_memtable, register_tables, clear), src/memtable/mod.rs
    (Memtable::insert), src/seqno.rs (the protocol in the type's doc comment). *)
From LsmV Require Export Model.History.
Open Scope N_scope.

(** src/memtable/mod.rs: Memtable::insert = crossbeam SkipMap::insert: the entry goes to
    its position in InternalKey order; an existing entry with an equal InternalKey (same
    user key and seqno: neither sorts before the other) is replaced *)
Fixpoint mt_insert (e : entry) (l : list entry) : list entry :=
  match l with
  | [] => [e]
  | x :: l' =>
      if ikey_ltb e x then e :: l
      else if ikey_ltb x e then x :: mt_insert e l'
      else e :: l'
  end.

(** A memtable is one shared object (Arc<Memtable>) referenced by every superversion that
    lists it; the model identifies the object by its id: an insert into memtable [m0]
    is seen through every reference *)
Definition mem_insert (m0 : N) (e : entry) (m : memtable) : memtable :=
  if mid m =? m0 then mkM (mid m) (mt_insert e (ments m)) else m.

Definition sv_write (m0 : N) (e : entry) (sv : superversion) : superversion :=
  mkSV (sv_seq sv) (mem_insert m0 e (active sv)) (map (mem_insert m0 e) (sealed sv)) (ver sv).

(** [hist]: the VecDeque, oldest first; [ctr]: the value the shared seqno counter hands
    out next (config.seqno); [vis]: config.visible_seqno *)
Record hstate := mkH { hist : history; ctr : N; vis : N }.

Inductive hop :=
| HWrite (e : entry)
| HRotate (new_mid : N)
| HUpgrade (f : superversion -> superversion)
| HMaint (W : N).

(** src/tree/mod.rs: rotate_memtable: the copy gets a fresh empty active memtable, the old
    active one is pushed at the end of the sealed list (SealedMemtables::add), the seqno
    is kept *)
Definition sv_rotate (new_mid : N) (sv : superversion) : superversion :=
  mkSV (sv_seq sv) (mkM new_mid []) (sealed sv ++ [active sv]) (ver sv).

(** upgrade_version_with_seqno: [next_version.seqno = seqno] *)
Definition sv_with_seq (s : N) (sv : superversion) : superversion :=
  mkSV s (active sv) (sealed sv) (ver sv).

(** One step.
    - [HWrite e]: seqno.next() by the caller, Tree::append_entry (insert into the active
      memtable of latest_version(), an object shared with every retained superversion
      that references it), then visible_seqno.fetch_max(seq + 1) by the caller.
    - [HRotate id]: Tree::rotate_memtable + SuperVersions::replace_latest_version; nothing
      happens when the active memtable is empty.
    - [HUpgrade f]: SuperVersions::upgrade_version: [f] applied to latest_version(), seqno
      taken from the counter, append_version, visible_seqno.fetch_max(seqno + 1).
    - [HMaint W]: SuperVersions::maintenance.
    An empty history is unreachable (latest_version() panics); the step is then a no-op. *)
Definition hstep (st : hstate) (op : hop) : hstate :=
  match latest (hist st) with
  | None => st
  | Some l =>
      match op with
      | HWrite e =>
          mkH (map (sv_write (mid (active l)) e) (hist st))
              (ctr st + 1) (N.max (vis st) (seq e + 1))
      | HRotate new_mid =>
          match ments (active l) with
          | [] => st
          | _ :: _ => mkH (removelast (hist st) ++ [sv_rotate new_mid l]) (ctr st) (vis st)
          end
      | HUpgrade f =>
          mkH (hist st ++ [sv_with_seq (ctr st) (f l)])
              (ctr st + 1) (N.max (vis st) (ctr st + 1))
      | HMaint W => mkH (maintenance (hist st) W) (ctr st) (vis st)
      end
  end.

Definition hrun (st : hstate) (ops : list hop) : hstate := fold_left hstep ops st.

(** SuperVersions::new + fresh counters *)
Definition hinit (v : version) : hstate := mkH [mkSV 0 (mkM 0 []) [] v] 0 0.

(** ** The usage protocol (src/seqno.rs doc comment; AbstractTree::flush / compact doc:
    the GC watermark must not exceed any snapshot in use) for ONE held snapshot [S] *)

(** a write carries the seqno the counter hands out at that moment; a watermark is at most
    the held snapshot *)
Definition hop_ok (S : N) (st : hstate) (op : hop) : bool :=
  match op with
  | HWrite e => seq e =? ctr st
  | HMaint W => W <=? S
  | HRotate _ | HUpgrade _ => true
  end.

Fixpoint protocol_ok (S : N) (st : hstate) (ops : list hop) : bool :=
  match ops with
  | [] => true
  | op :: ops' => hop_ok S st op && protocol_ok S (hstep st op) ops'
  end.

(** the state-independent consequence that snapshot stability really needs (it also
    covers write batches, whose entries share one seqno) *)
Definition op_ok (S : N) (op : hop) : bool :=
  match op with
  | HWrite e => S <=? seq e
  | HMaint W => W <=? S
  | HRotate _ | HUpgrade _ => true
  end.

(** ** Well-formedness of the memtable references (what makes "identify the object by its
    id" faithful); obligations on the ids drawn from memtable_id_counter and on the
    transition functions passed to upgrade_version *)

Definition all_mts (sv : superversion) : list memtable := active sv :: sealed sv.
Definition hist_mts (h : history) : list memtable := flat_map all_mts h.

Fixpoint list_entry_eqb (a b : list entry) : bool :=
  match a, b with
  | [], [] => true
  | x :: a', y :: b' => entry_eqb x y && list_entry_eqb a' b'
  | _, _ => false
  end.

(** two references with the same id denote the same object, hence the same entries *)
Definition mt_agree (m1 m2 : memtable) : bool :=
  negb (mid m1 =? mid m2) || list_entry_eqb (ments m1) (ments m2).

Definition mts_agree (l1 l2 : list memtable) : bool :=
  forallb (fun m1 => forallb (mt_agree m1) l2) l1.

(** the memtable that receives writes is not also listed as sealed anywhere *)
Definition active_unsealed (a : N) (h : history) : bool :=
  forallb (fun sv => forallb (fun m => negb (mid m =? a)) (sealed sv)) h.

Definition mids_ok (h : history) : bool :=
  mts_agree (hist_mts h) (hist_mts h)
  && match latest h with
     | Some l => active_unsealed (mid (active l)) h
     | None => false
     end.

Definition seqs_below (c : N) (sv : superversion) : bool :=
  forallb (fun m => forallb (fun e => seq e <? c) (ments m)) (all_mts sv).

(** - a rotation draws an id that no retained memtable uses;
    - the superversion built by an upgrade closure references memtables consistently with
      the retained ones (it may reuse any of them, or bring empty or non-empty fresh
      ones), its active memtable is not listed as sealed by any retained superversion
      nor by itself, and it holds no entry with a seqno that the counter has not handed
      out yet.  Satisfied by the closures of register_tables (drops sealed memtables),
      compaction / ingestion / drop_range (memtables untouched) and clear (fresh empty
      active memtable, no sealed ones). *)
Definition hop_wf (st : hstate) (op : hop) : bool :=
  match latest (hist st) with
  | None => false
  | Some l =>
      match op with
      | HWrite _ | HMaint _ => true
      | HRotate new_mid => negb (existsb (fun m => mid m =? new_mid) (hist_mts (hist st)))
      | HUpgrade f =>
          let n := f l in
          mts_agree (all_mts n) (all_mts n)
          && mts_agree (all_mts n) (hist_mts (hist st))
          && active_unsealed (mid (active n)) (hist st ++ [n])
          && seqs_below (ctr st + 1) n
      end
  end.

Fixpoint run_wf (st : hstate) (ops : list hop) : bool :=
  match ops with
  | [] => true
  | op :: ops' => hop_wf st op && run_wf (hstep st op) ops'
  end.

(** ** The history invariant, as a checker *)

Fixpoint sorted_le_b (l : list N) : bool :=
  match l with
  | [] => true
  | x :: l' => match l' with [] => true | y :: _ => (x <=? y) && sorted_le_b l' end
  end.

Fixpoint sorted_lt_b (l : list N) : bool :=
  match l with
  | [] => true
  | x :: l' => match l' with [] => true | y :: _ => (x <? y) && sorted_lt_b l' end
  end.

Definition check_hinv (st : hstate) : bool :=
  sorted_le_b (map sv_seq (hist st))
  && forallb (fun sv => sv_seq sv <=? ctr st) (hist st)
  && (vis st <=? ctr st)
  && forallb (seqs_below (ctr st)) (hist st)
  && match latest (hist st) with
     | Some l => (sv_seq l <? vis st) || ((vis st =? 0) && Nat.eqb (length (hist st)) 1)
     | None => false
     end.

(** the strict variant (false of [hinit] followed by an upgrade: two entries with seqno 0) *)
Definition check_hinv_strict (st : hstate) : bool :=
  check_hinv st
  && sorted_lt_b (map sv_seq (hist st))
  && forallb (fun sv => sv_seq sv <? ctr st) (hist st).
