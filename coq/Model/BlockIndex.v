(** A table as a sequence of DATA BLOCKS plus a BLOCK INDEX: the layer between the
    byte-exact single data block (Model/DataBlock.v) and the flat sorted table of
    Model/Tree.v.

    Sources (fjall-rs/lsm-tree 3.1.9):
    - src/table/writer/mod.rs            [Writer::write], [Writer::spill_block], [Writer::finish]
    - src/table/writer/index/full.rs     [FullIndexWriter::register_data_block]
    - src/table/writer/index/partitioned.rs [PartitionedIndexWriter::register_data_block],
                                          [cut_index_block], [finish]
    - src/table/index_block/block_handle.rs [KeyedBlockHandle]
    - src/table/index_block/iter.rs      [Iter::seek], [Iter::seek_upper]
    - src/table/block/decoder.rs         [Decoder::partition_point_2], [seek], [seek_upper],
                                         [next], [next_back] (restart interval 1)
    - src/table/block_index/iter.rs      [OwnedIndexBlockIter]
    - src/table/block_index/mod.rs       [BlockIndexImpl::forward_reader], [iter], [BlockIndexIterImpl]
    - src/table/block_index/full.rs      [FullBlockIndex]
    - src/table/block_index/volatile.rs  [VolatileBlockIndex], [Iter]
    - src/table/block_index/two_level.rs [TwoLevelBlockIndex], [Iter]
    - src/table/data_block/mod.rs        [DataBlock::point_read]
    - src/table/data_block/iter.rs       [Iter::seek], [seek_upper], [seek_exclusive], [seek_upper_exclusive]
    - src/double_ended_peekable.rs       [DoubleEndedPeekable]
    - src/table/mod.rs                   [Table::get], [Table::point_read], [Table::range], [Table::scan]
    - src/table/iter.rs                  [Iter::next], [Iter::next_back]
    - src/table/scanner.rs               [Scanner::new], [Scanner::next]

    Abstraction level
    - a data block is the [list entry] it decodes to, with STORED (local) sequence numbers;
      its reader ([OwnedDataBlockIter]) is that list consumed from both ends.  The byte
      level of one block (encoding, restart intervals, hash index, [point_read]) is
      Model/DataBlock.v; [block_point_read] below is the list-level scan that
      Proofs/DataBlock.v proves [DataBlock::point_read] to compute.
    - an index block is the [list bhandle] it decodes to.  Index blocks are always written
      with restart interval 1 (index_block/mod.rs:117, hard coded), so every handle is a
      restart head: the binary search of [Decoder::partition_point_2] runs over all
      handles and is modelled literally ([pp2_loop]); byte offsets of handles inside the
      index block are replaced by their positions.
    - a block handle's (offset, size) is replaced by the position [h_idx] of the block it
      points to ([load_block] = [nth]).
    - no I/O errors: every [Result] is [Ok].
    - u64 [+=] is wrapping ([add_u64]; a debug build panics instead). *)
From LsmV Require Export Model.Ints Model.Tree.
Open Scope N_scope.

(** SeqNo::MAX = u64::MAX *)
Definition U64_MAX : N := 18446744073709551615.

(** [a += b] on u64 (release build: wrapping) *)
Definition add_u64 (a b : N) : N := trunc 64 (a + b).

(** [item.key.seqno += global_seqno] *)
Definition bump (g : N) (e : entry) : entry := mkE (ukey e) (add_u64 (seq e) g) (ty e) (val e).

(** * Writer side *)

(** index_block/block_handle.rs: KeyedBlockHandle { end_key, seqno, inner: BlockHandle } *)
Record bhandle := mkBH { h_end_key : key; h_seqno : N; h_idx : nat }.

(** writer/mod.rs: Writer::spill_block: [let Some(last) = self.chunk.last() else return];
    [register_data_block(KeyedBlockHandle::new(last.key.user_key, last.key.seqno, ..))].
    [i] = number of blocks written before (stands for [meta.file_pos]). *)
Definition handle_of (i : nat) (blk : list entry) : option bhandle :=
  match blk with
  | [] => None
  | e0 :: _ => let e := last blk e0 in Some (mkBH (ukey e) (seq e) i)
  end.

(** the handles a writer registers for a sequence of blocks (FullIndexWriter: pushed to
    [block_handles] in order) *)
Fixpoint index_from (i : nat) (blocks : list (list entry)) : list bhandle :=
  match blocks with
  | [] => []
  | b :: bs =>
      match handle_of i b with
      | Some h => h :: index_from (S i) bs
      | None => index_from (S i) bs
      end
  end.

Definition index_of (blocks : list (list entry)) : list bhandle := index_from 0 blocks.

(** writer/mod.rs: Writer::write + spill_block + finish: the blocks a writer with
    [data_block_size = bsize] cuts.  [chunk_size += user_key.len() + value.len()]; the
    block is spilled as soon as [chunk_size >= data_block_size] -- after ANY item, also
    between two versions of one user key.  [chunk] is kept in reverse. *)
Fixpoint writer_cut (bsize : N) (chunk : list entry) (chunk_size : N) (items : list entry)
  : list (list entry) :=
  match items with
  | [] => match chunk with [] => [] | _ => [rev chunk] end            (* finish: spill_block *)
  | item :: items' =>
      let chunk_size' := chunk_size + N.of_nat (length (ukey item)) + N.of_nat (length (val item)) in
      let chunk' := item :: chunk in
      if bsize <=? chunk_size' then rev chunk' :: writer_cut bsize [] 0 items'
      else writer_cut bsize chunk' chunk_size' items'
  end.

Definition writer_blocks (bsize : N) (items : list entry) : list (list entry) :=
  writer_cut bsize [] 0 items.

(** writer/index/partitioned.rs: cut_index_block: the top-level handle of an index
    partition is [KeyedBlockHandle::new(last.end_key, last.seqno, ..)] *)
Definition top_handle_of (i : nat) (chunk : list bhandle) : option bhandle :=
  match chunk with
  | [] => None
  | h0 :: _ => let h := last chunk h0 in Some (mkBH (h_end_key h) (h_seqno h) i)
  end.

Fixpoint top_from (i : nat) (chunks : list (list bhandle)) : list bhandle :=
  match chunks with
  | [] => []
  | c :: cs =>
      match top_handle_of i c with
      | Some h => h :: top_from (S i) cs
      | None => top_from (S i) cs
      end
  end.

Definition top_of (chunks : list (list bhandle)) : list bhandle := top_from 0 chunks.

(** partitioned.rs: register_data_block + finish: the index partitions cut for
    [partition_size = psize]; [hsz] = [size_of::<KeyedBlockHandle>()].
    [buffer_size += end_key.len() + hsz]; cut when [buffer_size >= partition_size];
    finish cuts the rest if [buffer_size > 0]. *)
Fixpoint index_cut (psize hsz : N) (buf : list bhandle) (buffer_size : N) (hs : list bhandle)
  : list (list bhandle) :=
  match hs with
  | [] => if 0 <? buffer_size then [rev buf] else []
  | h :: hs' =>
      let buffer_size' := buffer_size + (N.of_nat (length (h_end_key h)) + hsz) in
      let buf' := h :: buf in
      if psize <=? buffer_size' then rev buf' :: index_cut psize hsz [] 0 hs'
      else index_cut psize hsz buf' buffer_size' hs'
  end.

Definition index_chunks (psize hsz : N) (hs : list bhandle) : list (list bhandle) :=
  index_cut psize hsz [] 0 hs.

(** * One index block: the iterator (index_block/iter.rs over block/decoder.rs) *)

(** decoder.rs: the [while left < right] loop of partition_point_2 over the restart
    heads = all handles; [usize::midpoint] *)
Fixpoint pp2_loop (fuel : nat) (pred : bhandle -> bool) (hs : list bhandle) (lft rgt : nat) : nat :=
  if Nat.ltb lft rgt then
    match fuel with
    | O => lft
    | S f =>
        let mid := Nat.div (lft + rgt) 2 in
        match nth_error hs mid with
        | Some h => if pred h then pp2_loop f pred hs (S mid) rgt else pp2_loop f pred hs lft mid
        | None => lft
        end
    end
  else lft.

(** decoder.rs: Decoder::partition_point_2: the restart index it returns ([None]: empty
    binary index): [left], or [len - 1] when the predicate holds for every head *)
Definition partition_point_2 (pred : bhandle -> bool) (hs : list bhandle) : option nat :=
  let len := length hs in
  if Nat.eqb len 0 then None
  else
    let lft := pp2_loop (S len) pred hs 0 len in
    Some (if Nat.eqb lft len then (len - 1)%nat else lft).

(** the two scanners of a [Decoder] over an index block, in handle positions: the
    iterator still yields the handles at positions [ib_lo <= i < ib_hi].
    ([lo_scanner.offset] = start of handle [ib_lo]; [hi_scanner.offset] = start of handle
    [ib_hi]; a fresh decoder has the hi scanner unset, which behaves as [ib_hi = len].) *)
Record ibiter := mkIB { ib_hs : list bhandle; ib_lo : nat; ib_hi : nat }.

(** IndexBlock::iter *)
Definition ib_new (hs : list bhandle) : ibiter := mkIB hs 0 (length hs).

(** index_block/iter.rs: the predicate of Iter::seek: the handle sorts before the needle *)
Definition seek_pred (needle : key) (seqno : N) (h : bhandle) : bool :=
  match key_cmp (h_end_key h) needle with
  | Gt => false
  | Lt => true
  | Eq => seqno <=? h_seqno h          (* s >= seqno *)
  end.

(** index_block/iter.rs: Iter::seek = Decoder::seek(pred, second_partition = true) with
    restart_interval == 1: if the predicate still holds at the chosen head, both scanners
    are flipped to "exhausted" and [false] is returned *)
Definition idx_seek (it : ibiter) (needle : key) (seqno : N) : bool * ibiter :=
  match partition_point_2 (seek_pred needle seqno) (ib_hs it) with
  | None => (false, it)
  | Some idx =>
      match nth_error (ib_hs it) idx with
      | Some h =>
          if seek_pred needle seqno h
          then (false, mkIB (ib_hs it) (length (ib_hs it)) (length (ib_hs it)))
          else (true, mkIB (ib_hs it) idx (ib_hi it))
      | None => (false, it)
      end
  end.

(** index_block/iter.rs: Iter::seek_upper (the seqno is ignored) =
    Decoder::seek_upper(|end_key, _| end_key <= needle, true): [hi_scanner.ptr_idx = idx],
    [fill_stack] loads handle [idx]: it is the last one yielded *)
Definition idx_seek_upper (it : ibiter) (needle : key) (_seqno : N) : bool * ibiter :=
  match partition_point_2 (fun h => key_leb (h_end_key h) needle) (ib_hs it) with
  | None => (false, it)
  | Some idx => (true, mkIB (ib_hs it) (ib_lo it) (S idx))
  end.

(** Decoder::next (restart interval 1): [None] when [lo.offset >= hi.offset] or at the
    trailer *)
Definition ib_next (it : ibiter) : option bhandle * ibiter :=
  if Nat.ltb (ib_lo it) (ib_hi it) then
    match nth_error (ib_hs it) (ib_lo it) with
    | Some h => (Some h, mkIB (ib_hs it) (S (ib_lo it)) (ib_hi it))
    | None => (None, it)
    end
  else (None, it).

(** Decoder::next_back (restart interval 1): consume_stack_top refuses handles below
    [lo_scanner.offset] *)
Definition ib_next_back (it : ibiter) : option bhandle * ibiter :=
  if Nat.ltb (ib_lo it) (ib_hi it) then
    match nth_error (ib_hs it) (ib_hi it - 1) with
    | Some h => (Some h, mkIB (ib_hs it) (ib_lo it) (ib_hi it - 1)%nat)
    | None => (None, it)
    end
  else (None, it).

(** the snippet repeated in volatile.rs (next, next_back) and two_level.rs (init_tli,
    next, next_back): apply the remembered [lo] / [hi] seeks to a freshly created
    OwnedIndexBlockIter; [None] = one of the seeks returned false *)
Definition seek_bounds (it : ibiter) (lo hi : option (key * N)) : option ibiter :=
  match (match lo with Some (k, s) => idx_seek it k s | None => (true, it) end) with
  | (false, _) => None
  | (true, it1) =>
      match (match hi with Some (k, s) => idx_seek_upper it1 k s | None => (true, it1) end) with
      | (false, _) => None
      | (true, it2) => Some it2
      end
  end.

(** * The three block indexes (block_index/mod.rs: BlockIndexImpl, BlockIndexIterImpl) *)

(** [IxTwoLevel top children]: the top-level index block and the index blocks its handles
    point to ([h_idx] of a top-level handle = position in [children]) *)
Inductive bindex :=
| IxFull (hs : list bhandle)
| IxVolatile (hs : list bhandle)
| IxTwoLevel (top : list bhandle) (children : list (list bhandle)).

(** volatile.rs: Iter *)
Record voliter := mkVI {
  vi_hs : list bhandle; vi_inner : option ibiter;
  vi_lo : option (key * N); vi_hi : option (key * N) }.

(** two_level.rs: Iter *)
Record tliter := mkTL {
  tl_top : list bhandle; tl_children : list (list bhandle);
  tl_tli : option ibiter;
  tl_loc : option ibiter;            (* lo_consumer *)
  tl_hic : option ibiter;            (* hi_consumer *)
  tl_lo : option (key * N); tl_hi : option (key * N) }.

Inductive iiter := ItFull (i : ibiter) | ItVol (v : voliter) | ItTwo (t : tliter).

(** volatile.rs: Iterator::next *)
Definition vol_next (v : voliter) : option bhandle * voliter :=
  match vi_inner v with
  | Some i =>
      let (o, i') := ib_next i in (o, mkVI (vi_hs v) (Some i') (vi_lo v) (vi_hi v))
  | None =>
      match seek_bounds (ib_new (vi_hs v)) (vi_lo v) (vi_hi v) with
      | None => (None, v)
      | Some i =>
          let (o, i') := ib_next i in (o, mkVI (vi_hs v) (Some i') (vi_lo v) (vi_hi v))
      end
  end.

(** volatile.rs: DoubleEndedIterator::next_back *)
Definition vol_next_back (v : voliter) : option bhandle * voliter :=
  match vi_inner v with
  | Some i =>
      let (o, i') := ib_next_back i in (o, mkVI (vi_hs v) (Some i') (vi_lo v) (vi_hi v))
  | None =>
      match seek_bounds (ib_new (vi_hs v)) (vi_lo v) (vi_hi v) with
      | None => (None, v)
      | Some i =>
          let (o, i') := ib_next_back i in (o, mkVI (vi_hs v) (Some i') (vi_lo v) (vi_hi v))
      end
  end.

(** two_level.rs: Iter::init_tli ([None] = returned false, [tli] stays unset) *)
Definition init_tli (t : tliter) : option ibiter :=
  seek_bounds (ib_new (tl_top t)) (tl_lo t) (tl_hi t).

(** [load_block(handle)] + [IndexBlock::new] + [OwnedIndexBlockIter::new] *)
Definition tl_load (t : tliter) (h : bhandle) : ibiter :=
  ib_new (nth (h_idx h) (tl_children t) []).

(** two_level.rs: Iterator::next *)
Definition tl_next (t : tliter) : option bhandle * tliter :=
  let from_lo :=
    match tl_loc t with
    | Some c => match ib_next c with (Some h, c') => Some (h, c') | (None, _) => None end
    | None => None
    end in
  match from_lo with
  | Some (h, c') =>
      (Some h, mkTL (tl_top t) (tl_children t) (tl_tli t) (Some c') (tl_hic t) (tl_lo t) (tl_hi t))
  | None =>
      match (match tl_tli t with Some i => Some i | None => init_tli t end) with
      | None => (None, t)
      | Some tli =>
          let (oh, tli') := ib_next tli in
          let t1 := mkTL (tl_top t) (tl_children t) (Some tli') (tl_loc t) (tl_hic t) (tl_lo t) (tl_hi t) in
          let from_hi (t2 : tliter) :=
            match tl_hic t2 with
            | Some c =>
                let (o, c') := ib_next c in
                (o, mkTL (tl_top t2) (tl_children t2) (tl_tli t2) (tl_loc t2) (Some c') (tl_lo t2) (tl_hi t2))
            | None => (None, t2)
            end in
          match oh with
          | Some handle =>
              match seek_bounds (tl_load t handle) (tl_lo t) (tl_hi t) with
              | None => (None, t1)
              | Some c =>
                  let (next_item, c') := ib_next c in
                  let t2 := mkTL (tl_top t) (tl_children t) (Some tli') (Some c') (tl_hic t) (tl_lo t) (tl_hi t) in
                  match next_item with
                  | Some h => (Some h, t2)
                  | None => from_hi t2
                  end
              end
          | None => from_hi t1
          end
      end
  end.

(** two_level.rs: DoubleEndedIterator::next_back *)
Definition tl_next_back (t : tliter) : option bhandle * tliter :=
  let from_hi :=
    match tl_hic t with
    | Some c => match ib_next_back c with (Some h, c') => Some (h, c') | (None, _) => None end
    | None => None
    end in
  match from_hi with
  | Some (h, c') =>
      (Some h, mkTL (tl_top t) (tl_children t) (tl_tli t) (tl_loc t) (Some c') (tl_lo t) (tl_hi t))
  | None =>
      match (match tl_tli t with Some i => Some i | None => init_tli t end) with
      | None => (None, t)
      | Some tli =>
          let (oh, tli') := ib_next_back tli in
          let t1 := mkTL (tl_top t) (tl_children t) (Some tli') (tl_loc t) (tl_hic t) (tl_lo t) (tl_hi t) in
          let from_lo (t2 : tliter) :=
            match tl_loc t2 with
            | Some c =>
                let (o, c') := ib_next_back c in
                (o, mkTL (tl_top t2) (tl_children t2) (tl_tli t2) (Some c') (tl_hic t2) (tl_lo t2) (tl_hi t2))
            | None => (None, t2)
            end in
          match oh with
          | Some handle =>
              match seek_bounds (tl_load t handle) (tl_lo t) (tl_hi t) with
              | None => (None, t1)
              | Some c =>
                  let (next_item, c') := ib_next_back c in
                  let t2 := mkTL (tl_top t) (tl_children t) (Some tli') (tl_loc t) (Some c') (tl_lo t) (tl_hi t) in
                  match next_item with
                  | Some h => (Some h, t2)
                  | None => from_lo t2
                  end
              end
          | None => from_lo t1
          end
      end
  end.

(** block_index/mod.rs: BlockIndexImpl::iter *)
Definition bindex_iter (ix : bindex) : iiter :=
  match ix with
  | IxFull hs => ItFull (ib_new hs)
  | IxVolatile hs => ItVol (mkVI hs None None None)
  | IxTwoLevel top children => ItTwo (mkTL top children None None None None None)
  end.

(** block_index/mod.rs: impl BlockIndexIter for BlockIndexIterImpl: seek_lower
    (Full: OwnedIndexBlockIter::seek_lower = Iter::seek; Volatile / TwoLevel: only
    remembered, [true]) *)
Definition ii_seek_lower (it : iiter) (k : key) (s : N) : bool * iiter :=
  match it with
  | ItFull i => let (ok, i') := idx_seek i k s in (ok, ItFull i')
  | ItVol v => (true, ItVol (mkVI (vi_hs v) (vi_inner v) (Some (k, s)) (vi_hi v)))
  | ItTwo t =>
      (true, ItTwo (mkTL (tl_top t) (tl_children t) (tl_tli t) (tl_loc t) (tl_hic t)
                         (Some (k, s)) (tl_hi t)))
  end.

(** seek_upper *)
Definition ii_seek_upper (it : iiter) (k : key) (s : N) : bool * iiter :=
  match it with
  | ItFull i => let (ok, i') := idx_seek_upper i k s in (ok, ItFull i')
  | ItVol v => (true, ItVol (mkVI (vi_hs v) (vi_inner v) (vi_lo v) (Some (k, s))))
  | ItTwo t =>
      (true, ItTwo (mkTL (tl_top t) (tl_children t) (tl_tli t) (tl_loc t) (tl_hic t)
                         (tl_lo t) (Some (k, s))))
  end.

(** impl Iterator for BlockIndexIterImpl *)
Definition ii_next (it : iiter) : option bhandle * iiter :=
  match it with
  | ItFull i => let (o, i') := ib_next i in (o, ItFull i')
  | ItVol v => let (o, v') := vol_next v in (o, ItVol v')
  | ItTwo t => let (o, t') := tl_next t in (o, ItTwo t')
  end.

(** impl DoubleEndedIterator for BlockIndexIterImpl *)
Definition ii_next_back (it : iiter) : option bhandle * iiter :=
  match it with
  | ItFull i => let (o, i') := ib_next_back i in (o, ItFull i')
  | ItVol v => let (o, v') := vol_next_back v in (o, ItVol v')
  | ItTwo t => let (o, t') := tl_next_back t in (o, ItTwo t')
  end.

(** block_index/mod.rs: BlockIndexImpl::forward_reader (all three arms: [iter()],
    [seek_lower], [Some] iff it returned true) *)
Definition forward_reader (ix : bindex) (needle : key) (seqno : N) : option iiter :=
  let (ok, it) := ii_seek_lower (bindex_iter ix) needle seqno in
  if ok then Some it else None.

(** * The table *)

(** [bt_slo] = [metadata.seqnos.0] (lowest STORED seqno); [bt_nblocks] =
    [metadata.data_block_count]; [bt_blocks]: the data blocks in file order, STORED
    seqnos; [bt_gseq] = [global_seqno] *)
Record btable := mkBT {
  bt_id : N; bt_gseq : N; bt_slo : N; bt_nblocks : nat;
  bt_blocks : list (list entry); bt_index : bindex }.

(** table/mod.rs: load_data_block(handle) *)
Definition load_data_block (bt : btable) (h : bhandle) : list entry :=
  nth (h_idx h) (bt_blocks bt) [].

(** data_block/mod.rs: DataBlock::point_read at the list level: the first item with the
    needle's user key and [seqno < S]; stop at the first greater key (all three entry
    paths -- hash index hit, hash conflict, binary search -- are proved to compute this in
    Proofs/DataBlock.v [point_read_res_ok], where it is called [scan_spec]) *)
Fixpoint block_point_read (blk : list entry) (needle : key) (seqno : N) : option entry :=
  match blk with
  | [] => None
  | e :: blk' =>
      match key_cmp (ukey e) needle with
      | Gt => None
      | Lt => block_point_read blk' needle seqno
      | Eq => if seqno <=? seq e then block_point_read blk' needle seqno else Some e
      end
  end.

(** table/mod.rs: the [for block_handle in iter] loop of Table::point_read *)
Fixpoint point_read_loop (fuel : nat) (bt : btable) (it : iiter) (k : key) (seqno : N)
  : option entry :=
  match fuel with
  | O => None
  | S f =>
      match ii_next it with
      | (None, _) => None
      | (Some block_handle, it') =>
          match block_point_read (load_data_block bt block_handle) k seqno with
          | Some item => Some (bump (bt_gseq bt) item)
          | None =>
              if key_ltb k (h_end_key block_handle) then None   (* end_key > key *)
              else point_read_loop f bt it' k seqno
          end
      end
  end.

(** table/mod.rs: Table::point_read *)
Definition bt_point_read (bt : btable) (k : key) (seqno : N) : option entry :=
  match forward_reader (bt_index bt) k seqno with
  | None => None
  | Some it => point_read_loop (S (length (bt_blocks bt))) bt it k seqno
  end.

(** table/mod.rs: Table::get; [flt] is the filter as an arbitrary predicate *)
Definition btable_get (flt : N -> key -> bool) (bt : btable) (k : key) (S : N) : option entry :=
  let seqno := ssub S (bt_gseq bt) in
  if seqno <=? bt_slo bt then None               (* metadata.seqnos.0 >= seqno *)
  else if negb (flt (bt_id bt) k) then None
  else bt_point_read bt k seqno.

(** * The data block reader (table/iter.rs: OwnedDataBlockIter over data_block/iter.rs) *)

(** Iterator::next / DoubleEndedIterator::next_back of the DoubleEndedPeekable decoder *)
Definition db_next (l : list entry) : option entry * list entry :=
  match l with [] => (None, []) | x :: l' => (Some x, l') end.

Definition db_next_back (l : list entry) : option entry * list entry :=
  match l with [] => (None, []) | x :: _ => (Some (last l x), removelast l) end.

(** the linear scans of data_block/iter.rs: [loop { peek(); match compare_key ..; next() }]
    consume from the front while [f] holds; the item that stops the loop stays peeked and
    is what the following [next] yields.  (The preceding [Decoder::seek] jump to a restart
    head only skips items the loop would consume.) *)
Fixpoint drop_front (f : entry -> bool) (l : list entry) : list entry :=
  match l with
  | [] => []
  | x :: l' => if f x then drop_front f l' else l
  end.

(** the same with [peek_back] / [next_back] *)
Definition drop_back (f : entry -> bool) (l : list entry) : list entry :=
  rev (drop_front f (rev l)).

(** table/iter.rs: OwnedDataBlockIter::seek_lower_bound: Included -> Iter::seek (consume
    while key < needle), Excluded -> Iter::seek_exclusive (while key <= needle); the
    returned bool is ignored by the table iterator *)
Definition db_seek_lower (b : bound) (l : list entry) : list entry :=
  match b with
  | Incl k => drop_front (fun e => key_ltb (ukey e) k) l
  | Excl k => drop_front (fun e => key_leb (ukey e) k) l
  | Unb => l
  end.

(** OwnedDataBlockIter::seek_upper_bound: Included -> Iter::seek_upper (consume from the
    back while key > needle), Excluded -> Iter::seek_upper_exclusive (while key >= needle) *)
Definition db_seek_upper (b : bound) (l : list entry) : list entry :=
  match b with
  | Incl k => drop_back (fun e => key_ltb k (ukey e)) l
  | Excl k => drop_back (fun e => key_leb k (ukey e)) l
  | Unb => l
  end.

(** * The ranged table iterator (table/iter.rs) *)

Record titer := mkTI {
  ti_bt : btable;
  ti_index : iiter;                  (* index_iter *)
  ti_init : bool;                    (* index_initialized *)
  ti_lo : option (list entry);       (* lo_data_block *)
  ti_hi : option (list entry);       (* hi_data_block *)
  ti_range : bound * bound }.        (* range: Unb = None *)

(** table/mod.rs: Table::range = Iter::new + set_lower_bound / set_upper_bound *)
Definition ti_new (bt : btable) (lo hi : bound) : titer :=
  mkTI bt (bindex_iter (bt_index bt)) false None None (lo, hi).

Definition bound_key (b : bound) : option key :=
  match b with Incl k | Excl k => Some k | Unb => None end.

(** the [if !self.index_initialized] block of next / next_back (identical in both):
    returns [ok] and the iterator with [index_initialized = true] *)
Definition ti_initialize (it : titer) : bool * titer :=
  let (lo, hi) := ti_range it in
  let (ok1, ix1) :=
    match bound_key lo with
    | Some k => ii_seek_lower (ti_index it) k U64_MAX
    | None => (true, ti_index it)
    end in
  let (ok2, ix2) :=
    if ok1 then
      match bound_key hi with
      | Some k => ii_seek_upper ix1 k U64_MAX
      | None => (ok1, ix1)
      end
    else (ok1, ix1) in
  (ok2, mkTI (ti_bt it) ix2 true (ti_lo it) (ti_hi it) (ti_range it)).

(** forward path: load the block, seek_lower_bound, then seek_upper_bound *)
Definition open_fwd (it : titer) (h : bhandle) : list entry :=
  db_seek_upper (snd (ti_range it)) (db_seek_lower (fst (ti_range it)) (load_data_block (ti_bt it) h)).

(** reverse path: seek_upper_bound first, then seek_lower_bound *)
Definition open_bwd (it : titer) (h : bhandle) : list entry :=
  db_seek_lower (fst (ti_range it)) (db_seek_upper (snd (ti_range it)) (load_data_block (ti_bt it) h)).

(** the [loop] of Iterator::next *)
Fixpoint ti_next_loop (fuel : nat) (it : titer) : option entry * titer :=
  match fuel with
  | O => (None, it)
  | S f =>
      match ii_next (ti_index it) with
      | (None, ix') =>
          match ti_hi it with
          | Some (e :: r) =>
              (Some (bump (bt_gseq (ti_bt it)) e),
               mkTI (ti_bt it) ix' (ti_init it) (ti_lo it) (Some r) (ti_range it))
          | _ => (None, mkTI (ti_bt it) ix' (ti_init it) None None (ti_range it))
          end
      | (Some handle, ix') =>
          match open_fwd it handle with
          | e :: r =>
              (Some (bump (bt_gseq (ti_bt it)) e),
               mkTI (ti_bt it) ix' (ti_init it) (Some r) (ti_hi it) (ti_range it))
          | [] =>
              ti_next_loop f (mkTI (ti_bt it) ix' (ti_init it) (Some []) (ti_hi it) (ti_range it))
          end
      end
  end.

Definition ti_fuel (it : titer) : nat := S (length (bt_blocks (ti_bt it))).

(** table/iter.rs: Iterator::next *)
Definition ti_next (it : titer) : option entry * titer :=
  match ti_lo it with
  | Some (e :: r) =>
      (Some (bump (bt_gseq (ti_bt it)) e),
       mkTI (ti_bt it) (ti_index it) (ti_init it) (Some r) (ti_hi it) (ti_range it))
  | _ =>
      if ti_init it then ti_next_loop (ti_fuel it) it
      else
        let (ok, it1) := ti_initialize it in
        if ok then ti_next_loop (ti_fuel it) it1
        else (None, mkTI (ti_bt it1) (ti_index it1) true None None (ti_range it1))
  end.

(** the [loop] of DoubleEndedIterator::next_back *)
Fixpoint ti_next_back_loop (fuel : nat) (it : titer) : option entry * titer :=
  match fuel with
  | O => (None, it)
  | S f =>
      match ii_next_back (ti_index it) with
      | (None, ix') =>
          match ti_lo it with
          | Some (x :: l') =>
              (Some (bump (bt_gseq (ti_bt it)) (last (x :: l') x)),
               mkTI (ti_bt it) ix' (ti_init it) (Some (removelast (x :: l'))) (ti_hi it) (ti_range it))
          | _ => (None, mkTI (ti_bt it) ix' (ti_init it) None None (ti_range it))
          end
      | (Some handle, ix') =>
          match open_bwd it handle with
          | x :: l' =>
              (Some (bump (bt_gseq (ti_bt it)) (last (x :: l') x)),
               mkTI (ti_bt it) ix' (ti_init it) (ti_lo it) (Some (removelast (x :: l'))) (ti_range it))
          | [] =>
              ti_next_back_loop f (mkTI (ti_bt it) ix' (ti_init it) (ti_lo it) (Some []) (ti_range it))
          end
      end
  end.

(** table/iter.rs: DoubleEndedIterator::next_back *)
Definition ti_next_back (it : titer) : option entry * titer :=
  match ti_hi it with
  | Some (x :: l') =>
      (Some (bump (bt_gseq (ti_bt it)) (last (x :: l') x)),
       mkTI (ti_bt it) (ti_index it) (ti_init it) (ti_lo it) (Some (removelast (x :: l'))) (ti_range it))
  | _ =>
      if ti_init it then ti_next_back_loop (ti_fuel it) it
      else
        let (ok, it1) := ti_initialize it in
        if ok then ti_next_back_loop (ti_fuel it) it1
        else (None, mkTI (ti_bt it1) (ti_index it1) true None None (ti_range it1))
  end.

(** the results of a sequence of calls: [true] = next, [false] = next_back *)
Fixpoint ti_pulls (code : list bool) (it : titer) : list (option entry) :=
  match code with
  | [] => []
  | c :: code' =>
      let (o, it') := if c then ti_next it else ti_next_back it in
      o :: ti_pulls code' it'
  end.

(** [.collect()] / [.rev().collect()] *)
Fixpoint ti_collect (fuel : nat) (it : titer) : list entry :=
  match fuel with
  | O => []
  | S f => match ti_next it with (Some e, it') => e :: ti_collect f it' | (None, _) => [] end
  end.

Fixpoint ti_collect_back (fuel : nat) (it : titer) : list entry :=
  match fuel with
  | O => []
  | S f => match ti_next_back it with (Some e, it') => e :: ti_collect_back f it' | (None, _) => [] end
  end.

Definition bt_item_count (bt : btable) : nat := length (concat (bt_blocks bt)).

(** Table::range(lo, hi).collect() *)
Definition btable_range (bt : btable) (lo hi : bound) : list entry :=
  ti_collect (S (bt_item_count bt)) (ti_new bt lo hi).

(** Table::range(lo, hi).rev().collect() *)
Definition btable_range_rev (bt : btable) (lo hi : bound) : list entry :=
  ti_collect_back (S (bt_item_count bt)) (ti_new bt lo hi).

(** any interleaving of next / next_back on Table::range(lo, hi) *)
Definition btable_range_pulls (bt : btable) (lo hi : bound) (code : list bool) : list (option entry) :=
  ti_pulls code (ti_new bt lo hi).

(** * The compaction scanner (table/scanner.rs) *)

(** [sc_iter]: the current block's reader; [sc_file]: the data blocks the BufReader has
    not read yet *)
Record scanner := mkSC {
  sc_iter : list entry; sc_file : list (list entry);
  sc_block_count : nat; sc_read_count : nat; sc_gseq : N }.

(** table/mod.rs: Table::scan + scanner.rs: Scanner::new ([None]: fetch_next_block failed) *)
Definition scanner_new (bt : btable) : option scanner :=
  match bt_blocks bt with
  | [] => None
  | b :: rest => Some (mkSC b rest (bt_nblocks bt) 1 (bt_gseq bt))
  end.

(** scanner.rs: Iterator::next; [None] results: end of iteration or a failed fetch *)
Fixpoint sc_next_loop (fuel : nat) (s : scanner) : option entry * scanner :=
  match sc_iter s with
  | e :: r =>
      (Some (bump (sc_gseq s) e), mkSC r (sc_file s) (sc_block_count s) (sc_read_count s) (sc_gseq s))
  | [] =>
      if Nat.leb (sc_block_count s) (sc_read_count s) then (None, s)
      else
        match fuel with
        | O => (None, s)
        | S f =>
            match sc_file s with
            | [] => (None, s)                                   (* fail_iter!: read error *)
            | b :: rest =>
                sc_next_loop f (mkSC b rest (sc_block_count s) (S (sc_read_count s)) (sc_gseq s))
            end
        end
  end.

Definition sc_next (s : scanner) : option entry * scanner :=
  sc_next_loop (S (length (sc_file s))) s.

Fixpoint sc_collect (fuel : nat) (s : scanner) : list entry :=
  match fuel with
  | O => []
  | S f => match sc_next s with (Some e, s') => e :: sc_collect f s' | (None, _) => [] end
  end.

(** Table::scan().collect() *)
Definition btable_scan (bt : btable) : list entry :=
  match scanner_new bt with
  | None => []
  | Some s => sc_collect (S (bt_item_count bt)) s
  end.

(** * Building a table the way the writer does *)

(** the metadata of Writer::finish: lowest seqno ([u64::MAX] for no item: Metadata::default) *)
Definition lowest_seqno (items : list entry) : N :=
  fold_left (fun a x => N.min a (seq x)) items U64_MAX.

(** a table with a full (pinned) index *)
Definition mk_btable_full (id g : N) (blocks : list (list entry)) : btable :=
  mkBT id g (lowest_seqno (concat blocks)) (length blocks) blocks (IxFull (index_of blocks)).

(** ... with an unpinned full index *)
Definition mk_btable_volatile (id g : N) (blocks : list (list entry)) : btable :=
  mkBT id g (lowest_seqno (concat blocks)) (length blocks) blocks (IxVolatile (index_of blocks)).

(** ... with a partitioned (two-level) index cut into [chunks] *)
Definition mk_btable_two_level (id g : N) (blocks : list (list entry)) (chunks : list (list bhandle)) : btable :=
  mkBT id g (lowest_seqno (concat blocks)) (length blocks) blocks (IxTwoLevel (top_of chunks) chunks).

(** * Validating a dump of a real table (not a transliteration)

    To feed a real table to [btable_get] / [btable_range] / [btable_scan] the model needs:
    the table id, [global_seqno], [metadata.seqnos.0], [metadata.data_block_count]; per data
    block, in file order, its items (user key, STORED seqno, value type, value); per index
    handle its [end_key], [seqno] and the position of the block it points to (for a
    partitioned index: the top-level handles with the position of the index partition they
    point to, and the handles of every partition).  [btable_check] decides the hypotheses
    of the theorems in Proofs/BlockIndex.v ([btable_check_ok]). *)
Definition bhandle_eqb (a b : bhandle) : bool :=
  key_eqb (h_end_key a) (h_end_key b) && (h_seqno a =? h_seqno b) && Nat.eqb (h_idx a) (h_idx b).

Fixpoint hlist_eqb (a b : list bhandle) : bool :=
  match a, b with
  | [], [] => true
  | x :: a', y :: b' => bhandle_eqb x y && hlist_eqb a' b'
  | _, _ => false
  end.

Definition btable_check (bt : btable) : bool :=
  let blocks := bt_blocks bt in
  forallb (fun b => match b with [] => false | _ => true end) blocks
  && sorted_b (concat blocks)
  && forallb (fun e => seq e + bt_gseq bt <? U64_MAX) (concat blocks)
  && Nat.eqb (bt_nblocks bt) (length blocks)
  && match bt_index bt with
     | IxFull hs | IxVolatile hs => hlist_eqb hs (index_of blocks)
     | IxTwoLevel top children =>
         forallb (fun c => match c with [] => false | _ => true end) children
         && hlist_eqb top (top_of children)
         && hlist_eqb (concat children) (index_of blocks)
     end.
