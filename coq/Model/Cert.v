(** Decidable certificates evaluated on the dumps of the real tree.
    [check_inv_sv] (Model/Tree.v) certifies structure; [content_agrees] certifies that a
    superversion's logical content reads, at snapshot [S], exactly like the write history
    [H] for EVERY key (keys outside both read as absent on both sides). *)
From LsmV Require Export Model.Tree Model.History.
Open Scope N_scope.

Definition opt_entry_eqb (a b : option entry) : bool :=
  match a, b with
  | None, None => true
  | Some x, Some y => entry_eqb x y
  | _, _ => false
  end.

Definition content_agrees (c H : list entry) (S : N) : bool :=
  forallb (fun k => opt_entry_eqb (spec_get c k S) (spec_get H k S)) (keys_of c ++ keys_of H).

(** first key on which they differ, for the replay file *)
Definition content_diff (c H : list entry) (S : N) : option key :=
  find (fun k => negb (opt_entry_eqb (spec_get c k S) (spec_get H k S))) (keys_of c ++ keys_of H).

(** every container's (key, seqno) pairs below [S] are part of the history: nothing is
    invented (used for C07/C18 style checks) *)
Definition subset_of_history (c H : list entry) : bool :=
  forallb (fun e => existsb (entry_eqb e) H) c.

(** high-water marks (C18) *)
Definition opt_max (a b : option N) : option N :=
  match a, b with
  | None, x | x, None => x
  | Some x, Some y => Some (N.max x y)
  end.

Definition max_seq_opt (l : list entry) : option N :=
  fold_left (fun acc e => opt_max acc (Some (seq e))) l None.

Definition highest_persisted (sv : superversion) : option N :=
  max_seq_opt (concat (map ents (all_tables (ver sv)))).

Definition highest_memtable (sv : superversion) : option N :=
  max_seq_opt (ments (active sv) ++ concat (map ments (sealed sv))).

Definition highest_overall (sv : superversion) : option N :=
  opt_max (highest_memtable sv) (highest_persisted sv).
