(** FIFO compaction: which tables of L0 get dropped.
    Mirrors: src/compaction/fifo.rs (Strategy::choose), src/time.rs (unix_timestamp),
    src/table/meta.rs (Timestamp = u128 nanoseconds, written by table/writer/mod.rs:444
    as [unix_timestamp().as_nanos()]).

    Numbers are unbounded [N]: the Rust code adds [u64]s with plain [+]/[+=]
    (fifo.rs:90, :115, :141), which the model follows only as long as no sum exceeds
    2^64-1 (debug builds panic, release builds wrap).  The [u128] arithmetic for the
    cutoff cannot overflow ([ttl_seconds < 2^64], times 10^9, fits in 128 bits).
    [saturating_sub] is [N.sub] (truncated subtraction). *)
From LsmV Require Export Base.Bytes.
Open Scope N_scope.

(** one table of L0 as FIFO sees it:
    [f_id]      = table.id()
    [f_created] = table.metadata.created_at, in NANOSECONDS since the epoch
    [f_size]    = table.file_size()
    [f_blob]    = table.referenced_blob_bytes().unwrap_or_default()
                  (sum of [on_disk_bytes] over the table's linked blob files) *)
Record finfo := mkF { f_id : N; f_created : N; f_size : N; f_blob : N }.

(** what a dropped table is credited with: [table.file_size() + linked_blob_file_bytes]
    (fifo.rs:114-115 and :140-141) *)
Definition f_credit (t : finfo) : N := f_size t + f_blob t.

Fixpoint sum_by {A} (f : A -> N) (l : list A) : N :=
  match l with [] => 0 | x :: l' => f x + sum_by f l' end.

(** fifo.rs:96-103.  [ttl] is in SECONDS, [now] = unix_timestamp().as_nanos() in
    nanoseconds; [Some 0] and [None] disable the TTL; the subtraction saturates at 0. *)
Definition ttl_cutoff (ttl : option N) (now : N) : option N :=
  match ttl with
  | Some s => if 0 <? s then Some (now - s * 1000000000) else None
  | None => None
  end.

(** fifo.rs:109-110  [ttl_cutoff.is_some_and(|cutoff| created_at <= cutoff)] *)
Definition f_expired (cutoff : option N) (t : finfo) : bool :=
  match cutoff with
  | Some c => f_created t <=? c
  | None => false
  end.

(** fifo.rs:131  [alive.sort_by_key(|t| t.metadata.created_at)]: a STABLE sort on the
    creation time only.  Insertion sort; [insert_by_created] puts the new element in front
    of equal ones and [fold_right] inserts the elements from the back, so elements with
    equal keys keep their original order. *)
Fixpoint insert_by_created (t : finfo) (l : list finfo) : list finfo :=
  match l with
  | [] => [t]
  | x :: l' => if f_created t <=? f_created x then t :: l else x :: insert_by_created t l'
  end.
Definition sort_by_created (l : list finfo) : list finfo := fold_right insert_by_created [] l.

(** fifo.rs:133-142, the accumulation loop:
    [for table in alive { if collected_bytes >= overshoot { break; } insert; collected += credit }] *)
Fixpoint fifo_collect (overshoot collected : N) (l : list finfo) : list finfo :=
  match l with
  | [] => []
  | t :: l' =>
      if overshoot <=? collected then []
      else t :: fifo_collect overshoot (collected + f_credit t) l'
  end.

(** [tables]: the tables of L0 in the order [first_level.iter().flat_map(|run| run.iter())]
    visits them (choose asserts that L0 consists of exactly one run, fifo.rs:82).
    [blob_total] = version.blob_files.on_disk_size(): the size of ALL blob files of the
    version, which is not a function of the per-table [f_blob]s. *)
Section Choose.
Variables (limit : N) (ttl : option N) (now : N) (blob_total : N) (tables : list finfo).

(** tables marked in the single TTL pass (fifo.rs:108-119) and the others *)
Definition fifo_expired_tables : list finfo := filter (f_expired (ttl_cutoff ttl now)) tables.
Definition fifo_alive_tables : list finfo :=
  filter (fun t => negb (f_expired (ttl_cutoff ttl now) t)) tables.

(** fifo.rs:90  [db_size = first_level.size() + version.blob_files.on_disk_size()] *)
Definition fifo_db_size : N := sum_by f_size tables + blob_total.

(** fifo.rs:122  [size_after_ttl = db_size.saturating_sub(ttl_dropped_bytes)] *)
Definition fifo_size_after_ttl : N := fifo_db_size - sum_by f_credit fifo_expired_tables.

(** fifo.rs:125-143 *)
Definition fifo_size_selected : list finfo :=
  if limit <? fifo_size_after_ttl then
    fifo_collect (fifo_size_after_ttl - limit) 0 (sort_by_created fifo_alive_tables)
  else [].

(** ids_to_drop (a HashSet in Rust: compare as a set); [[]] = Choice::DoNothing *)
Definition fifo_choose_full : list N := map f_id (fifo_expired_tables ++ fifo_size_selected).
End Choose.

(** the requested interface: a tree whose blob files are exactly accounted for by the
    tables' references ([blob_total = sum of f_blob]) *)
Definition fifo_choose (limit : N) (ttl : option N) (now : N) (tables : list finfo) : list N :=
  fifo_choose_full limit ttl now (sum_by f_blob tables) tables.
