(** Byte-level codec of the version file ("v<id>", an sfa archive) of lsm-tree 3.1.9.

    Writer:  src/version/mod.rs  [Version::encode_into] (l.613-703),
             src/blob_tree/gc.rs [impl Encode for FragmentationMap] (l.84-111),
             src/version/persist.rs [persist_version] (sfa framing, "current" file).
    Reader:  src/version/recovery.rs [recover] (l.35-160), [get_current_version] (l.12-18),
             src/blob_tree/gc.rs [impl Decode for FragmentationMap] (l.113-134),
             src/manifest.rs [Manifest::decode_from] (the small manifest sections).
    Container: sfa 1.0.0 src/writer.rs, src/toc/{entry,writer,reader}.rs,
             src/trailer/{writer,reader}.rs.

    Sections, in the order they are written (sfa::Writer::start):
      "format_version" "crate_version" "tree_type" "level_count" "filter_hash_type"
      "tables" "blob_files" "blob_gc_stats"
    All integers are LITTLE endian, fixed width; no varints in this file. *)
From LsmV Require Export Base.Bytes Model.Ints.
Open Scope N_scope.

(** ** Logical content *)

(** one table reference, src/version/mod.rs l.675-678 / recovery.rs [RecoveredTable] *)
Record vtab := mkVtab { vt_id : N (* u64 *); vt_checksum : N (* u128 *); vt_gseq : N (* u64 *) }.

(** one blob file reference, src/version/mod.rs l.693-695 *)
Record vblob := mkVblob { vb_id : N (* u64 *); vb_checksum : N (* u128 *) }.

(** one fragmentation-map entry, src/blob_tree/gc.rs [FragmentationEntry] keyed by blob file id *)
Record vgc := mkVgc { vg_id : N (* u64 *); vg_len : N (* usize, written as u32 *);
                      vg_bytes : N (* u64 *); vg_on_disk : N (* u64 *) }.

(** src/config/mod.rs [TreeType]: Standard = 0, Blob = 1 *)
Inductive ttype := TStandard | TBlob.

(** [vf_levels]: levels > runs > tables, in iteration order.
    [vf_blobs]: the blob files in the order the writer's HashMap iterates them
    (src/version/blob_file_list.rs: [BlobFileList(HashMap)], "no particular order").
    [vf_gc]: the FragmentationMap entries in the order its HashMap iterates them. *)
Record vfile := mkVfile {
  vf_tree_type : ttype;
  vf_levels : list (list (list vtab));
  vf_blobs : list vblob;
  vf_gc : list vgc }.

(** ** Errors *)

(** [EEof]: io UnexpectedEof from read_exact; [EInvalidTag t]: crate::Error::InvalidTag
    (("ChecksumType", t)); [EUnrecoverable]: section missing from the TOC;
    [EInvalidHeader]: TreeType::try_from failed (recovery.rs l.156) / sfa magic mismatch;
    [EInvalidVersion]: sfa trailer version / TOC magic mismatch. *)
Inductive derr := EEof | EInvalidTag (tag : N) | EUnrecoverable | EInvalidHeader | EInvalidVersion.

Inductive res (A : Type) := Ok (a : A) | Err (e : derr).
Arguments Ok {A} a.
Arguments Err {A} e.

Definition res_opt {A} (r : res A) : option A := match r with Ok a => Some a | Err _ => None end.

(** byteorder [read_uN::<LE>()?] on a cursor *)
Definition rd (w : nat) (l : list N) : res (N * list N) :=
  match read_le w l with Some p => Ok p | None => Err EEof end.

Notation "'let?' ( x , r ) := e 'in' k" :=
  (match e with Ok (x, r) => k | Err err => Err err end)
  (at level 200, x name, r name, e at level 100, k at level 200).

(** [for _ in 0..count { items.push(dec(reader)?) }].  [count] can be as large as 2^32-1
    on malformed input, so the loop counter stays in [N] and the recursion is on a
    [fuel] that callers set to the number of input bytes: every item decoder below
    consumes at least one byte, hence on empty input it fails, and the [O] branch merely
    reports that failure (its [Ok] arm is unreachable). *)
Fixpoint decode_items {A} (dec : list N -> res (A * list N)) (fuel : nat) (count : N)
         (l : list N) : res (list A * list N) :=
  if count =? 0 then Ok ([], l)
  else match fuel with
       | O => match dec l with Err e => Err e | Ok _ => Err EEof end
       | S f =>
           let? (a, l1) := dec l in
           let? (rest_items, l2) := decode_items dec f (count - 1) l1 in
           Ok (a :: rest_items, l2)
       end.

(** ** Section "tables" *)

(** src/version/mod.rs l.674-679 *)
Definition encode_table (t : vtab) : list N :=
  write_u64_le (vt_id t) ++ write_u8 0 (* checksum type, 0 = XXH3 *)
  ++ write_u128_le (vt_checksum t) ++ write_u64_le (vt_gseq t).

(** l.665-680: [run.len() as u32] *)
Definition encode_run (r : list vtab) : list N :=
  write_u32_le (trunc 32 (N.of_nat (length r))) ++ flat_map encode_table r.

(** l.658-681: [level.len() as u8]  -- "there are always less than 256 runs" *)
Definition encode_level (lv : list (list vtab)) : list N :=
  write_u8 (trunc 8 (N.of_nat (length lv))) ++ flat_map encode_run lv.

(** l.648-682: [self.level_count() as u8] *)
Definition encode_tables_section (ls : list (list (list vtab))) : list N :=
  write_u8 (trunc 8 (N.of_nat (length ls))) ++ flat_map encode_level ls.

(** src/version/recovery.rs l.70-89 *)
Definition decode_table (l : list N) : res (vtab * list N) :=
  let? (id, l1) := rd 8 l in
  let? (ct, l2) := rd 1 l1 in
  if negb (ct =? 0) then Err (EInvalidTag ct)
  else
    let? (ck, l3) := rd 16 l2 in
    let? (gs, l4) := rd 8 l3 in
    Ok (mkVtab id ck gs, l4).

(** recovery.rs l.66-92 *)
Definition decode_run (l : list N) : res (list vtab * list N) :=
  let? (table_count, l1) := rd 4 l in
  decode_items decode_table (length l1) table_count l1.

(** recovery.rs l.62-95 *)
Definition decode_level (l : list N) : res (list (list vtab) * list N) :=
  let? (run_count, l1) := rd 1 l in
  decode_items decode_run (length l1) run_count l1.

(** recovery.rs l.60-96. Also returns the unread remainder of the section: the Rust code
    never checks that the section was consumed completely, trailing bytes are ignored. *)
Definition decode_tables_section (l : list N) : res (list (list (list vtab)) * list N) :=
  let? (level_count, l1) := rd 1 l in
  decode_items decode_level (length l1) level_count l1.

(** ** Section "blob_files" *)

(** src/version/mod.rs l.692-696 *)
Definition encode_blob (b : vblob) : list N :=
  write_u64_le (vb_id b) ++ write_u8 0 ++ write_u128_le (vb_checksum b).

(** l.684-697: [self.blob_files.len() as u32] *)
Definition encode_blob_files_section (bs : list vblob) : list N :=
  write_u32_le (trunc 32 (N.of_nat (length bs))) ++ flat_map encode_blob bs.

(** recovery.rs l.109-122 *)
Definition decode_blob (l : list N) : res (vblob * list N) :=
  let? (id, l1) := rd 8 l in
  let? (ct, l2) := rd 1 l1 in
  if negb (ct =? 0) then Err (EInvalidTag ct)
  else
    let? (ck, l3) := rd 16 l2 in
    Ok (mkVblob id ck, l3).

(** [slice::sort_by_key(|(id, _)| *id)] is a stable sort; insertion sort that keeps
    equal keys in input order *)
Fixpoint blob_insert (x : vblob) (l : list vblob) : list vblob :=
  match l with
  | [] => [x]
  | y :: l' => if vb_id x <=? vb_id y then x :: l else y :: blob_insert x l'
  end.
Definition blob_sort (l : list vblob) : list vblob := fold_right blob_insert [] l.

(** recovery.rs l.98-127: parse, then sort by id *)
Definition decode_blob_files_section (l : list N) : res (list vblob * list N) :=
  let? (blob_file_count, l1) := rd 4 l in
  let? (bs, l2) := decode_items decode_blob (length l1) blob_file_count l1 in
  Ok (blob_sort bs, l2).

(** ** Section "blob_gc_stats" *)

(** src/blob_tree/gc.rs l.95-107: [item.len as u32] *)
Definition encode_gc_entry (g : vgc) : list N :=
  write_u64_le (vg_id g) ++ write_u32_le (trunc 32 (vg_len g))
  ++ write_u64_le (vg_bytes g) ++ write_u64_le (vg_on_disk g).

(** gc.rs l.86-110: [self.len() as u32] *)
Definition encode_gc_section (gs : list vgc) : list N :=
  write_u32_le (trunc 32 (N.of_nat (length gs))) ++ flat_map encode_gc_entry gs.

(** gc.rs l.125-130 *)
Definition decode_gc_entry (l : list N) : res (vgc * list N) :=
  let? (id, l1) := rd 8 l in
  let? (len, l2) := rd 4 l1 in
  let? (bytes, l3) := rd 8 l2 in
  let? (on_disk, l4) := rd 8 l3 in
  Ok (mkVgc id len bytes on_disk, l4).

(** [HashMap::insert]: an existing key's value is replaced. The map is represented as an
    association list: replace in place, else append. (The real HashMap has no order; a
    byte comparison of this section must be order-insensitive or go through the decoder.) *)
Fixpoint gc_insert (g : vgc) (m : list vgc) : list vgc :=
  match m with
  | [] => [g]
  | h :: m' => if vg_id h =? vg_id g then g :: m' else h :: gc_insert g m'
  end.
Definition gc_of_list (l : list vgc) : list vgc := fold_left (fun m g => gc_insert g m) l [].

(** gc.rs l.113-134 *)
Definition decode_gc_section (l : list N) : res (list vgc * list N) :=
  let? (len, l1) := rd 4 l in
  let? (gs, l2) := decode_items decode_gc_entry (length l1) len l1 in
  Ok (gc_of_list gs, l2).

(** ** The whole file as a list of named sections *)

Definition section := (list N * list N)%type. (* name bytes, payload bytes *)

Definition ttype_byte (t : ttype) : N := match t with TStandard => 0 | TBlob => 1 end.

(* ASCII section names *)
Definition n_format_version : list N := [102;111;114;109;97;116;95;118;101;114;115;105;111;110].
Definition n_crate_version : list N := [99;114;97;116;101;95;118;101;114;115;105;111;110].
Definition n_tree_type : list N := [116;114;101;101;95;116;121;112;101].
Definition n_level_count : list N := [108;101;118;101;108;95;99;111;117;110;116].
Definition n_filter_hash_type : list N := [102;105;108;116;101;114;95;104;97;115;104;95;116;121;112;101].
Definition n_tables : list N := [116;97;98;108;101;115].
Definition n_blob_files : list N := [98;108;111;98;95;102;105;108;101;115].
Definition n_blob_gc_stats : list N := [98;108;111;98;95;103;99;95;115;116;97;116;115].

(** env!("CARGO_PKG_VERSION") = "3.1.9" *)
Definition crate_version_bytes : list N := [51; 46; 49; 46; 57].

(** src/version/mod.rs [Version::encode_into] l.613-703 *)
Definition encode_version (v : vfile) : list section :=
  [ (n_format_version, write_u8 3 (* FormatVersion::V3 *));
    (n_crate_version, crate_version_bytes);
    (n_tree_type, write_u8 (ttype_byte (vf_tree_type v)));
    (n_level_count, write_u8 (trunc 8 (N.of_nat (length (vf_levels v)))));
    (n_filter_hash_type, write_u8 0 (* ChecksumType::Xxh3 *));
    (n_tables, encode_tables_section (vf_levels v));
    (n_blob_files, encode_blob_files_section (vf_blobs v));
    (n_blob_gc_stats, encode_gc_section (vf_gc v)) ].

(** sfa src/toc/mod.rs [Toc::section]: first entry with that name *)
Fixpoint find_section (name : list N) (secs : list section) : option (list N) :=
  match secs with
  | [] => None
  | (n, p) :: secs' => if key_eqb n name then Some p else find_section name secs'
  end.

Definition get_section (name : list N) (secs : list section) : res (list N) :=
  match find_section name secs with Some p => Ok p | None => Err EUnrecoverable end.

Notation "'let!' x := e 'in' k" :=
  (match e with Ok x => k | Err err => Err err end)
  (at level 200, x name, e at level 100, k at level 200).

(** src/version/recovery.rs [recover] l.35-160, in its evaluation order:
    tables, blob_files, blob_gc_stats, then tree_type. The sections format_version,
    crate_version, level_count, filter_hash_type are not read here (src/manifest.rs reads
    them when a tree is opened). The file's checksum stored in "current" is NOT checked
    (recovery.rs l.39 TODO). *)
Definition decode_version_res (secs : list section) : res vfile :=
  let! s_tables := get_section n_tables secs in
  let? (levels, _r1) := decode_tables_section s_tables in
  let! s_blobs := get_section n_blob_files secs in
  let? (blobs, _r2) := decode_blob_files_section s_blobs in
  let! s_gc := get_section n_blob_gc_stats secs in
  let? (gc, _r3) := decode_gc_section s_gc in
  let! s_tt := get_section n_tree_type secs in
  let? (b, _r4) := rd 1 s_tt in
  if b =? 0 then Ok (mkVfile TStandard levels blobs gc)
  else if b =? 1 then Ok (mkVfile TBlob levels blobs gc)
  else Err EInvalidHeader.

Definition decode_version (secs : list section) : option vfile := res_opt (decode_version_res secs).

(** ** The "current" file: src/version/persist.rs l.46-49, recovery.rs [get_current_version] *)

(** version id u64 LE, checksum of the version file u128 LE, checksum type u8 (0 = xxh3) *)
Definition encode_current (version_id checksum : N) : list N :=
  write_u64_le version_id ++ write_u128_le checksum ++ write_u8 0.

(** only the first 8 bytes are ever read back *)
Definition decode_current (l : list N) : res N :=
  let? (id, _r) := rd 8 l in Ok id.

(** ** sfa 1.0.0 container framing *)

(** [Seek]/[take] with offsets that may be any u64: clipping the offset to the input
    length first does not change [skipn]/[firstn] and keeps the [nat] small *)
Definition skipN (n : N) (l : list N) : list N :=
  skipn (N.to_nat (N.min n (N.of_nat (length l)))) l.
Definition firstN (n : N) (l : list N) : list N :=
  firstn (N.to_nat (N.min n (N.of_nat (length l)))) l.

(** sfa src/writer.rs: sections are concatenated; [append_toc_entry] records
    (name, pos, len) for the section that just ended, but ONLY [if file_pos > 0], so
    the anonymous section before the first [start] gets no entry when it is empty. *)
Fixpoint sfa_toc_entries (pos : N) (secs : list section) : list (list N * N * N) :=
  match secs with
  | [] => []
  | (n, p) :: secs' =>
      let len := N.of_nat (length p) in
      (n, pos, len) :: sfa_toc_entries (pos + len) secs'
  end.

Definition sfa_body (secs : list section) : list N := flat_map snd secs.

(** sfa src/toc/entry.rs [TocEntry::write_into]: pos u64, len u64, name_len u16, name.
    (name longer than 65535: [expect] panic; not reachable with the fixed names) *)
Definition sfa_toc_entry (e : list N * N * N) : list N :=
  match e with
  | (n, pos, len) => write_u64_le pos ++ write_u64_le len ++ write_u16_le (N.of_nat (length n)) ++ n
  end.

(** sfa src/toc/writer.rs: "TOC!" , u32 entry count, entries *)
Definition sfa_toc (secs : list section) : list N :=
  [84; 79; 67; 33] ++ write_u32_le (N.of_nat (length secs))
  ++ flat_map sfa_toc_entry (sfa_toc_entries 0 secs).

(** sfa src/trailer/writer.rs: "SFA!", version 1, checksum type 0, xxh3-128 of the TOC
    bytes (an INPUT of the model), toc_pos u64, toc_len u64: 38 bytes *)
Definition sfa_trailer (toc_checksum toc_pos toc_len : N) : list N :=
  [83; 70; 65; 33] ++ write_u8 1 ++ write_u8 0 ++ write_u128_le toc_checksum
  ++ write_u64_le toc_pos ++ write_u64_le toc_len.

(** the complete file; [toc_checksum] must be xxh3_128 of [sfa_toc secs].
    Precondition (true for [encode_version]): the first section is non-empty. *)
Definition sfa_encode (secs : list section) (toc_checksum : N) : list N :=
  let body := sfa_body secs in
  let toc := sfa_toc secs in
  body ++ toc ++ sfa_trailer toc_checksum (N.of_nat (length body)) (N.of_nat (length toc)).

Definition version_file_bytes (v : vfile) (toc_checksum : N) : list N :=
  sfa_encode (encode_version v) toc_checksum.

(** sfa src/trailer/reader.rs: seek to End(-38); check magic, version, checksum type;
    returns (toc_checksum, toc_pos). toc_len is not read back. *)
Definition sfa_read_trailer (file : list N) : res (N * N) :=
  if Nat.ltb (length file) 38 then Err EEof (* seek before start: io error *)
  else
    let t := skipn (Nat.sub (length file) 38) file in
    match take_bytes 4 t with
    | None => Err EEof
    | Some (magic, t1) =>
        if negb (key_eqb magic [83; 70; 65; 33]) then Err EInvalidHeader
        else
          let? (ver, t2) := rd 1 t1 in
          if negb (ver =? 1) then Err EInvalidVersion
          else
            let? (ct, t3) := rd 1 t2 in
            if negb (ct =? 0) then Err (EInvalidTag ct)
            else
              let? (ck, t4) := rd 16 t3 in
              let? (toc_pos, _t5) := rd 8 t4 in
              Ok (ck, toc_pos)
    end.

(** sfa src/toc/entry.rs [TocEntry::read_from_file] *)
Definition sfa_read_toc_entry (l : list N) : res ((list N * N * N) * list N) :=
  let? (pos, l1) := rd 8 l in
  let? (len, l2) := rd 8 l1 in
  let? (nlen, l3) := rd 2 l2 in
  match take_bytes (N.to_nat nlen) l3 with
  | None => Err EEof
  | Some (name, l4) => Ok ((name, pos, len), l4)
  end.

(** sfa src/toc/reader.rs: seek to toc_pos, magic, u32 count, entries. The xxh3 check of
    the bytes read against the trailer's checksum is outside the model: the bytes that
    were hashed are returned so a harness can check them. *)
Definition sfa_read_toc (file : list N) (toc_pos : N) : res (list (list N * N * N) * list N) :=
  let l := skipN toc_pos file in
  match take_bytes 4 l with
  | None => Err EEof
  | Some (magic, l1) =>
      if negb (key_eqb magic [84; 79; 67; 33]) then Err EInvalidVersion
      else
        let? (count, l2) := rd 4 l1 in
        let? (entries, l3) := decode_items sfa_read_toc_entry (length l2) count l2 in
        Ok (entries, firstn (Nat.sub (length l) (length l3)) l)
  end.

(** sfa [TocEntry::buf_reader]: seek to pos, [take(len)]: a short file yields a short
    section (reads then fail with EOF later), not an error here *)
Definition sfa_section_payload (file : list N) (e : list N * N * N) : section :=
  match e with
  | (n, pos, len) => (n, firstN len (skipN pos file))
  end.

(** sfa [Reader::new] + all payloads; also returns (claimed toc checksum, toc bytes) *)
Definition sfa_decode (file : list N) : res (list section * (N * list N)) :=
  match sfa_read_trailer file with
  | Err e => Err e
  | Ok (ck, toc_pos) =>
      let? (entries, toc_bytes) := sfa_read_toc file toc_pos in
      Ok (map (sfa_section_payload file) entries, (ck, toc_bytes))
  end.
