(** The range-scan read path: bound widening, source selection (run culling),
    Merger (interval heap, lazily initialised from both ends), DoubleEndedPeekable,
    MvccStream, tombstone filter.
    Mirrors: src/range.rs (TreeIter::create_range, seqno_filter), src/merge.rs (Merger),
    src/mvcc_stream.rs (MvccStream), src/double_ended_peekable.rs, src/run_reader.rs
    (RunReader), src/version/run.rs (Run::range_overlap_indexes), src/key_range.rs
    (KeyRange::overlaps_with_bounds), src/memtable/mod.rs (Memtable::range),
    src/tree/mod.rs (create_internal_range, create_range), src/abstract_tree.rs
    (first_key_value, last_key_value, len, is_empty).

    Abstraction level: a memtable / a table is its InternalKey-sorted [list entry]; a
    leaf iterator over it ([SkipMap::range], [Table::range], [Table::iter]) is the list
    of the entries inside its bounds, consumed from either end ([src_next] pops the
    head, [src_next_back] pops the last element).  Everything above the leaf iterators
    is transliterated: no I/O errors are modelled (all [Result]s are [Ok]). *)
From LsmV Require Export Model.Tree.
Open Scope N_scope.

(** SeqNo::MAX = u64::MAX *)
Definition MAX_SEQNO : N := 18446744073709551615.

(** ** Bounds *)

(** the probe key (k, s) sorts strictly before [e] in InternalKey order
    (companion of [before_probe] in Model/Tree.v) *)
Definition after_probe (k : key) (s : N) (e : entry) : bool :=
  match key_cmp (ukey e) k with
  | Lt => false
  | Gt => true
  | Eq => seq e <? s
  end.

(** Bound<InternalKey> (the value type of the probe is irrelevant: not compared) *)
Inductive ibound := IIncl (k : key) (s : N) | IExcl (k : key) (s : N) | IUnb.

(** range.rs: TreeIter::create_range, [let lo = match range.start_bound()] *)
Definition widen_lo (b : bound) : ibound :=
  match b with
  | Incl k => IIncl k MAX_SEQNO
  | Excl k => IExcl k 0
  | Unb => IUnb
  end.

(** range.rs: TreeIter::create_range, [let hi = match range.end_bound()] *)
Definition widen_hi (b : bound) : ibound :=
  match b with
  | Incl k => IIncl k 0
  | Excl k => IExcl k MAX_SEQNO
  | Unb => IUnb
  end.

(** crossbeam-skiplist base.rs: above_lower_bound *)
Definition above_lower (b : ibound) (e : entry) : bool :=
  match b with
  | IUnb => true
  | IIncl k s => negb (before_probe k s e)
  | IExcl k s => after_probe k s e
  end.

(** crossbeam-skiplist base.rs: below_upper_bound *)
Definition below_upper (b : ibound) (e : entry) : bool :=
  match b with
  | IUnb => true
  | IIncl k s => negb (after_probe k s e)
  | IExcl k s => before_probe k s e
  end.

(** an entry lies inside the widened InternalKey bounds built by create_range *)
Definition ikey_in_range (lo hi : bound) (e : entry) : bool :=
  above_lower (widen_lo lo) e && below_upper (widen_hi hi) e.

(** memtable/mod.rs: Memtable::range (SkipMap::range with InternalKey bounds) *)
Definition mt_range (l : list entry) (lo hi : bound) : list entry :=
  filter (ikey_in_range lo hi) l.

(** table/mod.rs: Table::range (user-key bounds: set_lower_bound / set_upper_bound) *)
Definition table_range (t : table) (lo hi : bound) : list entry :=
  filter (fun e => in_bounds lo hi (ukey e)) (ents t).

(** range.rs: seqno_filter *)
Definition seqno_filter (item_seqno seqno : N) : bool := item_seqno <? seqno.

Definition sfilter (S : N) (l : list entry) : list entry :=
  filter (fun e => seqno_filter (seq e) S) l.

(** ** Run culling *)

(** key_range.rs: KeyRange::overlaps_with_bounds for the key range [mn, mx] *)
Definition kr_overlaps (mn mx : key) (lo hi : bound) : bool :=
  let lo_included := match lo with Incl k => key_leb k mx | Excl k => key_ltb k mx | Unb => true end in
  let hi_included := match hi with Incl k => key_leb mn k | Excl k => key_ltb mn k | Unb => true end in
  match lo, hi with
  | Unb, Unb => true
  | _, Unb => lo_included
  | Unb, _ => hi_included
  | _, _ => lo_included && hi_included
  end.

(** slice::partition_point on a slice partitioned by [p] (which [run_ok] guarantees for
    the predicates used below): the length of the leading block satisfying [p] *)
Fixpoint partition_point {A : Type} (p : A -> bool) (l : list A) : nat :=
  match l with
  | [] => O
  | x :: l' => if p x then S (partition_point p l') else O
  end.

(** version/run.rs: Run::range_overlap_indexes *)
Definition range_overlap_indexes (r : run) (lo hi : bound) : option (nat * nat) :=
  let len := length r in
  let i :=
    match lo with
    | Unb => O
    | Incl k => partition_point (fun t => key_ltb (kmax t) k) r
    | Excl k => partition_point (fun t => key_leb (kmax t) k) r
    end in
  if Nat.leb len i then None
  else
    let truncated := skipn i r in
    let oj :=
      match hi with
      | Unb => Some (len - 1)%nat
      | Incl k =>
          let idx := (i + partition_point (fun t => key_leb (kmin t) k) truncated)%nat in
          if Nat.eqb idx 0 then None else Some (idx - 1)%nat
      | Excl k =>
          let idx := (i + partition_point (fun t => key_ltb (kmin t) k) truncated)%nat in
          if Nat.eqb idx 0 then None else Some (idx - 1)%nat
      end in
    match oj with
    | None => None
    | Some j => if Nat.ltb j i then None else Some (i, j)
    end.

(** [run.get(i).expect(..).range(range)] *)
Definition tbl_range_at (r : run) (i : nat) (lo hi : bound) : list entry :=
  match nth_error r i with Some t => table_range t lo hi | None => [] end.

(** the tables strictly between index [i] and [j], each read with [Table::iter] (no
    bounds): what RunReader::next opens when [lo_reader] is exhausted ([self.lo += 1;
    if self.lo < self.hi]), resp. RunReader::next_back *)
Definition mid_tables (r : run) (i j : nat) : list table :=
  firstn (j - i - 1) (skipn (S i) r).

(** run_reader.rs: RunReader::new / RunReader::culled: everything the reader yields, in
    order: lo table with bounds, the inner tables unbounded, hi table (if hi > lo) with
    bounds.  [None]: RunReader::new returned None.  (The reader's own two-ended state
    machine is [rr_next]/[rr_next_back] below.) *)
Definition run_reader_items (r : run) (lo hi : bound) : option (list entry) :=
  match range_overlap_indexes r lo hi with
  | None => None
  | Some (i, j) =>
      Some (tbl_range_at r i lo hi ++
            (if Nat.ltb i j
             then concat (map ents (mid_tables r i j)) ++ tbl_range_at r j lo hi
             else []))
  end.

(** range.rs: create_range, [match run.len()]: the iterator pushed for one run *)
Definition run_source (r : run) (lo hi : bound) (S : N) : option (list entry) :=
  match r with
  | [] => None
  | [t] =>
      if kr_overlaps (kmin t) (kmax t) lo hi
      then Some (sfilter S (table_range t lo hi))
      else None
  | _ =>
      match run_reader_items r lo hi with
      | Some l => Some (sfilter S l)
      | None => None
      end
  end.

(** range.rs: create_range, the vector [iters] in push order: runs (levels in order),
    sealed memtables (oldest first), active memtable, ephemeral memtable with its own
    seqno *)
Definition range_sources (sv : superversion) (eph : option (memtable * N))
    (lo hi : bound) (S : N) : list (list entry) :=
  flat_map (fun r => match run_source r lo hi S with Some l => [l] | None => [] end)
           (all_runs (ver sv))
  ++ map (fun m => sfilter S (mt_range (ments m) lo hi)) (sealed sv)
  ++ [sfilter S (mt_range (ments (active sv)) lo hi)]
  ++ match eph with
     | Some (m, s) => [sfilter s (mt_range (ments m) lo hi)]
     | None => []
     end.

(** ** RunReader as the two-ended state machine it is (run_reader.rs) *)

Record run_reader := mkRR {
  rr_run : run; rr_lo : nat; rr_hi : nat;
  rr_lo_reader : option (list entry); rr_hi_reader : option (list entry) }.

(** leaf iterator steps *)
Definition src_next (l : list entry) : option entry * list entry :=
  match l with [] => (None, []) | x :: l' => (Some x, l') end.

Definition src_next_back (l : list entry) : option entry * list entry :=
  match l with [] => (None, []) | x :: _ => (Some (last l x), removelast l) end.

Definition tbl_iter_at (r : run) (i : nat) : list entry :=
  match nth_error r i with Some t => ents t | None => [] end.

(** RunReader::new (via culled with (Some lo, Some hi)) *)
Definition rr_new (r : run) (lo hi : bound) : option run_reader :=
  match range_overlap_indexes r lo hi with
  | None => None
  | Some (i, j) =>
      Some (mkRR r i j (Some (tbl_range_at r i lo hi))
                 (if Nat.ltb i j then Some (tbl_range_at r j lo hi) else None))
  end.

(** impl Iterator for RunReader: next; the loop runs at most once per table *)
Fixpoint rr_next (fuel : nat) (s : run_reader) : option entry * run_reader :=
  match fuel with
  | O => (None, s)
  | S fuel' =>
      match rr_lo_reader s with
      | Some rd =>
          match src_next rd with
          | (Some item, rd') =>
              (Some item, mkRR (rr_run s) (rr_lo s) (rr_hi s) (Some rd') (rr_hi_reader s))
          | (None, _) =>
              let lo' := S (rr_lo s) in
              rr_next fuel'
                (mkRR (rr_run s) lo' (rr_hi s)
                      (if Nat.ltb lo' (rr_hi s) then Some (tbl_iter_at (rr_run s) lo') else None)
                      (rr_hi_reader s))
          end
      | None =>
          match rr_hi_reader s with
          | Some rd =>
              let (o, rd') := src_next rd in
              (o, mkRR (rr_run s) (rr_lo s) (rr_hi s) None (Some rd'))
          | None => (None, s)
          end
      end
  end.

(** impl DoubleEndedIterator for RunReader: next_back ([self.hi -= 1] is only reached
    with hi > lo >= 0) *)
Fixpoint rr_next_back (fuel : nat) (s : run_reader) : option entry * run_reader :=
  match fuel with
  | O => (None, s)
  | S fuel' =>
      match rr_hi_reader s with
      | Some rd =>
          match src_next_back rd with
          | (Some item, rd') =>
              (Some item, mkRR (rr_run s) (rr_lo s) (rr_hi s) (rr_lo_reader s) (Some rd'))
          | (None, _) =>
              let hi' := (rr_hi s - 1)%nat in
              rr_next_back fuel'
                (mkRR (rr_run s) (rr_lo s) hi' (rr_lo_reader s)
                      (if Nat.ltb (rr_lo s) hi' then Some (tbl_iter_at (rr_run s) hi') else None))
          end
      | None =>
          match rr_lo_reader s with
          | Some rd =>
              let (o, rd') := src_next_back rd in
              (o, mkRR (rr_run s) (rr_lo s) (rr_hi s) (Some rd') None)
          | None => (None, s)
          end
      end
  end.

(** enough for the loops of rr_next / rr_next_back: they advance one table per turn *)
Definition rr_fuel (r : run) : nat := S (S (length r)).

Inductive pull := Front | Back.

(** the result of each next / next_back call on a RunReader, in call order *)
Fixpoint rr_pulls (fuel : nat) (s : run_reader) (ps : list pull) : list (option entry) :=
  match ps with
  | [] => []
  | p :: ps' =>
      let (o, s') := match p with Front => rr_next fuel s | Back => rr_next_back fuel s end in
      o :: rr_pulls fuel s' ps'
  end.

(** ** Merger (merge.rs) *)

(** The interval heap is a bag of HeapItem(idx, item); only pop_min / pop_max are
    observable.  On equal InternalKeys the real heap's choice depends on its internal
    layout; here the earliest-pushed-last element among equals wins.  Under the tree
    invariant InternalKeys are pairwise distinct, so ties never occur (see Proofs). *)
Definition heap := list (nat * entry).

(** IntervalHeap::pop_min *)
Fixpoint heap_pop_min (h : heap) : option ((nat * entry) * heap) :=
  match h with
  | [] => None
  | x :: h' =>
      match heap_pop_min h' with
      | None => Some (x, [])
      | Some (y, r) => if ikey_ltb (snd y) (snd x) then Some (y, x :: r) else Some (x, h')
      end
  end.

(** IntervalHeap::pop_max *)
Fixpoint heap_pop_max (h : heap) : option ((nat * entry) * heap) :=
  match h with
  | [] => None
  | x :: h' =>
      match heap_pop_max h' with
      | None => Some (x, [])
      | Some (y, r) => if ikey_ltb (snd x) (snd y) then Some (y, x :: r) else Some (x, h')
      end
  end.

Record merger := mkMg {
  m_srcs : list (list entry);     (* self.iterators: what each one still holds *)
  m_heap : heap;
  m_ilo : bool;                   (* initialized_lo *)
  m_ihi : bool }.                 (* initialized_hi *)

(** Merger::new *)
Definition merger_new (srcs : list (list entry)) : merger := mkMg srcs [] false false.

(** Merger::initialize_lo / initialize_hi: [pop] is next resp. next_back *)
Fixpoint init_from (pop : list entry -> option entry * list entry) (idx : nat)
    (srcs : list (list entry)) (h : heap) : list (list entry) * heap :=
  match srcs with
  | [] => ([], h)
  | s :: rest =>
      let (o, s') := pop s in
      let h' := match o with Some x => (idx, x) :: h | None => h end in
      let (rest', h'') := init_from pop (S idx) rest h' in
      (s' :: rest', h'')
  end.

Fixpoint set_nth {A : Type} (i : nat) (x : A) (l : list A) : list A :=
  match l, i with
  | [], _ => []
  | _ :: l', O => x :: l'
  | y :: l', S i' => y :: set_nth i' x l'
  end.

(** impl Iterator for Merger: next *)
Definition merge_next (m : merger) : option entry * merger :=
  let m1 :=
    if m_ilo m then m
    else let (srcs', h') := init_from src_next O (m_srcs m) (m_heap m) in
         mkMg srcs' h' true (m_ihi m) in
  match heap_pop_min (m_heap m1) with
  | None => (None, m1)
  | Some ((idx, item), h') =>
      let (o, s') := src_next (nth idx (m_srcs m1) []) in
      let h'' := match o with Some x => (idx, x) :: h' | None => h' end in
      (Some item, mkMg (set_nth idx s' (m_srcs m1)) h'' (m_ilo m1) (m_ihi m1))
  end.

(** impl DoubleEndedIterator for Merger: next_back *)
Definition merge_next_back (m : merger) : option entry * merger :=
  let m1 :=
    if m_ihi m then m
    else let (srcs', h') := init_from src_next_back O (m_srcs m) (m_heap m) in
         mkMg srcs' h' (m_ilo m) true in
  match heap_pop_max (m_heap m1) with
  | None => (None, m1)
  | Some ((idx, item), h') =>
      let (o, s') := src_next_back (nth idx (m_srcs m1) []) in
      let h'' := match o with Some x => (idx, x) :: h' | None => h' end in
      (Some item, mkMg (set_nth idx s' (m_srcs m1)) h'' (m_ilo m1) (m_ihi m1))
  end.

(** ** DoubleEndedPeekable, MvccStream, Filter: generic in the inner iterator *)

(** double_ended_peekable.rs: MaybePeeked *)
Inductive maybe_peeked := Unpeeked | Peeked (o : option entry).

(** MaybePeeked::into_peeked_value / peeked_value_ref *)
Definition peeked_value (p : maybe_peeked) : option entry :=
  match p with Peeked (Some x) => Some x | _ => None end.

Section Layers.
  Variable I : Type.
  Variable inext : I -> option entry * I.
  Variable inext_back : I -> option entry * I.

  Record dep := mkDep { d_iter : I; d_front : maybe_peeked; d_back : maybe_peeked }.

  (** impl Iterator for DoubleEndedPeekable: next ([self.front.take()] leaves Unpeeked) *)
  Definition dep_next (d : dep) : option entry * dep :=
    match d_front d with
    | Peeked (Some x) => (Some x, mkDep (d_iter d) Unpeeked (d_back d))
    | Peeked None => (peeked_value (d_back d), mkDep (d_iter d) Unpeeked Unpeeked)
    | Unpeeked =>
        match inext (d_iter d) with
        | (Some x, it') => (Some x, mkDep it' Unpeeked (d_back d))
        | (None, it') => (peeked_value (d_back d), mkDep it' Unpeeked Unpeeked)
        end
    end.

  (** impl DoubleEndedIterator for DoubleEndedPeekable: next_back *)
  Definition dep_next_back (d : dep) : option entry * dep :=
    match d_back d with
    | Peeked (Some x) => (Some x, mkDep (d_iter d) (d_front d) Unpeeked)
    | Peeked None => (peeked_value (d_front d), mkDep (d_iter d) Unpeeked Unpeeked)
    | Unpeeked =>
        match inext_back (d_iter d) with
        | (Some x, it') => (Some x, mkDep it' (d_front d) Unpeeked)
        | (None, it') => (peeked_value (d_front d), mkDep it' Unpeeked Unpeeked)
        end
    end.

  (** DoubleEndedPeekable::next_if *)
  Definition dep_next_if (f : entry -> bool) (d : dep) : option entry * dep :=
    match dep_next d with
    | (Some item, d') =>
        if f item then (Some item, d')
        else (None, mkDep (d_iter d') (Peeked (Some item)) (d_back d'))
    | (None, d') => (None, mkDep (d_iter d') (Peeked None) (d_back d'))
    end.

  (** DoubleEndedPeekable::peek_back *)
  Definition dep_peek_back (d : dep) : option entry * dep :=
    let d1 :=
      match d_back d with
      | Unpeeked => let (o, it') := inext_back (d_iter d) in mkDep it' (d_front d) (Peeked o)
      | Peeked _ => d
      end in
    (match peeked_value (d_back d1) with
     | Some x => Some x
     | None => peeked_value (d_front d1)
     end, d1).

  (** MvccStream::drain_key_min; every iteration consumes an item: [fuel] bounds it *)
  Fixpoint drain_key_min (fuel : nat) (k : key) (d : dep) : dep :=
    match fuel with
    | O => d
    | S fuel' =>
        match dep_next_if (fun kv => key_eqb (ukey kv) k) d with
        | (Some _, d') => drain_key_min fuel' k d'
        | (None, d') => d'
        end
    end.

  (** impl Iterator for MvccStream: next *)
  Definition mvcc_next (fuel : nat) (d : dep) : option entry * dep :=
    match dep_next d with
    | (None, d') => (None, d')
    | (Some head, d') => (Some head, drain_key_min fuel (ukey head) d')
    end.

  (** impl DoubleEndedIterator for MvccStream: next_back (the [loop]) *)
  Fixpoint mvcc_next_back (fuel : nat) (d : dep) : option entry * dep :=
    match fuel with
    | O => (None, d)
    | S fuel' =>
        match dep_next_back d with
        | (None, d') => (None, d')
        | (Some tail, d') =>
            match dep_peek_back d' with
            | (None, d'') => (Some tail, d'')
            | (Some prev, d'') =>
                if key_ltb (ukey prev) (ukey tail) then (Some tail, d'')
                else mvcc_next_back fuel' d''
            end
        end
    end.

  (** range.rs: [iter.filter(|x| !x.key.is_tombstone())]: core::iter::Filter::next *)
  Fixpoint live_next (fuel : nat) (d : dep) : option entry * dep :=
    match fuel with
    | O => (None, d)
    | S fuel' =>
        match mvcc_next (S fuel') d with
        | (None, d') => (None, d')
        | (Some x, d') => if negb (is_tomb x) then (Some x, d') else live_next fuel' d'
        end
    end.

  (** core::iter::Filter::next_back *)
  Fixpoint live_next_back (fuel : nat) (d : dep) : option entry * dep :=
    match fuel with
    | O => (None, d)
    | S fuel' =>
        match mvcc_next_back (S fuel') d with
        | (None, d') => (None, d')
        | (Some x, d') => if negb (is_tomb x) then (Some x, d') else live_next_back fuel' d'
        end
    end.
End Layers.

Arguments mkDep {I}.
Arguments d_iter {I}.
Arguments d_front {I}.
Arguments d_back {I}.

(** ** The tree iterator *)

(** TreeIter: Filter<MvccStream<Merger>> *)
Definition tree_iter := dep merger.

(** TreeIter::create_range *)
Definition tree_iter_new (sv : superversion) (eph : option (memtable * N))
    (lo hi : bound) (S : N) : tree_iter :=
  mkDep (merger_new (range_sources sv eph lo hi S)) Unpeeked Unpeeked.

(** the loops above consume one item per iteration: total item count + 1 is enough *)
Definition range_fuel (sv : superversion) (eph : option (memtable * N))
    (lo hi : bound) (S : N) : nat :=
  Datatypes.S (length (concat (range_sources sv eph lo hi S))).

Definition ti_next (fuel : nat) (it : tree_iter) : option entry * tree_iter :=
  live_next merger merge_next fuel it.

Definition ti_next_back (fuel : nat) (it : tree_iter) : option entry * tree_iter :=
  live_next_back merger merge_next_back fuel it.

Fixpoint run_pulls (fuel : nat) (it : tree_iter) (ps : list pull) : list (option entry) :=
  match ps with
  | [] => []
  | p :: ps' =>
      let (o, it') := match p with Front => ti_next fuel it | Back => ti_next_back fuel it end in
      o :: run_pulls fuel it' ps'
  end.

(** the result of each next / next_back call, in call order *)
Definition sv_range_run (sv : superversion) (eph : option (memtable * N))
    (lo hi : bound) (S : N) (ps : list pull) : list (option entry) :=
  run_pulls (range_fuel sv eph lo hi S) (tree_iter_new sv eph lo hi S) ps.

Fixpoint collect_front (fuel n : nat) (it : tree_iter) : list entry :=
  match n with
  | O => []
  | Datatypes.S n' =>
      match ti_next fuel it with
      | (None, _) => []
      | (Some e, it') => e :: collect_front fuel n' it'
      end
  end.

(** [for item in iter]: all-Front consumption until the first None *)
Definition sv_range (sv : superversion) (lo hi : bound) (S : N) : list entry :=
  collect_front (range_fuel sv None lo hi S) (range_fuel sv None lo hi S)
                (tree_iter_new sv None lo hi S).

(** tree/mod.rs: create_range maps an item to (user_key, value) *)
Definition kv_of (e : entry) : key * list N := (ukey e, val e).

(** abstract_tree.rs: iter = range(..); first_key_value = iter.next(); last_key_value =
    iter.next_back(); len counts the items; is_empty = first_key_value is None *)
Definition sv_first_key_value (sv : superversion) (eph : option (memtable * N)) (S : N) : option entry :=
  match sv_range_run sv eph Unb Unb S [Front] with [Some e] => Some e | _ => None end.

Definition sv_last_key_value (sv : superversion) (eph : option (memtable * N)) (S : N) : option entry :=
  match sv_range_run sv eph Unb Unb S [Back] with [Some e] => Some e | _ => None end.

Definition sv_len (sv : superversion) (S : N) : nat := length (sv_range sv Unb Unb S).

Definition sv_is_empty (sv : superversion) (eph : option (memtable * N)) (S : N) : bool :=
  match sv_first_key_value sv eph S with Some _ => false | None => true end.
