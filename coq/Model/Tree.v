(** Containers (memtable, table, run, level, version, superversion), the point-read
    path and the decidable structural invariant [check_inv_sv].
    Mirrors: src/memtable/mod.rs (Memtable::get), src/table/mod.rs (Table::get),
    src/version/run.rs (Run::get_for_key), src/tree/mod.rs
    (get_internal_entry_from_version / _from_sealed_memtables / _from_tables). *)
From LsmV Require Export Model.Entry.
Open Scope N_scope.

(** [e] sorts strictly before the probe key (k, s) in InternalKey order *)
Definition before_probe (k : key) (s : N) (e : entry) : bool :=
  match key_cmp (ukey e) k with
  | Lt => true
  | Gt => false
  | Eq => s <? seq e
  end.

(** SkipMap::range(lower..).next() / partition point of a sorted slab *)
Fixpoint lower_bound (k : key) (s : N) (l : list entry) : option entry :=
  match l with
  | [] => None
  | e :: l' => if before_probe k s e then lower_bound k s l' else Some e
  end.

(** Memtable::get *)
Definition slab_get (l : list entry) (k : key) (S : N) : option entry :=
  if S =? 0 then None
  else match lower_bound k (S - 1) l with
       | Some e => if key_eqb (ukey e) k then Some e else None
       | None => None
       end.

Record memtable := mkM { mid : N; ments : list entry }.

Definition mt_get (m : memtable) (k : key) (S : N) : option entry := slab_get (ments m) k S.

(** A table: entries carry *effective* sequence numbers (local + global_seqno), as the
    crate's iterators return them; [slo]/[shi] are the *stored* (local) seqno bounds. *)
Record table := mkT {
  tid : N; gseq : N; ents : list entry;
  kmin : key; kmax : key; slo : N; shi : N;
  n_items : N; n_tomb : N; n_weak : N }.

(** saturating_sub *)
Definition ssub (a b : N) : N := a - b.

(** Table::get; [flt] is the (Bloom) filter as an arbitrary predicate: table id -> key -> bool *)
Definition table_get (flt : N -> key -> bool) (t : table) (k : key) (S : N) : option entry :=
  let S' := ssub S (gseq t) in
  if S' <=? slo t then None
  else if negb (flt (tid t) k) then None
  else slab_get (ents t) k S.

Definition run := list table.
Definition level := list run.

(** Run::get_for_key: partition_point(max < key), then filter(min <= key) *)
Fixpoint run_get_for_key (r : run) (k : key) : option table :=
  match r with
  | [] => None
  | t :: r' =>
      if key_ltb (kmax t) k then run_get_for_key r' k
      else if key_leb (kmin t) k then Some t else None
  end.

Record version := mkV { vid : N; levels : list level }.

Definition all_runs (v : version) : list run := concat (levels v).
Definition all_tables (v : version) : list table := concat (all_runs v).

(** get_internal_entry_from_tables: first hit wins (even a tombstone) *)
Fixpoint runs_get (flt : N -> key -> bool) (rs : list run) (k : key) (S : N) : option entry :=
  match rs with
  | [] => None
  | r :: rs' =>
      match run_get_for_key r k with
      | Some t =>
          match table_get flt t k S with
          | Some e => Some e
          | None => runs_get flt rs' k S
          end
      | None => runs_get flt rs' k S
      end
  end.

Record superversion := mkSV {
  sv_seq : N;
  active : memtable;
  sealed : list memtable;      (* oldest first, as stored by SealedMemtables *)
  ver : version }.

(** get_internal_entry_from_sealed_memtables: newest first *)
Fixpoint slabs_get (ms : list memtable) (k : key) (S : N) : option entry :=
  match ms with
  | [] => None
  | m :: ms' => match mt_get m k S with Some e => Some e | None => slabs_get ms' k S end
  end.

(** the raw internal entry the lookup stops at (before ignore_tombstone_value) *)
Definition sv_get_raw (flt : N -> key -> bool) (sv : superversion) (k : key) (S : N) : option entry :=
  match mt_get (active sv) k S with
  | Some e => Some e
  | None =>
      match slabs_get (rev (sealed sv)) k S with
      | Some e => Some e
      | None => runs_get flt (all_runs (ver sv)) k S
      end
  end.

(** Tree::get_internal_entry_from_version *)
Definition sv_get (flt : N -> key -> bool) (sv : superversion) (k : key) (S : N) : option entry :=
  visible (sv_get_raw flt sv k S).

(** ** Logical content *)
Definition containers (sv : superversion) : list (list entry) :=
  ments (active sv) :: map ments (rev (sealed sv)) ++ map ents (all_tables (ver sv)).

Definition content (sv : superversion) : list entry := concat (containers sv).

(** ** The decidable structural invariant *)

(** strictly sorted in InternalKey order *)
Fixpoint sorted_b (l : list entry) : bool :=
  match l with
  | [] => true
  | e :: l' =>
      match l' with
      | [] => true
      | e' :: _ => ikey_ltb e e' && sorted_b l'
      end
  end.

Definition min_seq (l : list entry) : N :=
  match l with [] => 0 | e :: l' => fold_left (fun a x => N.min a (seq x)) l' (seq e) end.
Definition max_seq (l : list entry) : N := fold_left (fun a x => N.max a (seq x)) l 0.

Definition count_b (f : entry -> bool) (l : list entry) : N :=
  fold_left (fun a x => if f x then a + 1 else a) l 0.

Definition is_weak (e : entry) : bool := match ty e with WeakTomb => true | _ => false end.

(** stored metadata equals what the entries imply (table/writer: first/last key,
    lowest/highest seqno, item/tombstone/weak-tombstone counts) *)
Definition table_meta_ok (t : table) : bool :=
  match ents t with
  | [] => false
  | e0 :: _ =>
      key_eqb (kmin t) (ukey e0)
      && key_eqb (kmax t) (ukey (last (ents t) e0))
      && (slo t + gseq t =? min_seq (ents t))
      && (shi t + gseq t =? max_seq (ents t))
      && (n_items t =? N.of_nat (length (ents t)))
      && (n_tomb t =? count_b is_tomb (ents t))
      && (n_weak t =? count_b is_weak (ents t))
  end.

Definition table_ok (t : table) : bool := sorted_b (ents t) && table_meta_ok t.

(** tables of a run: ascending by min key and pairwise disjoint (max_i < min_{i+1}) *)
Fixpoint run_disjoint_b (r : run) : bool :=
  match r with
  | [] => true
  | t :: r' =>
      match r' with
      | [] => true
      | t' :: _ => key_ltb (kmax t) (kmin t') && run_disjoint_b r'
      end
  end.

Definition run_ok (r : run) : bool :=
  match r with [] => false | _ => forallb table_ok r && run_disjoint_b r end.

(** every version of a key in [c] is newer than every version of that key in [c'] *)
Definition newer_than (c c' : list entry) : bool :=
  forallb (fun e => forallb (fun e' => negb (key_eqb (ukey e) (ukey e')) || (seq e' <? seq e)) c') c.

(** recency order over the containers in lookup order *)
Fixpoint recency_b (cs : list (list entry)) : bool :=
  match cs with
  | [] => true
  | c :: cs' => forallb (newer_than c) cs' && recency_b cs'
  end.

Fixpoint nodup_N_b (l : list N) : bool :=
  match l with
  | [] => true
  | x :: l' => negb (existsb (N.eqb x) l') && nodup_N_b l'
  end.

Definition check_inv_sv (sv : superversion) : bool :=
  sorted_b (ments (active sv))
  && forallb (fun m => sorted_b (ments m)) (sealed sv)
  && (N.of_nat (length (levels (ver sv))) =? 7)
  && forallb run_ok (all_runs (ver sv))
  && nodup_N_b (map tid (all_tables (ver sv)))
  && recency_b (containers sv).
