(** Byte-exact model of the crate's DATA BLOCK format (property C12).

    Sources (fjall-rs/lsm-tree 3.1.9):
    - src/table/block/encoder.rs       generic [Encoder]: restart intervals, prefix truncation
    - src/table/block/trailer.rs       [Trailer::write], [TRAILER_START_MARKER], [TRAILER_SIZE]
    - src/table/block/binary_index/    [Builder::write] (u16 / u32 step), [Reader::get]
    - src/table/block/hash_index/      [Builder::set], [MARKER_FREE], [MARKER_CONFLICT], [Reader::get]
    - src/table/block/decoder.rs       [Decoder]: [new], [next], [partition_point], [seek],
                                       [fill_stack], [consume_stack_top], [next_back]
    - src/table/data_block/mod.rs      [Encodable/Decodable for InternalValue], [DataBlockParsedItem],
                                       [DataBlock::point_read], [encode_into]
    - src/table/data_block/iter.rs     [Iter::seek], [Iter::seek_to_offset]
    - src/table/util.rs                [longest_shared_prefix_length], [compare_prefixed_slice]
    - src/table/block/header.rs        [Header] encode / decode

    Conventions
    - bytes are [N] ([< 256]), byte strings [list N]; positions/lengths inside a block are
      [nat] ([usize]); numbers that are written to / read from the bytes are [N].
    - a Rust panic ([unwrap!] = [expect], slice indexing out of bounds, [get_unchecked] out
      of bounds = UB) is the "no value" outcome of the model ([None] / [PPanic] / [DPanic]).
    - the key hash (xxh3_64, src/hash.rs) is NOT modelled: it is the Section variable
      [hash : key -> N].
    - the hash ratio is an [f32]; the model takes the resulting BUCKET COUNT [nb]:
        hash_index/builder.rs [calculate_bucket_count]:
          nb = if ratio > 0.0 then max 1 ((item_count as f32 * ratio) as u32) else 0
      ([nb = 0]: no hash index). *)
From LsmV Require Export Base.Bytes Model.Ints Model.Entry.
Open Scope N_scope.

(** ** Value type tags: src/value_type.rs [From<ValueType> for u8], [TryFrom<u8>] *)
Definition vtype_tag (t : vtype) : N :=
  match t with Value => 0 | Tomb => 1 | WeakTomb => 2 | Ind => 4 end.

Definition vtype_of_tag (n : N) : option vtype :=
  match n with
  | 0 => Some Value
  | 1 => Some Tomb
  | 2 => Some WeakTomb
  | 4 => Some Ind
  | _ => None
  end.

(** ValueType::is_tombstone *)
Definition vtype_is_tomb (t : vtype) : bool :=
  match t with Tomb | WeakTomb => true | _ => false end.

(** ** src/table/util.rs *)

(** util.rs: [longest_shared_prefix_length] (zip, take_while equal, count) *)
Fixpoint longest_shared_prefix_length (s1 s2 : key) : nat :=
  match s1, s2 with
  | c1 :: s1', c2 :: s2' =>
      if c1 =? c2 then S (longest_shared_prefix_length s1' s2') else O
  | _, _ => O
  end.

(** util.rs: [compare_prefixed_slice]; [[u8]::cmp] is [key_cmp] *)
Definition compare_prefixed_slice (prefix suffix needle : key) : comparison :=
  match needle with
  | [] => if (Nat.ltb (0)%nat (length prefix + length suffix)%nat) then Gt else Eq
  | _ :: _ =>
      let max_pfx_len := Nat.min (length prefix) (length needle) in
      match key_cmp (firstn max_pfx_len prefix) (firstn max_pfx_len needle) with
      | Eq =>
          let rest_len := (length prefix - length needle)%nat in (* saturating_sub *)
          if (Nat.ltb (0)%nat (rest_len)%nat) then Gt
          else key_cmp suffix (skipn max_pfx_len needle)
      | ordering => ordering
      end
  end.

(** ** Item encoding: data_block/mod.rs [impl Encodable<()> for InternalValue] *)

(** [encode_full_into]:
    [value type u8] [seqno varint u64] [key len varint u16] [key] ([value len varint u32] [value])?
    the last two only if the item is not a tombstone (the value of a tombstone is DROPPED). *)
Definition encode_full (e : entry) : list N :=
  write_u8 (vtype_tag (ty e))
  ++ write_u64_varint (seq e)
  ++ write_u16_varint (N.of_nat (length (ukey e)))
  ++ ukey e
  ++ (if is_tomb e then []
      else write_u32_varint (N.of_nat (length (val e))) ++ val e).

(** [encode_truncated_into]:
    [value type u8] [seqno varint u64] [shared len varint u16] [rest len varint u16] [rest key]
    ([value len varint u32] [value])? *)
Definition encode_truncated (e : entry) (shared_len : nat) : list N :=
  write_u8 (vtype_tag (ty e))
  ++ write_u64_varint (seq e)
  ++ write_u16_varint (N.of_nat shared_len)
  ++ write_u16_varint (N.of_nat (length (ukey e) - shared_len))
  ++ skipn shared_len (ukey e)
  ++ (if is_tomb e then []
      else write_u32_varint (N.of_nat (length (val e))) ++ val e).

(** ** Hash index builder: block/hash_index/{mod,builder}.rs *)
Definition MARKER_FREE : N := 254.
Definition MARKER_CONFLICT : N := 255.
Definition MAX_POINTERS_FOR_HASH_INDEX : N := 254.
Definition TRAILER_START_MARKER : N := 255.
Definition TRAILER_SIZE : nat := 31.

(** replace position [i] of a list ([*get_unchecked_mut(i) = x]) *)
Fixpoint set_nth (i : nat) (x : N) (l : list N) : list N :=
  match l with
  | [] => []
  | y :: l' => match i with O => x :: l' | S i' => y :: set_nth i' x l' end
  end.

Section WithHash.
Variable hash : key -> N.

(** hash_index/mod.rs: [calculate_bucket_position] = hash64(key) % bucket_count *)
Definition bucket_position (k : key) (bucket_count : nat) : nat :=
  N.to_nat (hash k mod N.of_nat bucket_count).

(** hash_index/builder.rs: [Builder::set] (the returned bool is unused by the encoder) *)
Definition hash_set (buckets : list N) (k : key) (binary_index_pos : N) : list N :=
  let bucket_pos := bucket_position k (length buckets) in
  let curr_marker := nth bucket_pos buckets 0 in
  if curr_marker =? MARKER_CONFLICT then buckets
  else if curr_marker =? MARKER_FREE then set_nth bucket_pos binary_index_pos buckets
  else if curr_marker =? binary_index_pos then buckets
  else set_nth bucket_pos MARKER_CONFLICT buckets.

(** ** The generic encoder: block/encoder.rs *)

(** [usize::is_multiple_of] ([x.is_multiple_of(0)] is [x == 0]) *)
Definition is_multiple_of (a b : N) : bool :=
  if b =? 0 then a =? 0 else a mod b =? 0.

(** [Encoder] fields: writer, item_count, restart_count, binary_index_builder (Vec<u32>),
    hash_index_builder (Vec<u8>), base_key *)
Record enc := mkEnc {
  e_w : list N; e_cnt : N; e_rc : N; e_bin : list N; e_hash : list N; e_base : key }.

(** encoder.rs: [Encoder::write] *)
Definition enc_write (restart_interval : N) (st : enc) (item : entry) : enc :=
  let is_restart := is_multiple_of (e_cnt st) restart_interval in
  let rc := if is_restart then e_rc st + 1 else e_rc st in
  let bin :=
    if is_restart && (0 <? restart_interval)
    then e_bin st ++ [trunc 32 (N.of_nat (length (e_w st)))] (* writer.len() as u32 *)
    else e_bin st in
  let w :=
    e_w st ++
    (if is_restart then encode_full item
     else encode_truncated item (longest_shared_prefix_length (e_base st) (ukey item))) in
  let base := if is_restart then ukey item else e_base st in
  let restart_idx := rc - 1 in
  let hsh :=
    if (0 <? N.of_nat (length (e_hash st))) && (restart_idx <? MAX_POINTERS_FOR_HASH_INDEX)
    then hash_set (e_hash st) (ukey item) restart_idx
    else e_hash st in
  mkEnc w (e_cnt st + 1) rc bin hsh base.

(** binary_index/builder.rs: [Builder::write]: (bytes, step_size, len).
    u16 pointers iff the LAST pointer fits in 16 bits. *)
Definition bin_write (offs : list N) : list N * N * N :=
  let step := if last offs 0 <? 65536 then 2 else 4 in
  let bytes :=
    if step =? 2 then flat_map (fun o => write_u16_le o) offs   (* offset as u16 *)
    else flat_map (fun o => write_u32_le o) offs in
  (bytes, step, N.of_nat (length offs)).

(** trailer.rs: [Trailer::write] (= [Encoder::finish]) *)
Definition enc_finish (restart_interval : N) (st : enc) : list N :=
  let w1 := e_w st ++ write_u8 TRAILER_START_MARKER in
  let binary_index_offset := trunc 32 (N.of_nat (length w1)) in
  let '(bin_bytes, step, binary_index_len) := bin_write (e_bin st) in
  let w2 := w1 ++ bin_bytes in
  (* bucket_count() : u32; the Vec was created from a u32 count, so no truncation *)
  let hash_index_len := N.of_nat (length (e_hash st)) in
  let write_hash :=
    (0 <? hash_index_len) && (binary_index_len <=? MAX_POINTERS_FOR_HASH_INDEX) in
  let hash_index_offset := if write_hash then trunc 32 (N.of_nat (length w2)) else 0 in
  let w3 := if write_hash then w2 ++ flat_map write_u8 (e_hash st) else w2 in
  w3
  ++ write_u8 restart_interval
  ++ write_u8 step
  ++ write_u32_le binary_index_len
  ++ write_u32_le binary_index_offset
  ++ write_u32_le (if 0 <? hash_index_offset then hash_index_len else 0)
  ++ write_u32_le hash_index_offset
  ++ write_u8 1            (* prefix truncation: always on *)
  ++ write_u8 0 ++ write_u16_le 0   (* fixed key size: unused *)
  ++ write_u8 0 ++ write_u32_le 0   (* fixed value size: unused *)
  ++ write_u32_le (e_cnt st).

(** encoder.rs [Encoder::new] + data_block/mod.rs [DataBlock::encode_into]:
    [nb] buckets initialised to FREE; base key = first key. *)
Definition enc_init (nb : N) (first_key : key) : enc :=
  mkEnc [] 0 0 [] (repeat MARKER_FREE (N.to_nat nb)) first_key.

(** [DataBlock::encode_into_vec(items, restart_interval, ratio)] with [nb] the bucket count
    that [ratio] yields. The crate PANICS for [restart_interval = 0]
    ([item_count / restart_interval] in [Encoder::new]) and for an empty [items]
    ([expect("chunk should not be empty")]); the model returns [[]] there. *)
Definition encode_block (restart_interval nb : N) (items : list entry) : list N :=
  if restart_interval =? 0 then []
  else
    match items with
    | [] => []
    | first :: _ =>
        enc_finish restart_interval
          (fold_left (enc_write restart_interval) items (enc_init nb (ukey first)))
    end.

(** ** Reading *)

(** [&bytes[a..b]] *)
Definition slice (bytes : list N) (a b : nat) : option (list N) :=
  if (Nat.leb (b)%nat (length bytes)%nat) && (Nat.leb (a)%nat (b)%nat)
  then Some (firstn (b - a) (skipn a bytes))
  else None.

(** a read on a [Cursor] positioned at absolute position [pos] of [bytes]: value and new
    absolute position. Reading at or beyond the end is an error (UnexpectedEof). *)
Definition cur_read (rd : list N -> option (N * list N)) (bytes : list N) (pos : nat)
  : option (N * nat) :=
  let l := skipn pos bytes in
  match rd l with
  | Some (v, rest) => Some (v, (pos + (length l - length rest))%nat)
  | None => None
  end.

(** [Trailer] fields, in file order (trailer.rs [Trailer::write]) *)
Record trailer := mkTr {
  t_ri : N; t_step : N; t_binlen : N; t_binoff : N; t_hashlen : N; t_hashoff : N; t_count : N }.

(** trailer.rs: [trailer_offset] / [as_slice] + the reads done by [Decoder::new],
    [DataBlock::get_binary_index_reader], [get_hash_index_reader], [Trailer::item_count] *)
Definition read_trailer (bytes : list N) : option trailer :=
  if (Nat.ltb (length bytes)%nat (TRAILER_SIZE)%nat) then None
  else
    let s := skipn (length bytes - TRAILER_SIZE) bytes in
    match read_u8 s with None => None | Some (ri, s1) =>
    match read_u8 s1 with None => None | Some (step, s2) =>
    match read_u32_le s2 with None => None | Some (binlen, s3) =>
    match read_u32_le s3 with None => None | Some (binoff, s4) =>
    match read_u32_le s4 with None => None | Some (hashlen, s5) =>
    match read_u32_le s5 with None => None | Some (hashoff, s6) =>
    match read_u32_le (skipn 9 s6) with None => None | Some (count, _) =>
      Some (mkTr ri step binlen binoff hashlen hashoff count)
    end end end end end end end.

(** [DataBlock::len] *)
Definition block_len (bytes : list N) : option N :=
  match read_trailer bytes with Some t => Some (t_count t) | None => None end.

(** data_block/mod.rs: [DataBlockParsedItem] ([SliceIndexes] are (start, end) pairs) *)
Record parsed := mkP {
  p_ty : vtype; p_seq : N;
  p_prefix : option (nat * nat); p_key : nat * nat; p_val : option (nat * nat) }.

(** outcome of [parse_full] / [parse_truncated]: [PItem p end_pos] ([end_pos] = offset +
    reader.position()), [PEnd] = [None] because of the trailer marker, [PPanic] *)
Inductive pres := PItem (p : parsed) (end_pos : nat) | PEnd | PPanic.

(** data_block/mod.rs: [Decodable::parse_full] *)
Definition parse_full (bytes : list N) (offset : nat) : pres :=
  match cur_read read_u8 bytes offset with None => PPanic | Some (vt, p1) =>
  if vt =? TRAILER_START_MARKER then PEnd else
  match vtype_of_tag vt with None => PPanic | Some t =>
  match cur_read read_u64_varint bytes p1 with None => PPanic | Some (sq, p2) =>
  match cur_read read_u16_varint bytes p2 with None => PPanic | Some (klen, p3) =>
  let key_start := p3 in
  let key_len := N.to_nat klen in
  let p4 := (p3 + key_len)%nat in                         (* seek_relative *)
  let is_value := negb (vtype_is_tomb t) in
  match (if is_value then cur_read read_u32_varint bytes p4 else Some (0, p4)) with
  | None => PPanic
  | Some (vlen, p5) =>
      let val_offset := p5 in
      let val_len := N.to_nat vlen in
      let p6 := (p5 + val_len)%nat in                     (* seek_relative *)
      PItem (mkP t sq None (key_start, (key_start + key_len)%nat)
               (if is_value then Some (val_offset, (val_offset + val_len)%nat) else None))
            p6
  end end end end end.

(** data_block/mod.rs: [Decodable::parse_truncated] *)
Definition parse_truncated (bytes : list N) (offset base_key_offset : nat) : pres :=
  match cur_read read_u8 bytes offset with None => PPanic | Some (vt, p1) =>
  if vt =? TRAILER_START_MARKER then PEnd else
  match vtype_of_tag vt with None => PPanic | Some t =>
  match cur_read read_u64_varint bytes p1 with None => PPanic | Some (sq, p2) =>
  match cur_read read_u16_varint bytes p2 with None => PPanic | Some (shared, p3) =>
  match cur_read read_u16_varint bytes p3 with None => PPanic | Some (rest, p4) =>
  let shared_prefix_len := N.to_nat shared in
  let rest_key_len := N.to_nat rest in
  let key_offset := p4 in
  let p5 := (p4 + rest_key_len)%nat in
  let is_value := negb (vtype_is_tomb t) in
  match (if is_value then cur_read read_u32_varint bytes p5 else Some (0, p5)) with
  | None => PPanic
  | Some (vlen, p6) =>
      let val_offset := p6 in
      let val_len := N.to_nat vlen in
      let p7 := (p6 + val_len)%nat in
      PItem (mkP t sq
               (Some (base_key_offset, (base_key_offset + shared_prefix_len)%nat))
               (key_offset, (key_offset + rest_key_len)%nat)
               (if is_value then Some (val_offset, (val_offset + val_len)%nat) else None))
            p7
  end end end end end end.

(** data_block/mod.rs: [Decodable::parse_restart_key] as used by [Decoder::get_key_at]
    ([expect]: a [None] is a panic). The value type is NOT validated here. *)
Definition get_key_at (bytes : list N) (pos : nat) : option (key * N) :=
  match cur_read read_u8 bytes pos with None => None | Some (vt, p1) =>
  if vt =? TRAILER_START_MARKER then None else
  match cur_read read_u64_varint bytes p1 with None => None | Some (sq, p2) =>
  match cur_read read_u16_varint bytes p2 with None => None | Some (klen, p3) =>
  match slice bytes p3 (p3 + N.to_nat klen) with
  | Some k => Some (k, sq)
  | None => None
  end end end end.

(** [ParsedItem::compare_key] ([get_unchecked] out of range = UB = [None]) *)
Definition compare_key (bytes : list N) (p : parsed) (needle : key) : option comparison :=
  match slice bytes (fst (p_key p)) (snd (p_key p)) with
  | None => None
  | Some rest_key =>
      match p_prefix p with
      | Some (a, b) =>
          match slice bytes a b with
          | Some prefix => Some (compare_prefixed_slice prefix rest_key needle)
          | None => None
          end
      | None => Some (key_cmp rest_key needle)
      end
  end.

(** [ParsedItem::materialize] *)
Definition materialize (bytes : list N) (p : parsed) : option entry :=
  match slice bytes (fst (p_key p)) (snd (p_key p)) with
  | None => None
  | Some rest_key =>
      match (match p_prefix p with
             | Some (a, b) =>
                 match slice bytes a b with
                 | Some prefix => Some (prefix ++ rest_key)   (* Slice::fused *)
                 | None => None
                 end
             | None => Some rest_key
             end) with
      | None => None
      | Some k =>
          match (match p_val p with
                 | Some (a, b) => slice bytes a b
                 | None => Some []                             (* Slice::empty *)
                 end) with
          | None => None
          | Some v => Some (mkE k (p_seq p) (p_ty p) v)
          end
      end
  end.

(** ** Binary index reader: block/binary_index/reader.rs *)
Record bin_reader := mkBR { br_bytes : list N; br_step : nat }.

(** [Reader::new(bytes, offset, len, step_size)] *)
Definition bin_reader_new (bytes : list N) (offset len step : N) : option bin_reader :=
  let offset := N.to_nat offset in
  let size := (N.to_nat len * N.to_nat step)%nat in
  match slice bytes offset (offset + size) with
  | Some b => Some (mkBR b (N.to_nat step))
  | None => None
  end.

(** [Reader::len] (division by a zero step size panics) *)
Definition bin_reader_len (r : bin_reader) : option nat :=
  match br_step r with
  | O => None
  | _ => Some (Nat.div (length (br_bytes r)) (br_step r))
  end.

(** [Reader::get]: u16 iff step = 2, otherwise u32 *)
Definition bin_get (r : bin_reader) (idx : nat) : option nat :=
  let offset := (idx * br_step r)%nat in
  if (Nat.ltb (length (br_bytes r))%nat (offset)%nat) then None
  else
    let b := skipn offset (br_bytes r) in
    match (if Nat.eqb (br_step r) 2 then read_u16_le b else read_u32_le b) with
    | Some (v, _) => Some (N.to_nat v)
    | None => None
    end.

(** ** Decoder: block/decoder.rs *)

(** [LoScanner] and [HiScanner]; [hi_idx = None] models [ptr_idx == usize::MAX] *)
Record dstate := mkD {
  lo_off : nat; lo_rem : nat; lo_base : option nat;
  hi_off : nat; hi_idx : option nat; hi_stack : list nat; hi_base : option nat }.

(** the cached metadata of a [Decoder] *)
Record decoder := mkDec { d_ri : nat; d_step : N; d_binoff : N; d_binlen : N }.

(** [Decoder::new] *)
Definition decoder_new (bytes : list N) : option (decoder * dstate) :=
  match read_trailer bytes with
  | None => None
  | Some t =>
      Some (mkDec (N.to_nat (t_ri t)) (t_step t) (t_binoff t) (t_binlen t),
            mkD 0 0 None 0 (Some (N.to_nat (t_binlen t))) [] None)
  end.

Definition get_binary_index_reader (bytes : list N) (d : decoder) : option bin_reader :=
  bin_reader_new bytes (d_binoff d) (d_binlen d) (d_step d).

(** [Decoder::parse_current_item] *)
Definition parse_current_item (bytes : list N) (offset : nat) (base : option nat)
  (is_restart : bool) : pres :=
  if is_restart then parse_full bytes offset
  else match base with
       | Some b => parse_truncated bytes offset b
       | None => PPanic   (* expect("should parse truncated item") *)
       end.

Inductive dres := DItem (p : parsed) (st : dstate) | DEnd (st : dstate) | DPanic.

(** [impl Iterator for Decoder]: [next] *)
Definition dec_next (bytes : list N) (d : decoder) (st : dstate) : dres :=
  if (match hi_base st with Some _ => true | None => false end)
     && (Nat.leb (hi_off st)%nat (lo_off st)%nat)
  then DEnd st
  else
    let is_restart := Nat.eqb (lo_rem st) 0 in
    match parse_current_item bytes (lo_off st) (lo_base st) is_restart with
    | PPanic => DPanic
    | r =>
        (* usize::from(restart_interval) - 1 underflows for a zero interval *)
        if is_restart && Nat.eqb (d_ri d) 0 then DPanic
        else
          let rem' := if is_restart then (d_ri d - 1)%nat else (lo_rem st - 1)%nat in
          match r with
          | PItem p end_pos =>
              let base' := if is_restart then Some (fst (p_key p)) else lo_base st in
              DItem p (mkD end_pos rem' base'
                           (hi_off st) (hi_idx st) (hi_stack st) (hi_base st))
          | _ =>
              DEnd (mkD (lo_off st) rem' (lo_base st)
                        (hi_off st) (hi_idx st) (hi_stack st) (hi_base st))
          end
    end.

(** forward iteration [iter().map(materialize).collect()]; fuel = #bytes + 1 *)
Fixpoint dec_collect (fuel : nat) (bytes : list N) (d : decoder) (st : dstate)
  : option (list entry) :=
  match fuel with
  | O => None
  | S f =>
      match dec_next bytes d st with
      | DPanic => None
      | DEnd _ => Some []
      | DItem p st' =>
          match materialize bytes p with
          | None => None
          | Some e =>
              match dec_collect f bytes d st' with
              | Some l => Some (e :: l)
              | None => None
              end
          end
      end
  end.

Definition decode_all (bytes : list N) : option (list entry) :=
  match decoder_new bytes with
  | None => None
  | Some (d, st) => dec_collect (S (length bytes)) bytes d st
  end.

(** the [while left < right] loop shared by [partition_point] / [partition_point_2]:
    final [left] *)
Fixpoint pp_loop (fuel : nat) (bytes : list N) (r : bin_reader) (pred : key -> N -> bool)
  (lft rgt : nat) : option nat :=
  if (Nat.ltb (lft)%nat (rgt)%nat) then
    match fuel with
    | O => None
    | S f =>
        let mid := Nat.div (lft + rgt) 2 in
        match bin_get r mid with
        | None => None
        | Some offset =>
            match get_key_at bytes offset with
            | None => None
            | Some (hk, hs) =>
                if pred hk hs then pp_loop f bytes r pred (mid + 1)%nat rgt
                else pp_loop f bytes r pred lft mid
            end
        end
    end
  else Some lft.

(** [Decoder::partition_point]: outer [None] = panic, inner [None] = empty binary index *)
Definition partition_point (bytes : list N) (d : decoder) (pred : key -> N -> bool)
  : option (option (nat * nat)) :=
  match get_binary_index_reader bytes d with None => None | Some r =>
  match bin_reader_len r with None => None | Some len =>
  if Nat.eqb len 0 then Some None else
  match pp_loop (S len) bytes r pred 0 len with None => None | Some lft =>
  if Nat.eqb lft 0 then Some (Some (O, O))
  else if Nat.eqb lft len then
    match bin_get r (len - 1) with
    | Some off => Some (Some (off, (len - 1)%nat)) | None => None end
  else
    match bin_get r (lft - 1) with
    | Some off => Some (Some (off, (lft - 1)%nat)) | None => None end
  end end end.

(** [Decoder::partition_point_2] *)
Definition partition_point_2 (bytes : list N) (d : decoder) (pred : key -> N -> bool)
  : option (option (nat * nat)) :=
  match get_binary_index_reader bytes d with None => None | Some r =>
  match bin_reader_len r with None => None | Some len =>
  if Nat.eqb len 0 then Some None else
  match pp_loop (S len) bytes r pred 0 len with None => None | Some lft =>
  if Nat.eqb lft len then
    match bin_get r (len - 1) with
    | Some off => Some (Some (off, (len - 1)%nat)) | None => None end
  else
    match bin_get r lft with
    | Some off => Some (Some (off, lft)) | None => None end
  end end end.

(** [Decoder::seek(pred, second_partition = false)]: [Some (true, st')] / [Some (false, st)] *)
Definition dec_seek (bytes : list N) (d : decoder) (st : dstate) (pred : key -> N -> bool)
  : option (bool * dstate) :=
  match partition_point bytes d pred with
  | None => None
  | Some None => Some (false, st)
  | Some (Some (offset, _)) =>
      Some (true, mkD offset (lo_rem st) (lo_base st)
                      (hi_off st) (hi_idx st) (hi_stack st) (hi_base st))
  end.

(** [Decoder::set_lo_offset] (= [Iter::seek_to_offset]) *)
Definition set_lo_offset (st : dstate) (offset : nat) : dstate :=
  mkD offset (lo_rem st) (lo_base st) (hi_off st) (hi_idx st) (hi_stack st) (hi_base st).

(** data_block/iter.rs: the peek / next loop of [Iter::seek]. Result: outer [None] = panic
    or no fuel; [Some None] = [seek] returned false; [Some (Some (p, st'))] = [seek]
    returned true with [p] peeked (it is what the following [next] yields) and [st'] the
    decoder state behind it. *)
Fixpoint seek_loop (fuel : nat) (bytes : list N) (d : decoder) (needle : key) (st : dstate)
  : option (option (parsed * dstate)) :=
  match fuel with
  | O => None
  | S f =>
      match dec_next bytes d st with
      | DPanic => None
      | DEnd _ => Some None
      | DItem p st' =>
          match compare_key bytes p needle with
          | None => None
          | Some Eq => Some (Some (p, st'))
          | Some Gt => Some None
          | Some Lt => seek_loop f bytes d needle st'
          end
      end
  end.

(** data_block/iter.rs: [Iter::seek(needle)] with predicate [head_key < needle] *)
Definition iter_seek (bytes : list N) (d : decoder) (st : dstate) (needle : key)
  : option (option (parsed * dstate)) :=
  match dec_seek bytes d st (fun hk _ => key_ltb hk needle) with
  | None => None
  | Some (false, _) => Some None
  | Some (true, st1) => seek_loop (S (length bytes)) bytes d needle st1
  end.

(** one round of the linear scan of [DataBlock::point_read] *)
Inductive sres := SFound (e : entry) | SStop | SCont | SPanic.

Definition pr_item (bytes : list N) (needle : key) (seqno : N) (p : parsed) : sres :=
  match compare_key bytes p needle with
  | None => SPanic
  | Some Gt => SStop
  | Some Lt => SCont
  | Some Eq =>
      if seqno <=? p_seq p then SCont       (* item.seqno >= seqno: continue *)
      else match materialize bytes p with Some e => SFound e | None => SPanic end
  end.

(** [for item in iter { ... }] of [point_read]: outer [None] = panic / no fuel *)
Fixpoint pr_loop (fuel : nat) (bytes : list N) (d : decoder) (needle : key) (seqno : N)
  (st : dstate) : option (option entry) :=
  match fuel with
  | O => None
  | S f =>
      match dec_next bytes d st with
      | DPanic => None
      | DEnd _ => Some None
      | DItem p st' =>
          match pr_item bytes needle seqno p with
          | SPanic => None
          | SFound e => Some (Some e)
          | SStop => Some None
          | SCont => pr_loop f bytes d needle seqno st'
          end
      end
  end.

(** the scan, started with an [Iter] whose front slot holds the peeked item [p] *)
Definition pr_from_peeked (bytes : list N) (d : decoder) (needle : key) (seqno : N)
  (p : parsed) (st : dstate) : option (option entry) :=
  match pr_item bytes needle seqno p with
  | SPanic => None
  | SFound e => Some (Some e)
  | SStop => Some None
  | SCont => pr_loop (S (length bytes)) bytes d needle seqno st
  end.

(** the "fallback to binary search" arm of [point_read] *)
Definition pr_binary (bytes : list N) (needle : key) (seqno : N) : option (option entry) :=
  match decoder_new bytes with
  | None => None
  | Some (d, st) =>
      match iter_seek bytes d st needle with
      | None => None
      | Some None => Some None                    (* !iter.seek(needle): return None *)
      | Some (Some (p, st')) => pr_from_peeked bytes d needle seqno p st'
      end
  end.

(** [DataBlock::get_hash_index_reader]: outer [None] = panic, inner [None] = no hash index *)
Definition get_hash_index_reader (bytes : list N) : option (option (list N)) :=
  match read_trailer bytes with
  | None => None
  | Some t =>
      if t_hashlen t =? 0 then Some None
      else
        let off := N.to_nat (t_hashoff t) in
        match slice bytes off (off + N.to_nat (t_hashlen t)) with
        | Some h => Some (Some h)
        | None => None
        end
  end.

(** hash_index/reader.rs: [Reader::get] *)
Definition hash_get (h : list N) (k : key) : N := nth (bucket_position k (length h)) h 0.

(** [DataBlock::point_read(needle, seqno)]: outer [None] = panic / malformed block;
    [Some None] = not found; [Some (Some e)] = found *)
Definition point_read_res (bytes : list N) (needle : key) (seqno : N)
  : option (option entry) :=
  match get_hash_index_reader bytes with
  | None => None
  | Some None => pr_binary bytes needle seqno
  | Some (Some h) =>
      let m := hash_get h needle in
      if m =? MARKER_FREE then Some None
      else if m =? MARKER_CONFLICT then pr_binary bytes needle seqno
      else
        match decoder_new bytes with
        | None => None
        | Some (d, st) =>
            match get_binary_index_reader bytes d with
            | None => None
            | Some r =>
                match bin_get r (N.to_nat m) with
                | None => None
                | Some offset =>
                    pr_loop (S (length bytes)) bytes d needle seqno (set_lo_offset st offset)
                end
            end
        end
  end.

Definition point_read (bytes : list N) (needle : key) (seqno : N) : option entry :=
  match point_read_res bytes needle seqno with
  | Some r => r
  | None => None
  end.

(** ** Reverse iteration: [fill_stack], [consume_stack_top], [next_back] *)

(** the [for _ in 1..restart_interval] loop of [fill_stack]; [n] = iterations lft *)
Fixpoint fill_trunc (n : nat) (bytes : list N) (base : nat) (off : nat) (stack : list nat)
  : option (nat * list nat) :=
  match n with
  | O => Some (off, stack)
  | S n' =>
      match parse_truncated bytes off base with
      | PPanic => None
      | PEnd => Some (off, stack)                         (* break *)
      | PItem _ end_pos => fill_trunc n' bytes base end_pos (stack ++ [off])
      end
  end.

(** [Decoder::fill_stack]; the stack is kept bottom first ([push] appends) *)
Definition fill_stack (bytes : list N) (d : decoder) (st : dstate) : option dstate :=
  match hi_idx st with None => None (* get(usize::MAX) *) | Some idx =>
  match get_binary_index_reader bytes d with None => None | Some r =>
  match bin_get r idx with None => None | Some offset =>
  match parse_full bytes offset with
  | PPanic => None
  | PEnd =>
      (* hi.offset = offset; nothing pushed; the loop then needs a base key offset *)
      if (Nat.leb (d_ri d)%nat (1)%nat)
      then Some (mkD (lo_off st) (lo_rem st) (lo_base st) offset (hi_idx st) (hi_stack st) (hi_base st))
      else match hi_base st with
           | None => None  (* expect("should exist") *)
           | Some b =>
               match fill_trunc (d_ri d - 1) bytes b offset (hi_stack st) with
               | None => None
               | Some (off', stk) =>
                   Some (mkD (lo_off st) (lo_rem st) (lo_base st) off' (hi_idx st) stk (hi_base st))
               end
           end
  | PItem p end_pos =>
      let b := fst (p_key p) in
      match fill_trunc (d_ri d - 1) bytes b end_pos (hi_stack st ++ [offset]) with
      | None => None
      | Some (off', stk) =>
          Some (mkD (lo_off st) (lo_rem st) (lo_base st) off' (hi_idx st) stk (Some b))
      end
  end end end end.

(** [Decoder::consume_stack_top]: outer [None] = panic *)
Definition consume_stack_top (bytes : list N) (st : dstate) : option (option parsed * dstate) :=
  match rev (hi_stack st) with
  | [] => Some (None, st)
  | offset :: rest_rev =>
      let stk := rev rest_rev in
      let st1 := mkD (lo_off st) (lo_rem st) (lo_base st) (hi_off st) (hi_idx st) stk (hi_base st) in
      if (Nat.ltb (0)%nat (lo_off st)%nat) && (Nat.ltb (offset)%nat (lo_off st)%nat) then Some (None, st1)
      else
        let st2 := mkD (lo_off st) (lo_rem st) (lo_base st) offset (hi_idx st) stk (hi_base st) in
        let is_restart := match stk with [] => true | _ => false end in
        match parse_current_item bytes offset (hi_base st) is_restart with
        | PPanic => None
        | PEnd => Some (None, st2)
        | PItem p _ => Some (Some p, st2)
        end
  end.

(** [impl DoubleEndedIterator for Decoder]: [next_back]; outer [None] = panic *)
Definition dec_next_back (bytes : list N) (d : decoder) (st : dstate)
  : option (option parsed * dstate) :=
  match consume_stack_top bytes st with
  | None => None
  | Some (Some p, st1) => Some (Some p, st1)
  | Some (None, st1) =>
      match hi_idx st1 with
      | None => Some (None, st1)
      | Some idx =>
          match idx with
          | O =>   (* wrapping_sub(1) == usize::MAX *)
              Some (None, mkD (lo_off st1) (lo_rem st1) (lo_base st1)
                              (hi_off st1) None (hi_stack st1) (hi_base st1))
          | S idx' =>
              let st2 := mkD (lo_off st1) (lo_rem st1) (lo_base st1)
                             (hi_off st1) (Some idx') (hi_stack st1) (hi_base st1) in
              match fill_stack bytes d st2 with
              | None => None
              | Some st3 => consume_stack_top bytes st3
              end
          end
      end
  end.

(** backward iteration [iter().rev().map(materialize).collect()] *)
Fixpoint dec_collect_back (fuel : nat) (bytes : list N) (d : decoder) (st : dstate)
  : option (list entry) :=
  match fuel with
  | O => None
  | S f =>
      match dec_next_back bytes d st with
      | None => None
      | Some (None, _) => Some []
      | Some (Some p, st') =>
          match materialize bytes p with
          | None => None
          | Some e =>
              match dec_collect_back f bytes d st' with
              | Some l => Some (e :: l)
              | None => None
              end
          end
      end
  end.

Definition decode_all_back (bytes : list N) : option (list entry) :=
  match decoder_new bytes with
  | None => None
  | Some (d, st) => dec_collect_back (S (length bytes)) bytes d st
  end.

(** mixed consumption ("ping-pong"): [true] = [next], [false] = [next_back].
    The plain [Decoder] is driven (the [DoubleEndedPeekable] wrapper only matters when
    one end runs dry while the other holds a peeked item, which plain next / next_back
    calls never create). *)
Fixpoint dec_ping_pong (code : list bool) (bytes : list N) (d : decoder) (st : dstate)
  : option (list (option entry)) :=
  match code with
  | [] => Some []
  | true :: code' =>
      match dec_next bytes d st with
      | DPanic => None
      | DEnd st' =>
          match dec_ping_pong code' bytes d st' with
          | Some l => Some (None :: l) | None => None end
      | DItem p st' =>
          match materialize bytes p, dec_ping_pong code' bytes d st' with
          | Some e, Some l => Some (Some e :: l)
          | _, _ => None
          end
      end
  | false :: code' =>
      match dec_next_back bytes d st with
      | None => None
      | Some (None, st') =>
          match dec_ping_pong code' bytes d st' with
          | Some l => Some (None :: l) | None => None end
      | Some (Some p, st') =>
          match materialize bytes p, dec_ping_pong code' bytes d st' with
          | Some e, Some l => Some (Some e :: l)
          | _, _ => None
          end
      end
  end.

Definition ping_pong (code : list bool) (bytes : list N) : option (list (option entry)) :=
  match decoder_new bytes with
  | None => None
  | Some (d, st) => dec_ping_pong code bytes d st
  end.

End WithHash.

(** ** Block header: src/table/block/header.rs *)

(** src/file.rs [MAGIC_BYTES] *)
Definition MAGIC_BYTES : list N := [76; 83; 77; 3].   (* b"LSM\x03" *)

(** block/type.rs *)
Inductive block_type := BData | BIndex | BFilter | BMeta.
Definition block_type_tag (t : block_type) : N :=
  match t with BData => 0 | BIndex => 1 | BFilter => 2 | BMeta => 3 end.
Definition block_type_of_tag (n : N) : option block_type :=
  match n with 0 => Some BData | 1 => Some BIndex | 2 => Some BFilter | 3 => Some BMeta | _ => None end.

Record header := mkH {
  h_type : block_type; h_checksum : N; h_data_length : N; h_uncompressed_length : N }.

(** the checksummed part of [Header::encode_into] *)
Definition header_body (h : header) : list N :=
  MAGIC_BYTES
  ++ write_u8 (block_type_tag (h_type h))
  ++ write_u128_le (h_checksum h)
  ++ write_u32_le (h_data_length h)
  ++ write_u32_le (h_uncompressed_length h).

(** [Header::encode_into]; [xxh3_128 : list N -> N] is the (unmodelled) 128-bit hash, of
    which the low 4 bytes are stored *)
Definition encode_header (xxh3_128 : list N -> N) (h : header) : list N :=
  header_body h ++ write_u32_le (trunc 32 (xxh3_128 (header_body h))).

(** [Header::serialized_len] = 4 + 1 + 16 + 4 + 4 + 4 *)
Definition header_serialized_len : nat := 33.

(** [Header::decode_from]: [None] = any error (short read, bad magic, bad block type,
    header checksum mismatch) *)
Definition decode_header (xxh3_128 : list N -> N) (bytes : list N) : option (header * list N) :=
  match take_bytes 4 bytes with None => None | Some (magic, r1) =>
  if negb (list_N_eqb magic MAGIC_BYTES) then None else
  match read_u8 r1 with None => None | Some (bt, r2) =>
  match block_type_of_tag bt with None => None | Some t =>
  match read_u128_le r2 with None => None | Some (cs, r3) =>
  match read_u32_le r3 with None => None | Some (dl, r4) =>
  match read_u32_le r4 with None => None | Some (ul, r5) =>
  let got := trunc 32 (xxh3_128 (firstn 29 bytes)) in
  match read_u32_le r5 with None => None | Some (expected, r6) =>
  if got =? expected then Some (mkH t cs dl ul, r6) else None
  end end end end end end end.
