(** The standard Bloom filter of lsm-tree 3.1.9.

    Sources
    - src/table/filter/standard_bloom/builder.rs  [secondary_hash] l.10-13,
      [Builder::build] l.33-53, [with_fp_rate] l.58-86, [with_bpk] l.93-127,
      [calculate_m] l.129-150, [set_with_hash] l.153-168
    - src/table/filter/standard_bloom/mod.rs  [StandardBloomFilterReader::new] l.37-89,
      [contains_hash] l.102-121
    - src/table/filter/bit_array/builder.rs [enable_bit] l.9-12, [Builder::enable_bit] l.36-44
    - src/table/filter/bit_array/reader.rs  [get_bit] l.8-13, [BitArrayReader::get] l.32-40
    - src/table/filter/mod.rs [BloomConstructionPolicy::is_active] l.36-41, [FilterType]
    - src/table/writer/filter/full.rs [FullFilterWriter::finish] l.52-95,
      src/table/writer/mod.rs l.275-277 (keys are registered only if the policy is active)

    The key hash (xxh3-64 of the user key, [crate::hash::hash64]) is an abstract INPUT:
    a number [< 2^64]. The float computations that pick [m] and [k] are not modelled:
    [m] (bit count) and [k] (probe count) are inputs; see the comments at [with_bpk_m].

    A Rust panic is modelled as [None] / [BPanic]. *)
From LsmV Require Export Base.Bytes Model.Ints.
Open Scope N_scope.

(** ** u64 wrapping arithmetic *)
Definition wadd (a b : N) : N := (a + b) mod 2 ^ 64.      (* u64::wrapping_add *)
Definition wmul (a b : N) : N := (a * b) mod 2 ^ 64.      (* u64::wrapping_mul *)

(** builder.rs [secondary_hash]: [h1.wrapping_shr(32).wrapping_mul(0x517cc1b727220a95)] *)
Definition secondary_hash (h1 : N) : N := wmul (N.shiftr h1 32) 5871781006564002453.

(** ** Bit array: bit [idx] lives in byte [idx / 8] under mask [0x80 >> (idx % 8)]
    (most significant bit first) *)

(** bit_array/builder.rs [enable_bit(byte, idx)]: [byte | (0b1000_0000 >> idx)] *)
Definition enable_bit (byte idx : N) : N := N.lor byte (N.shiftr 128 idx).

(** bit_array/reader.rs [get_bit(byte, idx)]: [(byte & (0b1000_0000 >> idx)) > 0] *)
Definition get_bit (byte idx : N) : bool := 0 <? N.land byte (N.shiftr 128 idx).

Fixpoint list_update (l : list N) (i : nat) (v : N) : list N :=
  match l, i with
  | [], _ => []
  | _ :: l', O => v :: l'
  | x :: l', S i' => x :: list_update l' i' v
  end.

(** bit_array/builder.rs [Builder::enable_bit]; [None] = the
    [.expect("should be in bounds")] panic *)
Definition bit_enable (bits : list N) (idx : N) : option (list N) :=
  if N.of_nat (length bits) <=? idx / 8 then None
  else
    match nth_error bits (N.to_nat (idx / 8)) with
    | None => None
    | Some byte => Some (list_update bits (N.to_nat (idx / 8)) (enable_bit byte (idx mod 8)))
    end.

(** bit_array/reader.rs [BitArrayReader::get]; [None] = panic (out of bounds) *)
Definition bit_get (bits : list N) (idx : N) : option bool :=
  if N.of_nat (length bits) <=? idx / 8 then None
  else
    match nth_error bits (N.to_nat (idx / 8)) with
    | None => None
    | Some byte => Some (get_bit byte (idx mod 8))
    end.

(** ** Probing: enhanced double hashing.
<<
   let mut h2 = secondary_hash(h1);
   for i in 1..=(self.k as u64) {
       let idx = h1 % (self.m as u64);        // m == 0: panic (remainder by zero)
       ... bit idx ...
       h1 = h1.wrapping_add(h2);
       h2 = h2.wrapping_mul(i);               // sic: mul, and i starts at 1
   }
>>
    [n] = remaining iterations, [i] = loop variable. With [k = 0] the body never runs
    (so not even [m = 0] panics). *)

(** builder.rs [set_with_hash] l.153-168 *)
Fixpoint set_loop (n : nat) (m i h1 h2 : N) (bits : list N) : option (list N) :=
  match n with
  | O => Some bits
  | S n' =>
      if m =? 0 then None
      else
        match bit_enable bits (h1 mod m) with
        | None => None
        | Some bits' => set_loop n' m (i + 1) (wadd h1 h2) (wmul h2 i) bits'
        end
  end.

Definition bloom_set (m k : N) (bits : list N) (h : N) : option (list N) :=
  set_loop (N.to_nat k) m 1 h (secondary_hash h) bits.

(** mod.rs [contains_hash] l.102-121: stops at the first missing bit *)
Fixpoint contains_loop (n : nat) (m i h1 h2 : N) (bits : list N) : option bool :=
  match n with
  | O => Some true
  | S n' =>
      if m =? 0 then None
      else
        match bit_get bits (h1 mod m) with
        | None => None
        | Some false => Some false
        | Some true => contains_loop n' m (i + 1) (wadd h1 h2) (wmul h2 i) bits
        end
  end.

(** [None] = panic *)
Definition bloom_contains_opt (m k : N) (bits : list N) (h : N) : option bool :=
  contains_loop (N.to_nat k) m 1 h (secondary_hash h) bits.

(** ** Construction *)

(** [BitArrayBuilder::with_capacity(bytes)]: [vec![0; bytes]] *)
Definition zero_bytes (nbytes : N) : list N := repeat 0 (N.to_nat nbytes).

(** the writer's loop [for hash in bloom_hash_buffer { builder.set_with_hash(hash) }]
    (writer/filter/full.rs l.73-75) *)
Fixpoint build_loop (m k : N) (bits : list N) (hashes : list N) : option (list N) :=
  match hashes with
  | [] => Some bits
  | h :: hs =>
      match bloom_set m k bits h with
      | None => None
      | Some bits' => build_loop m k bits' hs
      end
  end.

(** A builder with [m] bits and [m / 8] bytes, as [with_fp_rate] allocates it
    (builder.rs l.82: [with_capacity(m / 8)]); [with_bpk] allocates [bytes] and sets
    [m = bytes * 8] (l.123-124), the same thing. Both constructors force [k >= 1]
    ([.max(1)], l.79, l.111). [None] = panic. *)
Definition bloom_build_opt (m k : N) (hashes : list N) : option (list N) :=
  build_loop m k (zero_bytes (m / 8)) hashes.

(** Signatures without the panic channel: a panic is mapped to [[]] / [false]. These are
    only meaningful where the [_opt] versions return [Some] (theorems in Proofs/Bloom.v
    say when). *)
Definition bloom_build (m k : N) (hashes : list N) : list N :=
  match bloom_build_opt m k hashes with Some b => b | None => [] end.
Definition bloom_contains (m k : N) (bits : list N) (h : N) : bool :=
  match bloom_contains_opt m k bits h with Some b => b | None => false end.

(** ** Choosing [m] (integer part only)

    [with_bpk(n, bpk)] (builder.rs l.93-127): [m0 = n * (bpk as usize)];
    [bytes = (m0 as f32 / 8.0).ceil() as usize]; [m = bytes * 8];
    [k = max((bpk * LN_2) as usize, 1)].
    [bpk_trunc] stands for [bpk as usize] (truncation toward zero, so 0 for 0 < bpk < 1).
    The byte count goes through f32, which is exact for [m0 < 2^24]; in that range: *)
Definition with_bpk_bytes (n bpk_trunc : N) : N := (n * bpk_trunc + 7) / 8.
Definition with_bpk_m (n bpk_trunc : N) : N := with_bpk_bytes n bpk_trunc * 8.

(** [with_fp_rate(n, fpr)] (l.58-86): [m = calculate_m(n, fpr)] (floats: ln, powi; the
    result is [(ceil(x / 8) * 8) as usize], a multiple of 8), [bpk = (m / n) as f32]
    (INTEGER division), [k = max((bpk * LN_2) as usize, 1)], bytes [= m / 8]. *)
Definition with_fp_rate_bpk (m n : N) : N := m / n.

(** ** Serialisation of the filter block payload *)

(** src/file.rs [MAGIC_BYTES] = ['L','S','M',3] *)
Definition magic_bytes : list N := [76; 83; 77; 3].

(** builder.rs [Builder::build] l.33-53: magic(4) filter_type(1)=0 hash_type(1)=0
    m(u64 LE) k(u64 LE) bit array bytes; header = 22 bytes. This payload is then wrapped
    by [Block::write_into(.., BlockType::Filter, CompressionType::None)]. *)
Definition bloom_encode (m k : N) (bits : list N) : list N :=
  magic_bytes ++ write_u8 0 ++ write_u8 0 ++ write_u64_le m ++ write_u64_le k ++ bits.

Inductive bloom_err :=
| BEof                      (* io UnexpectedEof *)
| BInvalidHeader            (* Error::InvalidHeader("BloomFilter") *)
| BInvalidTag (t : N)       (* Error::InvalidTag(("FilterType", t)) *)
| BPanic.                   (* assert_eq! failure *)

Inductive bres (A : Type) := BOk (a : A) | BErr (e : bloom_err).
Arguments BOk {A} a.
Arguments BErr {A} e.

(** mod.rs [StandardBloomFilterReader::new] l.37-89: returns (m, k, bit array bytes).
    Nothing relates [m] to the number of bytes that follow. *)
Definition bloom_decode (l : list N) : bres (N * N * list N) :=
  match take_bytes 4 l with
  | None => BErr BEof
  | Some (magic, l1) =>
      if negb (key_eqb magic magic_bytes) then BErr BInvalidHeader
      else
        match read_u8 l1 with
        | None => BErr BEof
        | Some (ft, l2) =>
            if 2 <=? ft then BErr (BInvalidTag ft)          (* FilterType::try_from *)
            else if negb (ft =? 0) then BErr BPanic         (* assert_eq!(StandardBloom, ..) *)
            else
              match read_u8 l2 with
              | None => BErr BEof
              | Some (ht, l3) =>
                  if negb (ht =? 0) then BErr BPanic        (* assert_eq!(0, hash_type) *)
                  else
                    match read_u64_le l3 with
                    | None => BErr BEof
                    | Some (m, l4) =>
                        match read_u64_le l4 with
                        | None => BErr BEof
                        | Some (k, l5) => BOk (m, k, l5)
                        end
                    end
              end
        end
  end.

(** ** What the table writer does with the policy

    [is_active]: BitsPerKey(b) -> b > 0.0, FalsePositiveRate(f) -> f > 0.0
    (filter/mod.rs l.36-41). If inactive, no key is registered (writer/mod.rs l.275),
    the hash buffer stays empty and [FullFilterWriter::finish] writes NO "filter"
    section at all (full.rs l.56-57). The same happens for an active policy on a table
    with zero keys. Otherwise the payload is [bloom_encode m k bits]. *)
Definition filter_block_payload (active : bool) (m k : N) (hashes : list N)
  : option (option (list N)) :=             (* outer None = panic, inner None = no block *)
  if negb active then Some None
  else match hashes with
       | [] => Some None
       | _ =>
           match bloom_build_opt m k hashes with
           | None => None
           | Some bits => Some (Some (bloom_encode m k bits))
           end
       end.
