(** The whole-tree state machine: writes, memtable rotation, flush, compaction (merge),
    trivial move and version-history GC, deterministic given explicit decisions (which
    tables, which destination level, where the MultiWriter cuts its output).
    Mirrors: src/abstract_tree.rs (AbstractTree::flush), src/tree/mod.rs (append_entry,
    rotate_memtable, flush_to_tables, register_tables), src/compaction/worker.rs
    (merge_tables, move_tables, create_compaction_stream, pick_run_indexes),
    src/compaction/flavour.rs (StandardCompaction::finish), src/table/multi_writer.rs
    (MultiWriter::new / write / rotate / finish), src/table/writer/mod.rs (metadata),
    src/tree/sealed.rs (SealedMemtables::remove), src/seqno.rs (SequenceNumberCounter::next).
    Definitions only; the proofs are in Proofs/Machine.v. *)
From LsmV Require Export Model.Tree Model.Stream Model.Version Model.History Model.Snapshot.
Open Scope N_scope.

(** ** Tables written from a stream *)

(** table/writer/mod.rs: Writer::write + Writer::finish: the metadata of a written table
    is computed from the items it received: first / last user key, lowest / highest seqno,
    item / tombstone / weak-tombstone counts; a freshly written table has global seqno 0.
    (A writer that received no item produces no table: [build_tables] never calls
    [mk_table] on [[]].) *)
Definition mk_table (id : N) (es : list entry) : table :=
  match es with
  | [] => mkT id 0 [] [] [] 0 0 0 0 0
  | e0 :: _ =>
      mkT id 0 es (ukey e0) (ukey (last es e0)) (min_seq es) (max_seq es)
          (N.of_nat (length es)) (count_b is_tomb es) (count_b is_weak es)
  end.

(** table/multi_writer.rs: MultiWriter::write / rotate / finish.  The size-driven decision
    "rotate now" is an explicit input: [cuts] lists the number of items of each table but
    the last; the last table takes the rest.  Table ids are drawn consecutively from the
    table id counter; a chunk without items produces no table (Writer::finish -> None). *)
Fixpoint build_tables (first_id : N) (cuts : list nat) (out : list entry) : list table :=
  match cuts with
  | [] => match out with [] => [] | _ :: _ => [mk_table first_id out] end
  | c :: cuts' =>
      match firstn c out with
      | [] => build_tables first_id cuts' (skipn c out)
      | _ :: _ =>
          mk_table first_id (firstn c out) :: build_tables (first_id + 1) cuts' (skipn c out)
      end
  end.

(** multi_writer.rs: MultiWriter::write: [is_next_key = self.current_key < Some(&item.key
    .user_key)]; a rotation can only happen in front of an item whose user key is greater
    than the key written last *)
Definition cut_ok (chunk rest : list entry) : bool :=
  match chunk, rest with
  | a0 :: _, b :: _ => key_ltb (ukey (last chunk a0)) (ukey b)
  | _, _ => true
  end.

Fixpoint cuts_ok (cuts : list nat) (out : list entry) : bool :=
  match cuts with
  | [] => true
  | c :: cuts' => cut_ok (firstn c out) (skipn c out) && cuts_ok cuts' (skipn c out)
  end.

(** multi_writer.rs: MultiWriter::new draws the first table id at once, every rotation
    one more: an empty output still consumes one id *)
Definition ids_used (ts : list table) : N := N.max 1 (N.of_nat (length ts)).

(** ** State and operations *)

(** [hs]: version history and the two seqno counters (Model/Snapshot.v); [next_tid] /
    [next_mid]: table_id_counter / memtable_id_counter; [wlog]: ghost, every entry ever
    written, newest first *)
Record mstate := mkMS { hs : hstate; next_tid : N; next_mid : N; wlog : list entry }.

Inductive mop :=
| MWrite (k : key) (t : vtype) (v : list N)
| MRotate
| MFlush (W : N) (cuts : list nat)
| MCompact (ids : list N) (dest : nat) (W : N) (cuts : list nat)
| MMove (ids : list N) (dest : nat)
| MMaint (W : N).

(** tree/sealed.rs: SealedMemtables::remove, once per flushed id
    ([retain(|mt| mt.id != id_to_remove)]) *)
Definition remove_sealed (ids : list N) (ms : list memtable) : list memtable :=
  filter (fun m => negb (existsb (N.eqb (mid m)) ids)) ms.

(** tree/mod.rs: register_tables, the closure passed to upgrade_version *)
Definition sv_flushed (ids : list N) (tables : list table) (cur : superversion)
  : superversion :=
  mkSV (sv_seq cur) (active cur) (remove_sealed ids (sealed cur))
       (with_new_l0_run (ver cur) tables).

(** compaction/flavour.rs: StandardCompaction::finish, the closure passed to
    upgrade_version *)
Definition sv_merged (ids : list N) (new : list table) (dest : nat) (cur : superversion)
  : superversion :=
  mkSV (sv_seq cur) (active cur) (sealed cur) (with_merge (ver cur) ids new dest).

(** compaction/worker.rs: move_tables, the closure passed to upgrade_version *)
Definition sv_moved (ids : list N) (dest : nat) (cur : superversion) : superversion :=
  mkSV (sv_seq cur) (active cur) (sealed cur) (with_moved (ver cur) ids dest).

(** abstract_tree.rs: AbstractTree::flush: Merger over ALL sealed memtables of the latest
    superversion, CompactionStream::new(merger, seqno_threshold): no tombstone eviction,
    no compaction filter *)
Definition flush_out (W : N) (l : superversion) : list entry :=
  fst (run_stream W false no_filter (merge_sorted (map ments (sealed l)))).

(** worker.rs: merge_tables: [payload.table_ids.iter().map(|&id| version.get_table(id))
    .collect::<Option<Vec<_>>>()] is [None] (the task is declined) unless every id exists *)
Definition ids_exist (v : version) (ids : list N) : bool :=
  forallb (fun id => existsb (fun t => tid t =? id) (all_tables v)) ids.

(** the tables with the chosen ids, in iter_tables order *)
Definition compact_in (v : version) (ids : list N) : list table :=
  filter (id_in ids) (all_tables v).

(** worker.rs: merge_tables: [is_last_level = payload.dest_level == level_count - 1] *)
Definition last_level : nat := 6.
Definition is_last_level (dest : nat) : bool := Nat.eqb dest last_level.

(** worker.rs: create_compaction_stream + merge_tables: Merger over the chosen tables,
    CompactionStream::new(.., mvcc_gc_watermark).evict_tombstones(is_last_level); no
    compaction filter installed *)
Definition compact_merged (v : version) (ids : list N) : list entry :=
  merge_sorted (map ents (compact_in v ids)).
Definition compact_out (W : N) (dest : nat) (v : version) (ids : list N) : list entry :=
  fst (run_stream W (is_last_level dest) no_filter (compact_merged v ids)).

(** worker.rs: pick_run_indexes + RunScanner::culled(run, (Some(lo), Some(hi))): of a run
    with more than one table the scanner reads every table between the first and the last
    chosen one; create_compaction_stream counts them ([found += hi - lo + 1]) and declines
    ([None]) unless [found == to_compact.len()], i.e. unless the chosen tables of each run
    are contiguous.  [contig_ok] is that check (side condition in [mop_ok]). *)
Fixpoint drop_unchosen (ids : list N) (r : run) : run :=
  match r with
  | [] => []
  | t :: r' => if id_in ids t then r else drop_unchosen ids r'
  end.
Definition run_span (ids : list N) (r : run) : run :=
  rev (drop_unchosen ids (rev (drop_unchosen ids r))).
Definition contig_ok (v : version) (ids : list N) : bool :=
  forallb (fun r => forallb (id_in ids) (run_span ids r)) (all_runs v).

(** ** The step function *)

(** One operation, applied to the latest superversion [l] (an empty history is
    unreachable: latest_version() panics; the step is then a no-op).
    - [MWrite k t v]: seqno.next() by the caller, Tree::append_entry, visible_seqno
      .fetch_max(seq + 1) ([HWrite]); the entry is logged in [wlog].
    - [MRotate]: Tree::rotate_memtable; returns early (no memtable id drawn) when the
      active memtable is empty.
    - [MFlush W cuts]: AbstractTree::flush: [Ok(None)] when there is no sealed memtable;
      otherwise the stream output is written by the MultiWriter (flush_to_tables always
      returns [Some]), register_tables runs upgrade_version with [sv_flushed] (the upgrade
      draws a seqno) and then maintenance(W).
    - [MCompact ids dest W cuts]: worker.rs merge_tables: declined when an id is unknown;
      otherwise stream -> MultiWriter -> upgrade_version with [sv_merged] -> maintenance(W).
    - [MMove ids dest]: worker.rs move_tables: upgrade_version with [sv_moved].  (The
      maintenance(mvcc_gc_watermark) call that follows in move_tables is the separate
      operation [MMaint W].)
    - [MMaint W]: SuperVersions::maintenance. *)
Definition mstep (st : mstate) (o : mop) : mstate :=
  match latest (hist (hs st)) with
  | None => st
  | Some l =>
      match o with
      | MWrite k t v =>
          let e := mkE k (ctr (hs st)) t v in
          mkMS (hstep (hs st) (HWrite e)) (next_tid st) (next_mid st) (e :: wlog st)
      | MRotate =>
          match ments (active l) with
          | [] => st
          | _ :: _ =>
              mkMS (hstep (hs st) (HRotate (next_mid st)))
                   (next_tid st) (next_mid st + 1) (wlog st)
          end
      | MFlush W cuts =>
          match sealed l with
          | [] => st
          | _ :: _ =>
              let tables := build_tables (next_tid st) cuts (flush_out W l) in
              let h1 := hstep (hs st) (HUpgrade (sv_flushed (map mid (sealed l)) tables)) in
              mkMS (hstep h1 (HMaint W)) (next_tid st + ids_used tables) (next_mid st)
                   (wlog st)
          end
      | MCompact ids dest W cuts =>
          if ids_exist (ver l) ids then
            let new := build_tables (next_tid st) cuts (compact_out W dest (ver l) ids) in
            let h1 := hstep (hs st) (HUpgrade (sv_merged ids new dest)) in
            mkMS (hstep h1 (HMaint W)) (next_tid st + ids_used new) (next_mid st) (wlog st)
          else st
      | MMove ids dest =>
          mkMS (hstep (hs st) (HUpgrade (sv_moved ids dest)))
               (next_tid st) (next_mid st) (wlog st)
      | MMaint W =>
          mkMS (hstep (hs st) (HMaint W)) (next_tid st) (next_mid st) (wlog st)
      end
  end.

Definition mrun (st : mstate) (ops : list mop) : mstate := fold_left mstep ops st.

(** Tree::create_new: SuperVersions::new with an empty version of 7 levels, active
    memtable id 0, memtable_id_counter = 1, table_id_counter = 0, both seqno counters 0 *)
Definition empty_version : version := mkV 0 [[]; []; []; []; []; []; []].
Definition minit : mstate := mkMS (hinit empty_version) 0 1 [].

(** ** Decidable side conditions (not in the crate) *)

(** seqno.rs: SequenceNumberCounter::next: [assert!(seqno < 0x8000_0000_0000_0000)] *)
Definition SEQ_LIMIT : N := 9223372036854775808.
Definition seq_avail (st : mstate) : bool := ctr (hs st) <? SEQ_LIMIT.

Definition key_in (k : key) (l : list entry) : bool :=
  existsb (fun e => key_eqb (ukey e) k) l.

(** tombstone eviction at the last level is only sound when nothing older lies beneath:
    for every user key of the compaction input that has NO version left in the output
    (its newest version was an evicted tombstone), every version of that key in a table
    that is NOT part of the compaction (any level) is newer than all input versions of
    the key.  (worker.rs: "Only evict tombstones when reaching the last level, That way
    we don't resurrect data beneath the tombstone": an obligation on the strategy's
    choice of tables.) *)
Definition evict_ok (v : version) (ids : list N) (merged out : list entry) : bool :=
  forallb (fun e =>
    key_in (ukey e) out
    || forallb (fun t =>
         forallb (fun e' => negb (key_eqb (ukey e') (ukey e)) || (seq e <? seq e')) (ents t))
         (kept ids (all_tables v)))
    merged.

Definition vtype_writable (t : vtype) : bool :=
  match t with Ind => false | _ => true end.

Definition ids_nonempty (ids : list N) : bool := match ids with [] => false | _ => true end.

(** [o] is a legal operation in state [st]:
    - every op that draws a seqno needs the counter below its limit;
    - [MWrite]: a Value, Tombstone or WeakTombstone;
    - [MFlush]: the cuts fall between different user keys;
    - [MCompact]: a non-empty duplicate-free (HashSet) set of existing ids, contiguous per
      run, a destination inside the tree, legal cuts, [merge_choice_ok] for the tables
      that get written and, at the last level, [evict_ok];
    - [MMove]: a non-empty duplicate-free set of existing ids, a destination inside the
      tree and [move_choice_ok]. *)
Definition mop_ok (st : mstate) (o : mop) : bool :=
  match latest (hist (hs st)) with
  | None => false
  | Some l =>
      match o with
      | MWrite k t v => seq_avail st && vtype_writable t
      | MRotate => true
      | MFlush W cuts => seq_avail st && cuts_ok cuts (flush_out W l)
      | MCompact ids dest W cuts =>
          let v := ver l in
          let out := compact_out W dest v ids in
          let new := build_tables (next_tid st) cuts out in
          seq_avail st && ids_nonempty ids && nodup_N_b ids && ids_exist v ids
          && contig_ok v ids && Nat.ltb dest 7 && cuts_ok cuts out
          && merge_choice_ok v ids new dest
          && (negb (is_last_level dest) || evict_ok v ids (compact_merged v ids) out)
      | MMove ids dest =>
          let v := ver l in
          seq_avail st && ids_nonempty ids && nodup_N_b ids && ids_exist v ids
          && Nat.ltb dest 7 && move_choice_ok v ids dest
      | MMaint W => true
      end
  end.

Fixpoint mops_ok (st : mstate) (ops : list mop) : bool :=
  match ops with
  | [] => true
  | o :: ops' => mop_ok st o && mops_ok (mstep st o) ops'
  end.

(** the superversion reads go to (Tree::get with the newest snapshot) *)
Definition mlatest (st : mstate) : option superversion := latest (hist (hs st)).

(** point read of the machine at the newest snapshot, through the real read path *)
Definition mget (flt : N -> key -> bool) (st : mstate) (k : key) : option entry :=
  match mlatest st with
  | Some sv => sv_get flt sv k SEQ_MAX
  | None => None
  end.
