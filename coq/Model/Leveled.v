(** Leveled compaction strategy (LCS): which tables get moved / merged, and where to.
    Mirrors: src/compaction/leveled/mod.rs (pick_minimal_compaction, Strategy::choose),
    src/slice_windows.rs (growing_windows / shrinking_windows), src/version/run.rs
    (range_overlap_indexes / get_overlapping / get_contained / aggregate_key_range),
    src/version/mod.rs (GenericLevel::*, Level::list_ids / aggregate_key_range,
    Version::level_is_busy), src/compaction/state/hidden_set.rs (is_hidden / is_blocked),
    src/key_range.rs (overlaps_with_key_range / contains_range / aggregate),
    src/table/util.rs (aggregate_run_key_range).

    What is NOT modelled, and how it is replaced:
    - the floating-point level scores (mod.rs:401-482).  The index that wins
      [max_by] is the explicit argument [lvl] (an oracle); [lvl = 6] stands for
      "score < 1.0 => DoNothing" as well (Lmax is never scored, and [version.level(7)]
      is [None], mod.rs:542);
    - [need_new_l1] (mod.rs:326-348: sums of file sizes against f32 level targets) is an
      oracle boolean;
    - file sizes: [size : table -> N] gives [Table::file_size]; sums are in unbounded [N]
      (the Rust [u64] sums panic in debug / wrap in release beyond 2^64-1, likewise
      [50 * table_base_size]).
    [slice::partition_point] is modelled as a linear scan (length of the longest prefix
    satisfying the predicate), which is what the binary search returns on a partitioned
    slice, i.e. for every run satisfying [run_ok] (the same convention as
    [run_get_for_key] in Model/Tree.v).
    A [HashSet<TableId>] is a duplicate-free list; the order chosen here is the
    [Version::iter_tables] order.
    Definitions only; proofs are in Proofs/Leveled.v. *)
From LsmV Require Export Model.Version.
Open Scope N_scope.

(** ** Iterator and slice helpers *)

(** slice::partition_point (see the header for the convention) *)
Fixpoint partition_point {A : Type} (p : A -> bool) (l : list A) : nat :=
  match l with
  | [] => O
  | x :: l' => if p x then S (partition_point p l') else O
  end.

(** Iterator::position: index of the first element satisfying [p]
    ([rposition] is in Model/Version.v) *)
Fixpoint position {A : Type} (p : A -> bool) (l : list A) : option nat :=
  match l with
  | [] => None
  | x :: l' => if p x then Some O else option_map S (position p l')
  end.

(** slice::get(lo..=hi): [None] unless [lo <= hi + 1 <= len] *)
Definition slice_get_incl {A : Type} (l : list A) (lo hi : nat) : option (list A) :=
  if Nat.ltb hi (length l) && Nat.leb lo (S hi)
  then Some (firstn (S hi - lo) (skipn lo l)) else None.

(** slice::get(start..end): [None] unless [start <= end <= len] *)
Definition slice_get {A : Type} (l : list A) (s e : nat) : option (list A) :=
  if Nat.leb s e && Nat.leb e (length l)
  then Some (firstn (e - s) (skipn s l)) else None.

(** Iterator::take_while *)
Fixpoint take_while {A : Type} (p : A -> bool) (l : list A) : list A :=
  match l with
  | [] => []
  | x :: l' => if p x then x :: take_while p l' else []
  end.

(** Iterator::filter_map *)
Fixpoint filter_map {A B : Type} (f : A -> option B) (l : list A) : list B :=
  match l with
  | [] => []
  | x :: l' => match f x with Some y => y :: filter_map f l' | None => filter_map f l' end
  end.

(** Iterator::min_by_key: [reduce(|x, y| match key(x).cmp(key(y)) { Greater => y, _ => x })]:
    of several equally minimal elements the FIRST is returned *)
Definition min_by_key {A : Type} (key : A -> N) (l : list A) : option A :=
  match l with
  | [] => None
  | x :: l' => Some (fold_left (fun best y => if key y <? key best then y else best) l' x)
  end.

(** slice::windows(size) for [size >= 1] (size 0 panics; never requested) *)
Fixpoint windows {A : Type} (size : nat) (l : list A) : list (list A) :=
  match l with
  | [] => []
  | _ :: l' => if Nat.leb size (length l) then firstn size l :: windows size l' else []
  end.

(** slice_windows.rs: growing_windows: [(1..=self.len()).flat_map(|size| self.windows(size))] *)
Definition growing_windows {A : Type} (l : list A) : list (list A) :=
  flat_map (fun size => windows size l) (List.seq 1 (length l)).

(** slice_windows.rs: shrinking_windows: [(1..=self.len()).rev().flat_map(..)] *)
Definition shrinking_windows {A : Type} (l : list A) : list (list A) :=
  flat_map (fun size => windows size l) (rev (List.seq 1 (length l))).

(** [iter().map(Table::file_size).sum::<u64>()] *)
Definition sum_sizes (size : table -> N) (l : list table) : N :=
  fold_left (fun a t => a + size t) l 0.

(** ** src/key_range.rs on explicit (min, max) pairs *)

Definition krange : Type := (key * key)%type.

(** key_range.rs: KeyRange::empty *)
Definition kr_empty : krange := ([], []).

(** key_range.rs: KeyRange::overlaps_with_key_range ([end1 >= start2 && start1 <= end2]) *)
Definition krr_overlaps (a b : krange) : bool :=
  key_leb (fst b) (snd a) && key_leb (fst a) (snd b).

(** key_range.rs: KeyRange::contains_range, [self = kr], [other = t.key_range()] *)
Definition kr_contains (kr : krange) (t : table) : bool :=
  key_leb (fst kr) (kmin t) && key_leb (kmax t) (snd kr).

(** key_range.rs: KeyRange::aggregate ([if x < min { min = x }], [if x > max { max = x }]) *)
Definition kr_aggregate (l : list krange) : krange :=
  match l with
  | [] => kr_empty
  | first :: rest =>
      fold_left (fun acc other =>
                   (if key_ltb (fst other) (fst acc) then fst other else fst acc,
                    if key_ltb (snd acc) (snd other) then snd other else snd acc))
                rest first
  end.

(** table/util.rs: aggregate_run_key_range and run.rs: Run::aggregate_key_range:
    (first.min, last.max); both [expect] a non-empty slice (panic otherwise; every window
    and every run is non-empty, the [[]] case is never reached) *)
Definition agg_range (ts : list table) : krange :=
  match ts with
  | [] => kr_empty
  | t0 :: _ => (kmin t0, kmax (last ts t0))
  end.

(** ** src/version/run.rs *)

(** run.rs: range_overlap_indexes for the range [lo..=hi] (both bounds Included) *)
Definition range_overlap_indexes (r : run) (lo hi : key) : option (nat * nat) :=
  let l := partition_point (fun x => key_ltb (kmax x) lo) r in
  if Nat.leb (length r) l then None
  else
    let idx := (l + partition_point (fun x => key_leb (kmin x) hi) (skipn l r))%nat in
    if Nat.eqb idx 0 then None
    else
      let h := (idx - 1)%nat in
      if Nat.ltb h l then None else Some (l, h).

(** run.rs: Run::get_overlapping ([self.get(lo..=hi).unwrap_or_default()]) *)
Definition run_get_overlapping (r : run) (kr : krange) : list table :=
  match range_overlap_indexes r (fst kr) (snd kr) with
  | None => []
  | Some (l, h) => match slice_get_incl r l h with Some s => s | None => [] end
  end.

(** run.rs: get_contained: the local fn trim_slice: from the first to the last element
    satisfying [p] (elements in between are NOT tested).
    [s.get(start..end).expect("should be in range")]: [start <= end <= len] always holds *)
Definition trim_slice {A : Type} (p : A -> bool) (s : list A) : list A :=
  let start := match position p s with Some i => i | None => length s end in
  let e := match rposition p s with Some i => S i | None => start end in
  match slice_get s start e with Some x => x | None => [] end.

(** run.rs: Run::get_contained *)
Definition run_get_contained (r : run) (kr : krange) : list table :=
  match range_overlap_indexes r (fst kr) (snd kr) with
  | None => []
  | Some (l, h) =>
      match slice_get_incl r l h with
      | Some s => trim_slice (kr_contains kr) s
      | None => []
      end
  end.

(** ** src/version/mod.rs: GenericLevel / Level *)

Definition level_is_empty (l : level) : bool := match l with [] => true | _ :: _ => false end.

(** GenericLevel::is_disjoint ([self.run_count() == 1]) *)
Definition level_is_disjoint (l : level) : bool := Nat.eqb (length l) 1.

(** GenericLevel::table_count *)
Definition level_table_count (l : level) : nat := length (concat l).

(** Level::list_ids (a HashSet; here in iteration order) *)
Definition level_list_ids (l : level) : list N := map tid (concat l).

(** Level::aggregate_key_range *)
Definition level_aggregate_key_range (l : level) : krange :=
  match l with
  | [r] => agg_range r
  | _ => kr_aggregate (map agg_range l)
  end.

(** ** src/compaction/state/hidden_set.rs *)

Definition is_hidden (hidden : list N) (id : N) : bool := existsb (N.eqb id) hidden.

Definition is_blocked (hidden : list N) (ids : list N) : bool := existsb (is_hidden hidden) ids.

(** version/mod.rs: Version::level_is_busy *)
Definition level_is_busy (v : version) (idx : nat) (hidden : list N) : bool :=
  match nth_error (levels v) idx with
  | Some l => existsb (fun t => is_hidden hidden (tid t)) (concat l)
  | None => false
  end.

(** ** src/compaction/leveled/mod.rs *)

Inductive lchoice :=
| LDoNothing
| LMove (ids : list N) (dest : nat)
| LMerge (ids : list N) (dest : nat).

(** mod.rs:27-42, the closure given to [shrinking_windows().find(..)] *)
Definition trivial_window_ok (next_run : option run) (hidden : list N) (w : list table)
  : bool :=
  if is_blocked hidden (map tid w) then false
  else
    match next_run with
    | None => true
    | Some nr =>
        match run_get_overlapping nr (agg_range w) with [] => true | _ :: _ => false end
    end.

(** one element of the [filter_map] of mod.rs:59-97: (window, curr_level_pull_in,
    compaction_bytes); the f32 [write_amp] is computed but never used *)
Record mcand := mkCand { c_window : list table; c_pull : list table; c_bytes : N }.

(** mod.rs:59-97, the closure given to [filter_map] *)
Definition merge_candidate (curr_run : run) (hidden : list N) (size : table -> N)
           (w : list table) : option mcand :=
  if is_blocked hidden (map tid w) then None
  else
    let kr := agg_range w in
    let pull := run_get_contained curr_run kr in
    let curr_level_size := sum_sizes size pull in
    if curr_level_size =? 0 then None
    else if is_blocked hidden (map tid pull) then None
    else Some (mkCand w pull (curr_level_size + sum_sizes size w)).

(** mod.rs:19-108: pick_minimal_compaction ([_overshoot] is unused).  The result ids are a
    HashSet: window ids extended by the pulled-in ids; listed here pull-in first *)
Definition pick_minimal_compaction (curr_run : run) (next_run : option run)
           (hidden : list N) (size : table -> N) (table_base_size : N)
  : option (list N * bool) :=
  match find (trivial_window_ok next_run hidden) (shrinking_windows curr_run) with
  | Some w => Some (map tid w, true)
  | None =>
      match next_run with
      | Some nr =>
          let cands :=
            filter_map (merge_candidate curr_run hidden size)
              (take_while (fun w => sum_sizes size w <=? 50 * table_base_size)
                          (growing_windows nr)) in
          match min_by_key c_bytes cands with
          | Some c => Some (map tid (c_pull c) ++ map tid (c_window c), false)
          | None => None
          end
      | None => None
      end
  end.

(** mod.rs:280-308, the block ['trivial_lmax]; [None] = [break 'trivial_lmax] / condition
    false.  The hidden set is NOT consulted by this block. *)
Definition leveled_trivial_lmax (v : version) : option lchoice :=
  match nth_error (levels v) 0 with
  | None => None                         (* expect("first level should exist") *)
  | Some l0 =>
      if negb (level_is_empty l0) && level_is_disjoint l0 then
        let lmax_index := (length (levels v) - 1)%nat in
        if existsb (fun idx => match nth_error (levels v) idx with
                               | Some l => negb (level_is_empty l)
                               | None => false
                               end)
                   (List.seq 1 (lmax_index - 1))
        then None
        else
          match nth_error (levels v) lmax_index with
          | None => None                 (* expect("last level should exist") *)
          | Some lmax =>
              if negb (krr_overlaps (level_aggregate_key_range lmax)
                                    (level_aggregate_key_range l0))
              then Some (LMove (level_list_ids l0) lmax_index)
              else None
          end
      else None
  end.

Fixpoint find_index_from {A : Type} (p : A -> bool) (i : nat) (l : list A) : option nat :=
  match l with
  | [] => None
  | x :: l' => if p x then Some i else find_index_from p (S i) l'
  end.

(** mod.rs:312-318: first_non_empty_level *)
Definition first_non_empty_level (v : version) : nat :=
  match find_index_from (fun l => negb (level_is_empty l)) 1 (skipn 1 (levels v)) with
  | Some idx => idx
  | None => (length (levels v) - 1)%nat
  end.

(** mod.rs:320-355: canonical_l1_idx; [need_new_l1] is the value the [.all(..)] over the
    level sizes evaluates to (only consulted when the guard of mod.rs:325 holds) *)
Definition leveled_canonical_l1 (need_new_l1 : bool) (v : version) : nat :=
  let f := first_non_empty_level v in
  if Nat.ltb 1 f && existsb (fun l => negb (level_is_empty l)) (skipn 1 (levels v))
  then (if need_new_l1 then (f - 1)%nat else f)
  else f.

(** mod.rs:380-384 / 505-509: [target_level.iter().flat_map(|run| run.get_overlapping(..))] *)
Definition level_overlapping (l : level) (kr : krange) : list table :=
  flat_map (fun r => run_get_overlapping r kr) l.

(** mod.rs:358-399, the block ['trivial]; [None] = [break 'trivial] / condition false *)
Definition leveled_trivial_l0 (need_new_l1 : bool) (v : version) (hidden : list N)
  : option lchoice :=
  match nth_error (levels v) 0 with
  | None => None                         (* version.l0() expects *)
  | Some first_level =>
      let target_level_idx :=
        Nat.min (first_non_empty_level v) (leveled_canonical_l1 need_new_l1 v) in
      if Nat.eqb (length first_level) 1 then
        if level_is_busy v 0 hidden || level_is_busy v target_level_idx hidden then None
        else
          match nth_error (levels v) target_level_idx with
          | None => None
          | Some target_level =>
              if negb (Nat.eqb (length target_level) 1) then None
              else
                match level_overlapping target_level
                                        (level_aggregate_key_range first_level) with
                | [] =>
                    if level_is_disjoint first_level
                    then Some (LMove (level_list_ids first_level) target_level_idx)
                    else None
                | _ :: _ => None
                end
          end
      else None
  end.

(** mod.rs:485-528, the branch [level_idx_with_highest_score == 0] *)
Definition leveled_l0_choice (need_new_l1 : bool) (v : version) (hidden : list N) : lchoice :=
  match nth_error (levels v) 0 with
  | None => LDoNothing
  | Some first_level =>
      let c := leveled_canonical_l1 need_new_l1 v in
      if level_is_busy v 0 hidden || level_is_busy v c hidden then LDoNothing
      else
        match nth_error (levels v) c with
        | None => LDoNothing
        | Some target_level =>
            let over := level_overlapping target_level
                                          (level_aggregate_key_range first_level) in
            let ids := level_list_ids first_level ++ map tid over in
            match over with
            | [] => if level_is_disjoint first_level then LMove ids c else LMerge ids c
            | _ :: _ => LMerge ids c
            end
        end
  end.

(** mod.rs:530-580, the branch for L1+.  [level.first_run().expect(..)] panics on an empty
    level (unreachable in the crate: an empty level is never scored); modelled as
    DoNothing *)
Definition leveled_ln_choice (lvl : nat) (size : table -> N) (target_size : N)
           (v : version) (hidden : list N) : lchoice :=
  match nth_error (levels v) lvl with
  | None => LDoNothing
  | Some level =>
      match nth_error (levels v) (S lvl) with
      | None => LDoNothing
      | Some next_level =>
          match level with
          | [] => LDoNothing
          | curr_run :: _ =>
              match pick_minimal_compaction curr_run (hd_error next_level) hidden size
                                            target_size with
              | None => LDoNothing
              | Some (ids, can_trivial_move) =>
                  if can_trivial_move && level_is_disjoint level
                  then LMove ids (S lvl) else LMerge ids (S lvl)
              end
          end
      end
  end.

(** [first_level.table_count()] of mod.rs:412 *)
Definition l0_table_count (v : version) : N :=
  match nth_error (levels v) 0 with
  | Some l => N.of_nat (level_table_count l)
  | None => 0
  end.

(** mod.rs:277-581: Strategy::choose.
    [lvl] = level_idx_with_highest_score, given that its score is >= 1.0.
    For [lvl = 0] the integer part of the scoring is kept: scores[0] is only set when
    [table_count >= l0_threshold] (mod.rs:412), to [table_count / l0_threshold]; with
    [table_count = 0] (hence [l0_threshold = 0]) that is 0/0 = NaN, which never survives
    [max_by] (every comparison with NaN is [Equal], so the later element wins) -- so index 0
    wins with a score >= 1.0 only if L0 holds at least one and at least [l0_threshold]
    tables.  [assert!(level_count == 7)] panics otherwise: DoNothing. *)
Definition leveled_choose (lvl : nat) (need_new_l1 : bool) (size : table -> N)
           (l0_threshold target_size : N) (v : version) (hidden : list N) : lchoice :=
  if negb (Nat.eqb (length (levels v)) 7) then LDoNothing
  else
    match leveled_trivial_lmax v with
    | Some c => c
    | None =>
        match leveled_trivial_l0 need_new_l1 v hidden with
        | Some c => c
        | None =>
            match lvl with
            | O =>
                if (l0_table_count v <? l0_threshold) || (l0_table_count v =? 0)
                then LDoNothing
                else leveled_l0_choice need_new_l1 v hidden
            | S _ => leveled_ln_choice lvl size target_size v hidden
            end
        end
    end.

(** every choice the strategy can make on [v], over all oracle values: the choice of the
    real crate must be one of these ([lvl = 6] always yields what the crate returns when
    no score reaches 1.0) *)
Definition leveled_choices (size : table -> N) (l0_threshold target_size : N)
           (v : version) (hidden : list N) : list lchoice :=
  flat_map (fun lvl =>
              map (fun need => leveled_choose lvl need size l0_threshold target_size v hidden)
                  [false; true])
           (List.seq 0 7).
