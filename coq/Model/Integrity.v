(** Byte-level model of the INTEGRITY GUARDS of the crate's read paths (property C10).

    What is modelled is only *what is compared with what* before bytes of a file are
    believed; the hash function itself (xxh3, [src/hash.rs hash128], the streaming
    [Xxh3Default] of [ChecksummedReader]) is NOT modelled: it is the Section variable
    [h128 : list N -> N] (128-bit digest of a byte string; a streaming hasher fed with
    [a] then [b] is [h128 (a ++ b)]).

    Sources
    - src/table/block/header.rs   [Header::decode_from]
    - src/table/block/mod.rs      [Block::from_file], [Block::from_reader]
    - src/table/util.rs           [load_block] (block type check), src/table/mod.rs
                                  [read_tli], [Table::recover], src/table/meta.rs
                                  [ParsedMeta::load_with_handle], src/table/scanner.rs
    - src/file.rs                 [read_exact] (pread of exactly [size] bytes)
    - sfa 1.0.0                   src/trailer/reader.rs, src/toc/reader.rs, src/reader.rs
    - src/version/recovery.rs     [get_current_version], [recover]
    - src/vlog/blob_file/reader.rs [Reader::get], scanner.rs [Scanner::next],
                                  writer.rs [write_raw], meta.rs [Metadata::from_slice]
    - src/table/mod.rs            [list_blob_file_references] (raw region)

    Conventions: files are [list N] (bytes [< 256]); offsets and sizes are [nat];
    numbers read from the bytes are [N]. Compression is [None] in this build. *)
From LsmV Require Export Base.Bytes Model.Ints Model.DataBlock Model.VersionCodec.
Open Scope N_scope.

(** ** Errors and results *)

(** [XEof]: io::ErrorKind::UnexpectedEof (short read / read past the end / seek before
    the start); [XInvalidHeader]: Error::InvalidHeader (magic mismatch);
    [XInvalidVersion]: sfa InvalidVersion; [XInvalidTag t]: Error::InvalidTag((_, t));
    [XChecksumMismatch]: Error::ChecksumMismatch; [XUnrecoverable]: a section is missing;
    [XNotFound]: io NotFound (file named by [current] does not exist);
    [XPanic]: a [debug_assert] / [assert] fires. *)
Inductive xerr :=
  XEof | XInvalidHeader | XInvalidVersion | XInvalidTag (t : N) | XChecksumMismatch
| XUnrecoverable | XNotFound | XPanic.

Inductive bres (A : Type) := BOk (a : A) | BErr (e : xerr).
Arguments BOk {A} a.
Arguments BErr {A} e.

(** errors of the Model/VersionCodec.v decoders *)
Definition of_derr (e : derr) : xerr :=
  match e with
  | EEof => XEof
  | EInvalidTag t => XInvalidTag t
  | EUnrecoverable => XUnrecoverable
  | EInvalidHeader => XInvalidHeader
  | EInvalidVersion => XInvalidVersion
  end.

Definition of_res {A} (r : res A) : bres A :=
  match r with Ok a => BOk a | Err e => BErr (of_derr e) end.

(** ** Damage done to a file after it was written *)

(** one byte replaced ([pos] past the end: nothing to replace) *)
Definition mutate (bytes : list N) (pos : nat) (b : N) : list N :=
  if Nat.ltb pos (length bytes)
  then firstn pos bytes ++ b :: skipn (S pos) bytes
  else bytes.

(** the file cut to its first [len] bytes *)
Definition truncate (bytes : list N) (len : nat) : list N := firstn len bytes.

(** ** src/file.rs [read_exact]: pread of exactly [size] bytes at [off], else io error *)
Definition pread (file : list N) (off size : nat) : option (list N) :=
  let l := firstn size (skipn off file) in
  if Nat.eqb (length l) size then Some l else None.

Section WithHash.
Variable h128 : list N -> N.

(** ** Block header: src/table/block/header.rs [Header::decode_from], errors kept apart.
    [Model/DataBlock.v decode_header] is this function with the error forgotten
    (lemma [decode_header_x_opt]). The 29 bytes read through the [ChecksummedReader] are
    hashed; the stored u32 is compared with the LOW 32 bits of the digest. *)
Definition decode_header_x (bytes : list N) : bres (header * list N) :=
  match take_bytes 4 bytes with None => BErr XEof | Some (magic, r1) =>
  if negb (list_N_eqb magic MAGIC_BYTES) then BErr XInvalidHeader else
  match read_u8 r1 with None => BErr XEof | Some (bt, r2) =>
  match block_type_of_tag bt with None => BErr (XInvalidTag bt) | Some t =>
  match read_u128_le r2 with None => BErr XEof | Some (cs, r3) =>
  match read_u32_le r3 with None => BErr XEof | Some (dl, r4) =>
  match read_u32_le r4 with None => BErr XEof | Some (ul, r5) =>
  let got := trunc 32 (h128 (firstn 29 bytes)) in
  match read_u32_le r5 with None => BErr XEof | Some (expected, r6) =>
  if got =? expected then BOk (mkH t cs dl ul, r6) else BErr XChecksumMismatch
  end end end end end end end.

(** src/table/block/mod.rs [Block] (uncompressed) *)
Record block := mkBlock { b_header : header; b_data : list N }.

(** [Block::from_file(file, handle, CompressionType::None)]: the buffer is
    [handle.size()] bytes at [handle.offset()] -- the size comes from the HANDLE (index
    block entry or sfa ToC entry), the header's [data_length] is not consulted -- then
    the header is decoded from its start and ALL remaining bytes of the buffer are
    hashed and compared with the header's checksum. (Buffer shorter than 33 bytes: the
    header decode fails first, so the [buf[33..]] slice never panics.) *)
Definition block_from_file (file : list N) (off size : nat) : bres block :=
  match pread file off size with None => BErr XEof | Some buf =>
  match decode_header_x buf with BErr e => BErr e | BOk (h, _) =>
  let data := skipn header_serialized_len buf in
  if h128 data =? h_checksum h then BOk (mkBlock h data) else BErr XChecksumMismatch
  end end.

(** the block type check every caller of [Block::from_file] in the table code performs
    (src/table/util.rs [load_block] l.81-86, src/table/mod.rs [read_tli] l.433-438 and
    l.553-560, src/table/meta.rs l.82-87). EXCEPTION: the pinned filter index
    ("filter_tli", src/table/mod.rs l.531-533) is loaded WITHOUT a type check:
    that path is [block_from_file]. *)
Definition check_block_type (expect : block_type) (r : bres block) : bres block :=
  match r with
  | BErr e => BErr e
  | BOk blk =>
      if block_type_tag (h_type (b_header blk)) =? block_type_tag expect then BOk blk
      else BErr (XInvalidTag (block_type_tag (h_type (b_header blk))))
  end.

Definition load_block (file : list N) (off size : nat) (expect : block_type) : bres block :=
  check_block_type expect (block_from_file file off size).

(** [Block::from_reader(reader, CompressionType::None)] on a sequential reader
    (src/table/scanner.rs [fetch_next_block], src/vlog/blob_file/meta.rs
    [Metadata::from_slice]): here the payload length IS the header's [data_length].
    Returns the block and the unread rest. *)
Definition block_from_reader (l : list N) : bres (block * list N) :=
  match decode_header_x l with BErr e => BErr e | BOk (h, r) =>
  match take_bytes (N.to_nat (h_data_length h)) r with None => BErr XEof | Some (data, r') =>
  if h128 data =? h_checksum h then BOk (mkBlock h data, r') else BErr XChecksumMismatch
  end end.

(** src/table/scanner.rs [fetch_next_block]: from_reader + type check (Data) *)
Definition scan_block (l : list N) (expect : block_type) : bres (block * list N) :=
  match block_from_reader l with
  | BErr e => BErr e
  | BOk (blk, r) =>
      if block_type_tag (h_type (b_header blk)) =? block_type_tag expect then BOk (blk, r)
      else BErr (XInvalidTag (block_type_tag (h_type (b_header blk))))
  end.

(** the writer: src/table/block/mod.rs [Block::write_into] (no compression) *)
Definition encode_block (t : block_type) (payload : list N) : list N :=
  encode_header h128
    (mkH t (h128 payload) (trunc 32 (N.of_nat (length payload)))
         (trunc 32 (N.of_nat (length payload))))
  ++ payload.

(** ** sfa archive: trailer + table of contents

    [sfa::Reader::from_reader]: [TrailerReader::from_reader] (Model/VersionCodec.v
    [sfa_read_trailer]: last 38 bytes; magic, version, checksum type are compared with
    constants; toc_checksum and toc_pos are returned; toc_len is NOT read), then
    [TocReader::from_reader] ([sfa_read_toc]: the bytes consumed while parsing are
    hashed) and finally [reader.checksum().check(toc_checksum)].
    Section payloads are not touched by any of this. *)
Definition sfa_open (file : list N) : bres (list (list N * N * N)) :=
  match sfa_read_trailer file with
  | Err e => BErr (of_derr e)
  | Ok (ck, toc_pos) =>
      match sfa_read_toc file toc_pos with
      | Err e => BErr (of_derr e)
      | Ok (entries, toc_bytes) =>
          if h128 toc_bytes =? ck then BOk entries else BErr XChecksumMismatch
      end
  end.

(** sfa [Toc::section]: first entry with that name *)
Fixpoint toc_section (name : list N) (entries : list (list N * N * N)) : option (N * N) :=
  match entries with
  | [] => None
  | (n, pos, len) :: es => if key_eqb n name then Some (pos, len) else toc_section name es
  end.

(** ** Version file: src/version/recovery.rs *)

(** [get_current_version] (CURRENT code, l.13-28): version id u64, checksum u128 of the
    version file, checksum type u8 which must be 0 *)
Definition read_current (cur : list N) : bres (N * N) :=
  match rd 8 cur with Err e => BErr (of_derr e) | Ok (id, r1) =>
  match rd 16 r1 with Err e => BErr (of_derr e) | Ok (ck, r2) =>
  match rd 1 r2 with Err e => BErr (of_derr e) | Ok (ct, _) =>
  if negb (ct =? 0) then BErr (XInvalidTag ct) else BOk (id, ck)
  end end end.

(** [recover] l.48-54: [fs::read] the WHOLE file, hash it, compare *)
Definition check_version_bytes (expected : N) (vb : list N) : bres (list N) :=
  if h128 vb =? expected then BOk vb else BErr XChecksumMismatch.

(** the guard when the file named by [current] has content [vb]: returns the bytes
    that the rest of [recover] goes on to parse *)
Definition read_version (cur vb : list N) : bres (list N) :=
  match read_current cur with
  | BErr e => BErr e
  | BOk (_, ck) => check_version_bytes ck vb
  end.

(** the folder: version id |-> content of "v<id>" *)
Fixpoint dir_lookup (id : N) (dir : list (N * list N)) : option (list N) :=
  match dir with
  | [] => None
  | (i, f) :: dir' => if i =? id then Some f else dir_lookup id dir'
  end.

(** the same guard with the file selected by the id in [current] (l.45-46, l.51) *)
Definition read_version_dir (dir : list (N * list N)) (cur : list N) : bres (list N) :=
  match read_current cur with
  | BErr e => BErr e
  | BOk (id, ck) =>
      match dir_lookup id dir with
      | None => BErr XNotFound
      | Some vb => check_version_bytes ck vb
      end
  end.

(** lsm-tree 3.1.9 as released: only the id is read from [current]
    (Model/VersionCodec.v [decode_current]); the version file is not hashed *)
Definition read_version_old (cur vb : list N) : bres (list N) :=
  match decode_current cur with Err e => BErr (of_derr e) | Ok _ => BOk vb end.

(** the rest of [recover] (l.61 onwards) on accepted bytes: [sfa::Reader::new], then the
    sections ([decode_version_res]) *)
Definition recover_sections (vb : list N) : bres vfile :=
  match sfa_open vb with
  | BErr e => BErr e
  | BOk entries => of_res (decode_version_res (map (sfa_section_payload vb) entries))
  end.

Definition recover_version (cur vb : list N) : bres vfile :=
  match read_version cur vb with BErr e => BErr e | BOk vb' => recover_sections vb' end.

Definition recover_version_old (cur vb : list N) : bres vfile :=
  match read_version_old cur vb with BErr e => BErr e | BOk vb' => recover_sections vb' end.

(** ** Blob files: src/vlog/blob_file *)

Definition BLOB_HEADER_MAGIC : list N := [66; 76; 79; 66].   (* b"BLOB" *)
Definition META_HEADER_MAGIC : list N := [77; 69; 84; 65].   (* b"META" *)
(** writer.rs [BLOB_HEADER_LEN] = 4 + 16 + 8 + 2 + 4 + 4 *)
Definition BLOB_HEADER_LEN : nat := 38.

(** writer.rs [write_raw] l.117-196 (no compression): the checksum is the digest of the
    hasher fed with the key, then the value; seqno and the three lengths are outside it *)
Definition encode_blob_frame (key : list N) (seqno : N) (value : list N)
           (uncompressed_len : N) : list N :=
  BLOB_HEADER_MAGIC ++ write_u128_le (h128 (key ++ value)) ++ write_u64_le seqno
  ++ write_u16_le (trunc 16 (N.of_nat (length key))) ++ write_u32_le uncompressed_len
  ++ write_u32_le (trunc 32 (N.of_nat (length value))) ++ key ++ value.

(** reader.rs [Reader::get(key, vhandle)] l.29-105. [off], [on_disk_size] are the value
    handle's (they come out of a table data block); [key] is the CALLER's key: only its
    LENGTH is used (for [add_size], i.e. how much to read and where the value starts).
    The frame's own [key_len] selects the key bytes that are hashed. [seqno] and
    [on_disk_val_len] are read and dropped; [real_val_len] only feeds a [debug_assert]
    ([dbg] = built with debug assertions). *)
Definition read_blob_frame (dbg : bool) (file : list N) (off on_disk_size : nat)
           (key : list N) : bres (list N) :=
  let add_size := (BLOB_HEADER_LEN + length key)%nat in
  match pread file off (on_disk_size + add_size) with None => BErr XEof | Some buf =>
  match take_bytes 4 buf with None => BErr XEof | Some (magic, r1) =>
  if negb (list_N_eqb magic BLOB_HEADER_MAGIC) then BErr XInvalidHeader else
  match read_u128_le r1 with None => BErr XEof | Some (expected, r2) =>
  match read_u64_le r2 with None => BErr XEof | Some (_seqno, r3) =>
  match read_u16_le r3 with None => BErr XEof | Some (key_len, r4) =>
  match read_u32_le r4 with None => BErr XEof | Some (real_val_len, r5) =>
  match read_u32_le r5 with None => BErr XEof | Some (_on_disk_val_len, r6) =>
  match take_bytes (N.to_nat key_len) r6 with None => BErr XEof | Some (fkey, _) =>
  let raw := skipn add_size buf in
  if h128 (fkey ++ raw) =? expected
  then if dbg && negb (real_val_len =? trunc 32 (N.of_nat (length raw)))
       then BErr XPanic else BOk raw
  else BErr XChecksumMismatch
  end end end end end end end end.

(** scanner.rs [ScanEntry] (without the stream offset) *)
Record scan_entry := mkScan {
  se_key : list N; se_seqno : N; se_value : list N; se_uncompressed_len : N }.

(** scanner.rs [Scanner::next] l.57-121 on the unread part of the file: [BOk None] = the
    "META" magic of the metadata section terminates the scan. Here the frame's OWN
    lengths delimit key and value, and [seqno], [real_val_len] are RETURNED. *)
Definition scan_blob_frame (l : list N) : bres (option (scan_entry * list N)) :=
  match take_bytes 4 l with None => BErr XEof | Some (magic, r1) =>
  if list_N_eqb magic META_HEADER_MAGIC then BOk None else
  if negb (list_N_eqb magic BLOB_HEADER_MAGIC) then BErr XInvalidHeader else
  match read_u128_le r1 with None => BErr XEof | Some (expected, r2) =>
  match read_u64_le r2 with None => BErr XEof | Some (seqno, r3) =>
  match read_u16_le r3 with None => BErr XEof | Some (key_len, r4) =>
  match read_u32_le r4 with None => BErr XEof | Some (real_val_len, r5) =>
  match read_u32_le r5 with None => BErr XEof | Some (on_disk_val_len, r6) =>
  match take_bytes (N.to_nat key_len) r6 with None => BErr XEof | Some (fkey, r7) =>
  match take_bytes (N.to_nat on_disk_val_len) r7 with None => BErr XEof | Some (v, r8) =>
  if h128 (fkey ++ v) =? expected
  then BOk (Some (mkScan fkey seqno v real_val_len, r8))
  else BErr XChecksumMismatch
  end end end end end end end end.

(** pread with u64 offset/length (clipped like Model/VersionCodec.v [skipN]) *)
Definition preadN (file : list N) (pos len : N) : option (list N) :=
  let l := firstN len (skipN pos file) in
  if N.of_nat (length l) =? len then Some l else None.

(** meta.rs [Metadata::from_slice] l.104-117: "META" magic, then [Block::from_reader];
    NO block type check; bytes after the block are ignored *)
Definition blob_meta_block (slice : list N) : bres block :=
  match take_bytes 4 slice with None => BErr XEof | Some (magic, r) =>
  if negb (list_N_eqb magic META_HEADER_MAGIC) then BErr XInvalidHeader else
  match block_from_reader r with BErr e => BErr e | BOk (blk, _) => BOk blk end
  end.

Definition n_meta : list N := [109; 101; 116; 97].   (* "meta" *)

(** src/vlog/mod.rs [recover_blob_files] l.81-100: sfa ToC, section "meta", pread of the
    section, [Metadata::from_slice] *)
Definition open_blob_file (file : list N) : bres block :=
  match sfa_open file with BErr e => BErr e | BOk entries =>
  match toc_section n_meta entries with None => BErr XUnrecoverable | Some (pos, len) =>
  match preadN file pos len with None => BErr XEof | Some s => blob_meta_block s end
  end end.

(** ** Table files: src/table/regions.rs, src/table/mod.rs [Table::recover] *)

Definition n_tli : list N := [116; 108; 105].
Definition n_index : list N := [105; 110; 100; 101; 120].
Definition n_filter_tli : list N := [102; 105; 108; 116; 101; 114; 95; 116; 108; 105].
Definition n_filter : list N := [102; 105; 108; 116; 101; 114].
Definition n_linked_blob_files : list N :=
  [108; 105; 110; 107; 101; 100; 95; 98; 108; 111; 98; 95; 102; 105; 108; 101; 115].
Definition n_table_version : list N :=
  [116; 97; 98; 108; 101; 95; 118; 101; 114; 115; 105; 111; 110].
Definition n_data : list N := [100; 97; 116; 97].

(** regions.rs [ParsedRegions]: block handles (offset u64, size u32) *)
Record table_regions := mkRegions {
  tr_tli : N * N; tr_index : option (N * N); tr_filter_tli : option (N * N);
  tr_filter : option (N * N); tr_linked_blob_files : option (N * N); tr_meta : N * N }.

(** regions.rs [toc_entry_to_handle]: [len.try_into::<u32>().expect(..)] *)
Definition handle_ok (h : option (N * N)) : bool :=
  match h with Some (_, len) => len <? 2 ^ 32 | None => true end.

(** regions.rs [parse_from_toc] l.55-77 (field evaluation order: filter_tli, tli, index,
    filter, linked_blob_files, meta). The section "table_version" written by the table
    writer (writer/mod.rs l.410-411) is NOT looked up by any reader. *)
Definition parse_regions (entries : list (list N * N * N)) : bres table_regions :=
  let ftli := toc_section n_filter_tli entries in
  if negb (handle_ok ftli) then BErr XPanic else
  match toc_section n_tli entries with None => BErr XUnrecoverable | Some tli =>
  if negb (handle_ok (Some tli)) then BErr XPanic else
  let idx := toc_section n_index entries in
  if negb (handle_ok idx) then BErr XPanic else
  let flt := toc_section n_filter entries in
  if negb (handle_ok flt) then BErr XPanic else
  let lbf := toc_section n_linked_blob_files entries in
  if negb (handle_ok lbf) then BErr XPanic else
  match toc_section n_meta entries with None => BErr XUnrecoverable | Some meta =>
  if negb (handle_ok (Some meta)) then BErr XPanic else
  BOk (mkRegions tli idx ftli flt lbf meta)
  end end.

(** [Table::recover] l.473-477: sfa trailer + ToC, regions, then the meta block through
    [ParsedMeta::load_with_handle] (from_file + type check Meta). The per-table checksum
    argument of [recover] (the whole-file digest recorded in the version file) is only
    stored (l.595), never compared with the file. *)
Definition open_table (file : list N) : bres (table_regions * block) :=
  match sfa_open file with BErr e => BErr e | BOk entries =>
  match parse_regions entries with BErr e => BErr e | BOk rg =>
  match load_block file (N.to_nat (fst (tr_meta rg))) (N.to_nat (snd (tr_meta rg))) BMeta with
  | BErr e => BErr e
  | BOk blk => BOk (rg, blk)
  end end end.

(** src/table/mod.rs [list_blob_file_references] l.107-152: the "linked_blob_files"
    region is read with [file::read_exact] and parsed WITHOUT any checksum:
    u32 count, then count x (blob_file_id, len, bytes, on_disk_bytes) u64 each *)
Definition decode_linked_file (l : list N) : res ((N * N * N * N) * list N) :=
  let? (id, l1) := rd 8 l in
  let? (len, l2) := rd 8 l1 in
  let? (bytes, l3) := rd 8 l2 in
  let? (on_disk, l4) := rd 8 l3 in
  Ok ((id, len, bytes, on_disk), l4).

Definition read_linked_blob_files (file : list N) (off size : nat)
  : bres (list (N * N * N * N)) :=
  match pread file off size with None => BErr XEof | Some buf =>
  match rd 4 buf with Err e => BErr (of_derr e) | Ok (count, l1) =>
  match decode_items decode_linked_file (length l1) count l1 with
  | Err e => BErr (of_derr e)
  | Ok (items, _) => BOk items
  end end end.

(** ** Layout of a whole table file in regions (writer/mod.rs [finish], sfa writer) *)

(** a section is a sequence of blocks (type, payload) or raw bytes *)
Inductive tcontent := TBlocks (blocks : list (block_type * list N)) | TRaw (bytes : list N).
Definition tsection := (list N * tcontent)%type.

Definition tcontent_bytes (c : tcontent) : list N :=
  match c with
  | TBlocks bs => flat_map (fun tb => encode_block (fst tb) (snd tb)) bs
  | TRaw r => r
  end.

Definition tsections_plain (secs : list tsection) : list section :=
  map (fun s => (fst s, tcontent_bytes (snd s))) secs.

Definition table_file_bytes (secs : list tsection) : list N :=
  let ss := tsections_plain secs in sfa_encode ss (h128 (sfa_toc ss)).

End WithHash.

(** [RBlock]: one block, header + payload; [RRaw]: raw bytes of a named section;
    [RToc]: the sfa table of contents; [RTrailer]: the 30 trailer bytes that are read
    (magic, version, checksum type, toc_checksum, toc_pos); [RUnread]: the trailer's
    toc_len field, written but never read *)
Inductive region :=
  RBlock (off len : nat) | RRaw (name : list N) (off len : nat)
| RToc (off len : nat) | RTrailer (off len : nat) | RUnread (off len : nat).

Definition region_off (r : region) : nat :=
  match r with
  | RBlock o _ | RRaw _ o _ | RToc o _ | RTrailer o _ | RUnread o _ => o
  end.
Definition region_len (r : region) : nat :=
  match r with
  | RBlock _ l | RRaw _ _ l | RToc _ l | RTrailer _ l | RUnread _ l => l
  end.
Definition in_region (pos : nat) (r : region) : bool :=
  Nat.leb (region_off r) pos && Nat.ltb pos (region_off r + region_len r).

Fixpoint block_regions (off : nat) (bs : list (block_type * list N)) : list region :=
  match bs with
  | [] => []
  | (_, p) :: bs' =>
      let len := (header_serialized_len + length p)%nat in
      RBlock off len :: block_regions (off + len) bs'
  end.

Definition tcontent_len (c : tcontent) : nat :=
  match c with
  | TBlocks bs => fold_right (fun tb a => (header_serialized_len + length (snd tb) + a)%nat) O bs
  | TRaw r => length r
  end.

Fixpoint section_regions (off : nat) (secs : list tsection) : list region :=
  match secs with
  | [] => []
  | (name, c) :: secs' =>
      (match c with
       | TBlocks bs => block_regions off bs
       | TRaw r => [RRaw name off (length r)]
       end) ++ section_regions (off + tcontent_len c) secs'
  end.

Definition sections_len (secs : list tsection) : nat :=
  fold_right (fun s a => (tcontent_len (snd s) + a)%nat) O secs.

(** length of the ToC: "TOC!" + u32 count + per entry (u64 pos, u64 len, u16 name length,
    name) *)
Definition toc_len (secs : list tsection) : nat :=
  (8 + fold_right (fun s a => (18 + length (fst s) + a)%nat) O secs)%nat.

Definition regions_of_table_file (secs : list tsection) : list region :=
  let body := sections_len secs in
  let toc := toc_len secs in
  section_regions 0 secs
  ++ [RToc body toc; RTrailer (body + toc) 30; RUnread (body + toc + 30) 8].

(** first region containing [pos] *)
Fixpoint locate (pos : nat) (rs : list region) : option region :=
  match rs with
  | [] => None
  | r :: rs' => if in_region pos r then Some r else locate pos rs'
  end.
