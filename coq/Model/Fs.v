(** File-system + persistence-protocol + recovery model of fjall-rs/lsm-tree 3.1.9.

    Definitions only (computable; extracted to OCaml and fed with strace traces).
    Proofs are in [Proofs/Fs.v].

    MODELLING ASSUMPTIONS (stated once, used everywhere)
    * File content is abstract: every [write] syscall appends one *token* (an [N]).
      The meaning of complete files is given by the [oracle]: [expected f] is the token
      list the complete file [f] has, [version_contents id] is what a complete [v<id>]
      lists, [current_points tok] is the version id encoded in a [current] payload.
    * A version/table/blob file whose content differs from [expected] is *incomplete* and
      opening it fails (sfa trailer + ToC checksum, table meta block checksum): recovery
      returns [Failed].  (The crate does NOT checksum the payload of [v<N>], cf. the TODO
      at version/recovery.rs:38; that is a different finding, not modelled here.)
    * POSIX-ish durability: [write] is volatile until [fsync] of the file; [fsync] of a
      file does NOT persist its directory entry; creations, renames and unlinks are
      volatile until [fsync] of the directory; rename is atomic in the volatile namespace.
    * Inodes are explicit: a directory entry binds a name to an inode, contents belong to
      inodes (so the durable [current] may still be bound to the old inode while the
      volatile one is bound to the renamed temp file). *)
From Coq Require Import List NArith Bool.
Import ListNotations.
Open Scope N_scope.

(** file.rs:10-12 [TABLES_FOLDER], [BLOBS_FOLDER], [CURRENT_VERSION_FILE];
    version/persist.rs:19 [v{id}]; tempfile [.tmpXXXXXX] (file.rs:119);
    [Other] = any other name in the root (does not start with 'v'). *)
Inductive fname :=
| Current | VersionFile (id : N) | TableFile (id : N) | BlobFile (id : N)
| TempFile (id : N) | Other (id : N).

Inductive dname := Root | Tables | Blobs.

Definition dir_of (f : fname) : dname :=
  match f with
  | TableFile _ => Tables
  | BlobFile _ => Blobs
  | _ => Root
  end.

Definition fname_eqb (a b : fname) : bool :=
  match a, b with
  | Current, Current => true
  | VersionFile x, VersionFile y => N.eqb x y
  | TableFile x, TableFile y => N.eqb x y
  | BlobFile x, BlobFile y => N.eqb x y
  | TempFile x, TempFile y => N.eqb x y
  | Other x, Other y => N.eqb x y
  | _, _ => false
  end.

Definition dname_eqb (a b : dname) : bool :=
  match a, b with
  | Root, Root => true | Tables, Tables => true | Blobs, Blobs => true
  | _, _ => false
  end.

(** The system calls that matter (strace: mkdir, openat(O_CREAT[|O_EXCL][|O_TRUNC]),
    write, fsync on a file fd, fsync on a directory fd, renameat, unlinkat). *)
Inductive fsop :=
| Mkdir (d : dname)
| Create (f : fname) (excl : bool)   (* excl=true: O_EXCL (File::create_new, tempfile);
                                        excl=false: O_TRUNC (File::create) *)
| Write (f : fname) (tok : N)
| FsyncFile (f : fname)
| FsyncDir (d : dname)
| Rename (src dst : fname)
| Unlink (f : fname).

(** State.  [vns]/[dns]: volatile/durable namespace (name -> inode);
    [vcont]/[dcont]: volatile/durable content of an inode; [vdirs]/[ddirs]: which
    directories exist (volatile / durably linked into the root); [names]: every name
    that was ever bound (finite support, used only to enumerate crash images). *)
Record fsstate := mkFs {
  vns : fname -> option N;
  dns : fname -> option N;
  vcont : N -> list N;
  dcont : N -> list N;
  next_ino : N;
  vdirs : dname -> bool;
  ddirs : dname -> bool;
  names : list fname
}.

(** The empty, durable root directory. *)
Definition fs_init : fsstate :=
  mkFs (fun _ => None) (fun _ => None) (fun _ => []) (fun _ => []) 0
       (fun d => dname_eqb d Root) (fun d => dname_eqb d Root) [].

Definition upd_name (m : fname -> option N) (f : fname) (v : option N) : fname -> option N :=
  fun g => if fname_eqb g f then v else m g.

Definition upd_cont (m : N -> list N) (i : N) (v : list N) : N -> list N :=
  fun j => if N.eqb j i then v else m j.

Definition add_name (f : fname) (l : list fname) : list fname :=
  if existsb (fname_eqb f) l then l else f :: l.

(** [apply s op]: POSIX-ish semantics; [None] = the syscall fails (ENOENT, EEXIST...):
    that is how id collisions ([File::create_new] on an existing table) show up. *)
Definition apply (s : fsstate) (op : fsop) : option fsstate :=
  match op with
  | Mkdir d =>
      (* create_dir_all: succeeds if the directory already exists *)
      Some (mkFs (vns s) (dns s) (vcont s) (dcont s) (next_ino s)
                 (fun e => dname_eqb e d || vdirs s e) (ddirs s) (names s))
  | Create f excl =>
      if negb (vdirs s (dir_of f)) then None
      else match vns s f with
           | Some i =>
               if excl then None
               else (* O_TRUNC: volatile content emptied, same inode *)
                 Some (mkFs (vns s) (dns s) (upd_cont (vcont s) i []) (dcont s)
                            (next_ino s) (vdirs s) (ddirs s) (names s))
           | None =>
               let i := next_ino s in
               Some (mkFs (upd_name (vns s) f (Some i)) (dns s)
                          (upd_cont (vcont s) i []) (upd_cont (dcont s) i [])
                          (N.succ i) (vdirs s) (ddirs s) (add_name f (names s)))
           end
  | Write f tok =>
      match vns s f with
      | Some i =>
          Some (mkFs (vns s) (dns s) (upd_cont (vcont s) i (vcont s i ++ [tok])) (dcont s)
                     (next_ino s) (vdirs s) (ddirs s) (names s))
      | None => None
      end
  | FsyncFile f =>
      match vns s f with
      | Some i =>
          Some (mkFs (vns s) (dns s) (vcont s) (upd_cont (dcont s) i (vcont s i))
                     (next_ino s) (vdirs s) (ddirs s) (names s))
      | None => None
      end
  | FsyncDir d =>
      if negb (vdirs s d) then None
      else Some (mkFs (vns s)
                      (fun f => if dname_eqb (dir_of f) d then vns s f else dns s f)
                      (vcont s) (dcont s) (next_ino s) (vdirs s)
                      (* sub-directories are entries of the root *)
                      (fun e => if dname_eqb d Root then ddirs s e || vdirs s e else ddirs s e)
                      (names s))
  | Rename src dst =>
      if negb (dname_eqb (dir_of src) (dir_of dst)) then None
      else if fname_eqb src dst then (match vns s src with Some _ => Some s | None => None end)
      else match vns s src with
           | Some i =>
               Some (mkFs (upd_name (upd_name (vns s) src None) dst (Some i)) (dns s)
                          (vcont s) (dcont s) (next_ino s) (vdirs s) (ddirs s)
                          (add_name dst (names s)))
           | None => None
           end
  | Unlink f =>
      match vns s f with
      | Some _ =>
          Some (mkFs (upd_name (vns s) f None) (dns s) (vcont s) (dcont s)
                     (next_ino s) (vdirs s) (ddirs s) (names s))
      | None => None
      end
  end.

Fixpoint run_fs (s : fsstate) (tr : list fsop) : option fsstate :=
  match tr with
  | [] => Some s
  | op :: tr' => match apply s op with Some s' => run_fs s' tr' | None => None end
  end.

(** Index of the first impossible op, if any (for the strace glue's diagnostics). *)
Fixpoint first_impossible (s : fsstate) (tr : list fsop) (k : nat) : option nat :=
  match tr with
  | [] => None
  | op :: tr' => match apply s op with Some s' => first_impossible s' tr' (S k) | None => Some k end
  end.

(** ** Oracles *)
Record vdesc := mkVdesc { vd_tables : list N; vd_blobs : list N }.

Record oracle := mkOracle {
  version_contents : N -> option vdesc;    (* what a COMPLETE v<id> lists *)
  expected : fname -> option (list N);     (* tokens of the complete file *)
  current_points : N -> option N           (* token of a [current] payload -> version id *)
}.

(** ** Crash images: what a reopening process sees.
    Content = (tokens, torn?): [torn = true] is the special Torn marker: the write
    following the last complete token was cut in the middle. *)
Definition icontent := (list N * bool)%type.

Record image := mkImage {
  idirs : dname -> bool;
  iget : fname -> option icontent;
  inames : list fname        (* superset of the names present (for read_dir) *)
}.

Fixpoint prefixes (l : list N) : list (list N) :=
  [] :: match l with [] => [] | x :: t => map (cons x) (prefixes t) end.

Fixpoint is_prefixb (p l : list N) : bool :=
  match p, l with
  | [], _ => true
  | x :: p', y :: l' => N.eqb x y && is_prefixb p' l'
  | _ :: _, [] => false
  end.

(** Possible post-crash contents of an inode with durable content [d] and volatile
    content [v]: the durable content, or (if [d] is a prefix of [v]: at least [d], else
    the file was truncated and rewritten: any) prefix of [v], possibly with a torn
    next write. *)
Definition crash_contents (d v : list N) : list icontent :=
  (d, false) ::
  flat_map (fun p => if Nat.ltb (length p) (length v) then [(p, false); (p, true)] else [(p, false)])
    (filter (fun p => if is_prefixb d v then Nat.leb (length d) (length p) else true) (prefixes v)).

(** candidates for one directory entry: durable binding or volatile binding *)
Definition entry_cands (s : fsstate) (f : fname) : list (option icontent) :=
  let of_ino (o : option N) :=
      match o with
      | Some i => map Some (crash_contents (dcont s i) (vcont s i))
      | None => [None]
      end in
  if match dns s f, vns s f with
     | Some i, Some j => N.eqb i j
     | None, None => true
     | _, _ => false
     end
  then of_ino (dns s f)
  else of_ino (dns s f) ++ of_ino (vns s f).

Definition dir_cands (s : fsstate) (d : dname) : list bool :=
  if ddirs s d then [true] else if vdirs s d then [false; true] else [false].

Fixpoint all_choices {A : Type} (l : list (fname * list A)) : list (list (fname * A)) :=
  match l with
  | [] => [[]]
  | (f, cs) :: r => flat_map (fun c => map (cons (f, c)) (all_choices r)) cs
  end.

Fixpoint alookup {A : Type} (l : list (fname * option A)) (f : fname) : option A :=
  match l with
  | [] => None
  | (g, v) :: r => if fname_eqb f g then v else alookup r f
  end.

(** ALL crash images (no cap: exponential in the number of pending entries, which is
    small for the crate's traces).  Sound and complete w.r.t. [is_crash_image]
    (Proofs/Fs.v: [crash_images_sound], [crash_images_complete]). *)
Definition crash_images (s : fsstate) : list image :=
  flat_map (fun dt =>
    flat_map (fun db =>
      map (fun ch =>
             mkImage (fun d => match d with Root => true | Tables => dt | Blobs => db end)
                     (alookup ch) (names s))
          (all_choices (map (fun f => (f, entry_cands s f)) (names s))))
      (dir_cands s Blobs))
    (dir_cands s Tables).

(** The two extremes. *)
Definition durable_image (s : fsstate) : image :=
  mkImage (ddirs s)
          (fun f => match dns s f with Some i => Some (dcont s i, false) | None => None end)
          (names s).

Definition volatile_image (s : fsstate) : image :=
  mkImage (fun d => ddirs s d || vdirs s d)
          (fun f => match vns s f with Some i => Some (vcont s i, false) | None => None end)
          (names s).

(** ** Recovery *)
Inductive rresult :=
| Fresh                      (* no [current]: Tree::open takes the create_new path *)
| Recovered (vid : N) (tables blobs : list N) (deleted : list fname)
| Failed.

Fixpoint list_eqb (a b : list N) : bool :=
  match a, b with
  | [], [] => true
  | x :: a', y :: b' => N.eqb x y && list_eqb a' b'
  | _, _ => false
  end.

Definition memN (x : N) (l : list N) : bool := existsb (N.eqb x) l.

(** sfa::Reader::new / Table::recover / blob Metadata::from_slice succeed iff the file
    is complete (modelling assumption). *)
Definition complete (o : oracle) (f : fname) (c : icontent) : bool :=
  match expected o f with
  | Some e => negb (snd c) && list_eqb (fst c) e
  | None => false
  end.

(** a file is visible only if its directory is *)
Definition img_file (img : image) (f : fname) : option icontent :=
  if idirs img (dir_of f) then iget img f else None.

Definition file_ok (o : oracle) (img : image) (f : fname) : bool :=
  match img_file img f with Some c => complete o f c | None => false end.

(** std::fs::read_dir *)
Definition listing (img : image) (d : dname) : list fname :=
  filter (fun f => dname_eqb (dir_of f) d &&
                   match img_file img f with Some _ => true | None => false end)
         (inames img).

(** Transliteration of [Tree::open] (tree/mod.rs:828-832), [recover]
    (version/recovery.rs:34-160), [Tree::recover_levels] (tree/mod.rs:1022-1171),
    [recover_blob_files] (vlog/mod.rs:25-133), [cleanup_orphaned_version]
    (tree/mod.rs:1173-1195).
    - tree/mod.rs:828: [current] absent -> create_new (whatever else is in the folder).
    - recovery.rs:15-17: read the u64 at the start of [current] (first token must be whole).
    - recovery.rs:45: [v<id>] must open (sfa trailer/ToC) -> complete.
    - tree/mod.rs:1076-1079: a missing [tables/] is created (= empty listing).
    - tree/mod.rs:1110-1125: every LISTED table found in [tables/] is opened
      ([Table::recover] error => Failed); 1137: fewer found than listed => Failed;
      1132-1134: unlisted ones are orphans (never opened).
    - vlog/mod.rs:31-33: a missing [blobs/] yields NO blob files and NO error, even if the
      version lists some (!); otherwise like tables (75-100, 126-128).
    - tree/mod.rs:1158: delete every root file whose name starts with 'v' except v<id>
      (temp files [.tmp*] and other files are NOT deleted), 1160-1163 orphan tables,
      1165-1168 orphan blob files, in this order; nothing is fsynced afterwards. *)
Definition recover_dir (o : oracle) (img : image) : rresult :=
  match img_file img Current with
  | None => Fresh
  | Some ([], _) => Failed
  | Some (t :: _, _) =>
      match current_points o t with
      | None => Failed
      | Some vid =>
          if negb (file_ok o img (VersionFile vid)) then Failed
          else match version_contents o vid with
               | None => Failed
               | Some vd =>
                   if negb (forallb (fun id => file_ok o img (TableFile id)) (vd_tables vd))
                   then Failed
                   else
                     let blobs_present := idirs img Blobs in
                     if blobs_present &&
                        negb (forallb (fun id => file_ok o img (BlobFile id)) (vd_blobs vd))
                     then Failed
                     else
                       let del_v := filter (fun f => match f with
                                                     | VersionFile id => negb (N.eqb id vid)
                                                     | _ => false end) (listing img Root) in
                       let del_t := filter (fun f => match f with
                                                     | TableFile id => negb (memN id (vd_tables vd))
                                                     | _ => false end) (listing img Tables) in
                       let del_b := filter (fun f => match f with
                                                     | BlobFile id => negb (memN id (vd_blobs vd))
                                                     | _ => false end) (listing img Blobs) in
                       Recovered vid (vd_tables vd)
                                 (if blobs_present then vd_blobs vd else [])
                                 (del_v ++ del_t ++ del_b)
               end
      end
  end.

(** result without the list of deleted orphans *)
Inductive rsummary := SFresh | SFailed | SRec (vid : N) (tables blobs : list N).

Definition summary (r : rresult) : rsummary :=
  match r with
  | Fresh => SFresh
  | Failed => SFailed
  | Recovered v t b _ => SRec v t b
  end.

Definition recover_result_of (o : oracle) (s : fsstate) : rresult :=
  recover_dir o (durable_image s).

(** ** The crate's own traces, in the order the code issues the syscalls *)
Definition write_all (f : fname) (toks : list N) : list fsop := map (Write f) toks.

(** one output file of a (multi-)writer: id, tokens written while it is the active
    writer (data blocks), tokens written by [finish] (index, filter, meta, ToC, trailer) *)
Record wfile := mkW { w_id : N; w_data : list N; w_tail : list N }.

(** table/writer/mod.rs: [Writer::finish] for a non-empty table:
    384-513 index/filter/meta, 518 [into_inner] (ToC+trailer, flush), 519 [sync_all],
    528 [fsync_directory(tables/)]. *)
Definition table_finish (w : wfile) : list fsop :=
  write_all (TableFile (w_id w)) (w_tail w) ++
  [FsyncFile (TableFile (w_id w)); FsyncDir Tables].

(** table/multi_writer.rs: [MultiWriter::new] 61-64 creates the first table with
    [File::create_new] (writer/mod.rs:99); [rotate] 184-187 creates the NEXT table first,
    then 215 finishes the old one; [finish] 252 finishes the last one. *)
Fixpoint tables_from (cur : wfile) (rest : list wfile) : list fsop :=
  write_all (TableFile (w_id cur)) (w_data cur) ++
  match rest with
  | [] => table_finish cur
  | nxt :: rest' =>
      Create (TableFile (w_id nxt)) true :: table_finish cur ++ tables_from nxt rest'
  end.

Definition trace_tables (ws : list wfile) : list fsop :=
  match ws with
  | [] => []
  | w :: rest => Create (TableFile (w_id w)) true :: tables_from w rest
  end.

(** writer/mod.rs:377-379: nothing written -> the file is removed, no fsync at all
    (also [Ingestion] dropped/empty: tree/ingest.rs:235-238 does not even do that). *)
Definition trace_empty_table (id : N) : list fsop :=
  [Create (TableFile id) true; Unlink (TableFile id)].

(** vlog/blob_file/writer.rs: [Writer::new] 73 [File::create] (TRUNCATING, not exclusive);
    [finish] 222-248 meta, 250 [into_inner], 251 [sync_all]; NO fsync of [blobs/]
    anywhere (multi_writer.rs:104-146 [consume_writer], 223-227 [finish]). *)
Definition blob_finish (fix_dir : bool) (w : wfile) : list fsop :=
  write_all (BlobFile (w_id w)) (w_tail w) ++
  [FsyncFile (BlobFile (w_id w))] ++ (if fix_dir then [FsyncDir Blobs] else []).

(** vlog/blob_file/multi_writer.rs: [new] 52-60; [rotate] 91-98 (new file created first,
    then the old one finished); [finish] 224.  [fix_dir = true] inserts the missing
    [FsyncDir Blobs] (the repair); the crate is [fix_dir = false]. *)
Fixpoint blobs_from (fix_dir : bool) (cur : wfile) (rest : list wfile) : list fsop :=
  write_all (BlobFile (w_id cur)) (w_data cur) ++
  match rest with
  | [] => blob_finish fix_dir cur
  | nxt :: rest' =>
      Create (BlobFile (w_id nxt)) false :: blob_finish fix_dir cur ++ blobs_from fix_dir nxt rest'
  end.

Definition trace_blobs (fix_dir : bool) (ws : list wfile) : list fsop :=
  match ws with
  | [] => []
  | w :: rest => Create (BlobFile (w_id w)) false :: blobs_from fix_dir w rest
  end.

(** version/persist.rs [persist_version] + file.rs [rewrite_atomic]:
    persist.rs:20 File::create(v<id>) (truncating); 27-35 sections + flush;
    41 sync_all; 44 fsync_directory(root);
    file.rs:119 NamedTempFile::new_in(root) (O_EXCL); 120 write_all; 122 sync_all;
    123 persist = rename(tmp, current); 128-129 open(current)+sync_all;
    136 fsync_directory(root). *)
Definition trace_persist (vid : N) (vtoks : list N) (tmp ctok : N) : list fsop :=
  [Create (VersionFile vid) false] ++
  write_all (VersionFile vid) vtoks ++
  [FsyncFile (VersionFile vid); FsyncDir Root;
   Create (TempFile tmp) true; Write (TempFile tmp) ctok; FsyncFile (TempFile tmp);
   Rename (TempFile tmp) Current; FsyncFile Current; FsyncDir Root].

(** version/super_version.rs:75-110 [maintenance]: 98-101 remove v<old> for every popped
    SuperVersion (never the latest); no fsync of the root afterwards.
    (gc_watermark = 0 -> returns at 76-78 without removing anything.) *)
Definition trace_maintenance (old_vids : list N) : list fsop :=
  map (fun v => Unlink (VersionFile v)) old_vids.

(** table/inner.rs:78-97, vlog/blob_file/mod.rs:50-72: [Drop] unlinks a file that was
    [mark_as_deleted]; no directory fsync. *)
Definition trace_drop_files (tables blobs : list N) : list fsop :=
  map (fun t => Unlink (TableFile t)) tables ++ map (fun b => Unlink (BlobFile b)) blobs.

(** Standard tree flush: abstract_tree.rs:109 [flush_to_tables] (tree/mod.rs:371 writer
    created, 401 writes, 404 finish) then :110 [register_tables] (tree/mod.rs:463
    [upgrade_version] = super_version.rs:145 [persist_version] THEN :146 append;
    tree/mod.rs:485 [maintenance]). *)
Definition trace_flush (tables : list wfile) (vid : N) (vtoks : list N) (tmp ctok : N)
           (old_vids : list N) : list fsop :=
  trace_tables tables ++ trace_persist vid vtoks tmp ctok ++ trace_maintenance old_vids.

(** Blob tree flush: blob_tree/mod.rs:399 table writer created, 439 blob writer
    created, 452-486 writes (blob first, then its pointer), 488 [blob_writer.finish],
    490 [table_writer.finish], then register_tables as above.
    The blob data/table data writes are interleaved in reality; their relative order
    is irrelevant for the model (different files), we emit blob data first. *)
Definition trace_flush_blob (fix_dir : bool) (tables blobs : list wfile)
           (vid : N) (vtoks : list N) (tmp ctok : N) (old_vids : list N) : list fsop :=
  match tables with
  | [] => []
  | w :: rest =>
      Create (TableFile (w_id w)) true ::
      trace_blobs fix_dir blobs ++ tables_from w rest ++
      trace_persist vid vtoks tmp ctok ++ trace_maintenance old_vids
  end.

(** Compaction merge: compaction/worker.rs:415 table writer created (flavour.rs:75),
    451 blob writer (relocation only), 490-503 writes;
    flavour.rs:406 (274) [consume_writer] = table finish, 275 blob finish,
    418 (288) [upgrade_version], 448-454 (318-324) [mark_as_deleted] only afterwards;
    worker.rs:556 [maintenance]; the unlinks happen when the last Arc is dropped. *)
Definition trace_merge (fix_dir : bool) (tables blobs : list wfile)
           (vid : N) (vtoks : list N) (tmp ctok : N)
           (old_vids old_tables old_blobs : list N) : list fsop :=
  match tables with
  | [] => []
  | w :: rest =>
      Create (TableFile (w_id w)) true ::
      match blobs with
      | [] => []
      | b :: _ => [Create (BlobFile (w_id b)) false]
      end ++
      tables_from w rest ++
      match blobs with
      | [] => []
      | b :: brest => blobs_from fix_dir b brest
      end ++
      trace_persist vid vtoks tmp ctok ++ trace_maintenance old_vids ++
      trace_drop_files old_tables old_blobs
  end.

(** compaction/worker.rs [move_tables] 206-219 upgrade_version, 221 maintenance
    (no file is dropped); [drop_tables] 614-627 upgrade_version, 629 maintenance,
    639-645 mark_as_deleted (after). *)
Definition trace_move_or_drop (vid : N) (vtoks : list N) (tmp ctok : N)
           (old_vids dropped_tables dropped_blobs : list N) : list fsop :=
  trace_persist vid vtoks tmp ctok ++ trace_maintenance old_vids ++
  trace_drop_files dropped_tables dropped_blobs.

(** tree/mod.rs:264-280 / blob_tree/mod.rs:289-306 [clear]: upgrade_version to an empty
    Version; the old tables/blob files are NOT marked deleted and no maintenance runs:
    nothing is unlinked (they stay until the next recovery deletes them as orphans). *)
Definition trace_clear (vid : N) (vtoks : list N) (tmp ctok : N) : list fsop :=
  trace_persist vid vtoks tmp ctok.

(** tree/mod.rs:1001-1019 [create_new]: 1008 mkdir root, 1011 mkdir tables,
    1014 fsync tables, 1015 fsync root, 1017 TreeInner::create_new (tree/inner.rs:84
    persist_version(v0)).  Blob tree: blob_tree/mod.rs:162 mkdir blobs, 163 fsync blobs
    (the root is NOT fsynced again: the [blobs] entry becomes durable only with the
    next persist_version, persist.rs:44). *)
Definition trace_create_new (blob : bool) (vtoks : list N) (tmp ctok : N) : list fsop :=
  [Mkdir Root; Mkdir Tables; FsyncDir Tables; FsyncDir Root] ++
  trace_persist 0 vtoks tmp ctok ++
  (if blob then [Mkdir Blobs; FsyncDir Blobs] else []).

(** tree/ingest.rs: [Ingestion::new] 49 creates the first table immediately;
    [finish] 263 flushes the memtable first (a complete [trace_flush], own version),
    266 writer.finish, 316 upgrade_version_with_seqno, 329 maintenance(0) = nothing.
    [flush_part] is that inner flush trace ([] if the memtable was empty). *)
Definition trace_ingest (tables : list wfile) (flush_part : list fsop)
           (vid : N) (vtoks : list N) (tmp ctok : N) : list fsop :=
  match tables with
  | [] => []
  | w :: rest =>
      Create (TableFile (w_id w)) true :: flush_part ++ tables_from w rest ++
      trace_persist vid vtoks tmp ctok
  end.

(** tree/mod.rs:1158-1168: recovery unlinks exactly the [deleted] list of
    [recover_dir], in that order, without any fsync. *)
Definition trace_recover_cleanup (deleted : list fname) : list fsop := map Unlink deleted.

(** ** The persistence protocol, as a decidable check on a trace

    Protocol state [(dv, vv, pub)]: the version the DURABLE [current] points to, the
    version the VOLATILE [current] points to ([None] = no [current]), and whether the
    (single) publishing rename already happened.  Obligations:
    - every file named by [dv] or [vv] (+ [current] itself) is *protected*: no op may
      create/truncate, write, rename or unlink it;
    - the only op allowed on [current] is ONE [Rename (TempFile k) Current], and only if
      the temp file is fully fsynced, denotes a version [v1], and every file named by
      [v1] (v<v1>, its tables, its blob files) is *stable*: durable directory entry =
      volatile entry, content complete and fsynced, parent directory durable;
    - [FsyncDir Root] turns the volatile [current] into the durable one (only then do the
      files of the old version lose protection, i.e. may be unlinked);
    - the trace must not end between the rename and that [FsyncDir Root]. *)
Definition opt_is (j : N) (o : option N) : bool :=
  match o with Some i => N.eqb i j | None => false end.

Definition opt_eqb (a b : option N) : bool :=
  match a, b with
  | Some x, Some y => N.eqb x y
  | None, None => true
  | _, _ => false
  end.

Definition pnames (o : oracle) (vid : N) : list fname :=
  match version_contents o vid with
  | Some vd => VersionFile vid :: map TableFile (vd_tables vd) ++ map BlobFile (vd_blobs vd)
  | None => []
  end.

Definition opnames (o : oracle) (ov : option N) : list fname :=
  match ov with Some v => pnames o v | None => [] end.

Definition stableb (o : oracle) (s : fsstate) (f : fname) : bool :=
  match dns s f, vns s f with
  | Some i, Some j =>
      N.eqb i j && list_eqb (dcont s i) (vcont s i) &&
      match expected o f with Some e => list_eqb (vcont s i) e | None => false end &&
      ddirs s (dir_of f)
  | _, _ => false
  end.

Definition touched (op : fsop) : list fname :=
  match op with
  | Create f _ => [f] | Write f _ => [f] | Rename a b => [a; b] | Unlink f => [f]
  | Mkdir _ | FsyncFile _ | FsyncDir _ => []
  end.

(** an op is safe iff it touches no protected NAME.  (No inode-alias check is needed:
    the model has no hard links; Proofs/Fs.v carries injectivity of the volatile
    namespace as part of the invariant.) *)
Definition safe_name (P : list fname) (g : fname) : bool :=
  negb (existsb (fname_eqb g) P).

Definition safe_op (P : list fname) (op : fsop) : bool :=
  forallb (safe_name P) (touched op).

Definition pstate := (option N * option N * bool)%type.

Definition protected (o : oracle) (ps : pstate) : list fname :=
  let '(dv, vv, _) := ps in Current :: opnames o dv ++ opnames o vv.

(** the version a (durable or volatile) [current] binding denotes *)
Definition cur_of (o : oracle) (s : fsstate) (ns : fname -> option N) : option (option N) :=
  match ns Current with
  | None => Some None
  | Some i =>
      match vcont s i with
      | [t] => if list_eqb (dcont s i) [t]
               then match current_points o t with Some v => Some (Some v) | None => None end
               else None
      | _ => None
      end
  end.

(** may [Rename (TempFile k) Current] publish now?  returns the published version *)
Definition publish_ok (o : oracle) (s : fsstate) (ps : pstate) (k : N) : option N :=
  let '(dv, vv, pub) := ps in
  if pub || negb (opt_eqb dv vv) then None
  else match cur_of o s (upd_name (vns s) Current (vns s (TempFile k))) with
       | Some (Some v1) =>
           match vns s (TempFile k) with
           | Some _ =>
               if forallb (stableb o s) (pnames o v1) &&
                  match version_contents o v1 with Some _ => true | None => false end
               then Some v1 else None
           | None => None
           end
       | _ => None
       end.

Definition proto_step (o : oracle) (s : fsstate) (ps : pstate) (op : fsop) : option pstate :=
  let '(dv, vv, pub) := ps in
  match op with
  | Rename (TempFile k) Current =>
      match publish_ok o s ps k with
      | Some v1 => Some (dv, Some v1, true)
      | None => None
      end
  | FsyncDir Root => Some (vv, vv, pub)
  | _ => if safe_op (protected o ps) op then Some ps else None
  end.

Fixpoint proto_run (o : oracle) (s : fsstate) (ps : pstate) (tr : list fsop)
  : option (fsstate * pstate) :=
  match tr with
  | [] => Some (s, ps)
  | op :: tr' =>
      match proto_step o s ps op, apply s op with
      | Some ps', Some s' => proto_run o s' ps' tr'
      | _, _ => None
      end
  end.

Definition protocol_ok (o : oracle) (s : fsstate) (tr : list fsop) : bool :=
  match cur_of o s (dns s), cur_of o s (vns s) with
  | Some dv, Some vv =>
      opt_eqb dv vv &&
      match proto_run o s (dv, vv, false) tr with
      | Some (_, (dvf, vvf, _)) => opt_eqb dvf vvf
      | None => false
      end
  | _, _ => false
  end.

(** index of the first op violating the protocol (diagnostics for the glue) *)
Fixpoint first_violation (o : oracle) (s : fsstate) (ps : pstate) (tr : list fsop) (k : nat)
  : option nat :=
  match tr with
  | [] => None
  | op :: tr' =>
      match proto_step o s ps op, apply s op with
      | Some ps', Some s' => first_violation o s' ps' tr' (S k)
      | _, _ => Some k
      end
  end.

Definition rsummary_eqb (a b : rsummary) : bool :=
  match a, b with
  | SFresh, SFresh => true
  | SFailed, SFailed => true
  | SRec v t b1, SRec v' t' b' => N.eqb v v' && list_eqb t t' && list_eqb b1 b'
  | _, _ => false
  end.

(** Checker used by the extracted harness: every crash image of every prefix of [tr]
    (executed from [s]) recovers to [before] or [after]. *)
Definition all_prefix_summaries (o : oracle) (s : fsstate) (tr : list fsop) : list rsummary :=
  flat_map (fun n => match run_fs s (firstn n tr) with
                     | Some sn => map (fun i => summary (recover_dir o i)) (crash_images sn)
                     | None => []
                     end)
           (seq 0 (S (length tr))).

Definition crash_atomic_check (o : oracle) (s : fsstate) (tr : list fsop) : bool :=
  match run_fs s tr with
  | Some sf =>
      let before := summary (recover_result_of o s) in
      let after := summary (recover_result_of o sf) in
      forallb (fun r => rsummary_eqb r before || rsummary_eqb r after)
              (all_prefix_summaries o s tr) &&
      forallb (fun i => rsummary_eqb (summary (recover_dir o i)) after) (crash_images sf)
  | None => false
  end.

(** Decidable part of "the disk is consistent and its [current] denotes [ov]"
    (the rest - bounded inode numbers, no hard links - holds for every state produced
    by [run_fs fs_init]; Proofs/Fs.v: [disk_okb_sound], [run_fs_init_wf]). *)
Definition disk_okb (o : oracle) (s : fsstate) (ov : option N) : bool :=
  opt_eqb (dns s Current) (vns s Current) &&
  match cur_of o s (dns s) with
  | Some ov' => opt_eqb ov' ov
  | None => false
  end &&
  match ov with
  | Some v =>
      match version_contents o v with Some _ => true | None => false end &&
      forallb (stableb o s) (pnames o v)
  | None => true
  end.
