(** Key ranges of tables against user range bounds, and the DropRange strategy.
    Mirrors: src/key_range.rs, src/compaction/drop_range.rs, src/version/run.rs
    (range_overlap_indexes), src/tree/mod.rs (range_bounds_to_owned_bounds). *)
From LsmV Require Export Base.Bytes Model.Entry.
Open Scope N_scope.

(** A KeyRange is the pair [(kmin, kmax)], inclusive on both sides. *)

(** src/key_range.rs: KeyRange::contains_key   [key >= *start && key <= *end] *)
Definition kr_contains_key (kmin kmax k : key) : bool :=
  key_leb kmin k && key_leb k kmax.

(** src/key_range.rs: KeyRange::contains_range (self = 1, other = 2)
    [start1 <= start2 && end1 >= end2] *)
Definition kr_contains_range (min1 max1 min2 max2 : key) : bool :=
  key_leb min1 min2 && key_leb max2 max1.

(** src/key_range.rs: KeyRange::overlaps_with_key_range
    [end1 >= start2 && start1 <= end2] *)
Definition kr_overlaps_kr (min1 max1 min2 max2 : key) : bool :=
  key_leb min2 max1 && key_leb min1 max2.

Definition is_unb (b : bound) : bool := match b with Unb => true | _ => false end.

(** src/key_range.rs: KeyRange::overlaps_with_bounds, branch by branch.
    ([unreachable!()] arms are modelled by [true]; they are never taken.) *)
Definition kr_overlaps_bounds (kmin kmax : key) (lo hi : bound) : bool :=
  if is_unb lo && is_unb hi then true
  else if is_unb hi then
    match lo with
    | Incl key => key_leb key kmax        (* key <= my_hi *)
    | Excl key => key_ltb key kmax        (* key <  my_hi *)
    | Unb => true
    end
  else if is_unb lo then
    match hi with
    | Incl key => key_leb kmin key        (* key >= my_lo *)
    | Excl key => key_ltb kmin key        (* key >  my_lo *)
    | Unb => true
    end
  else
    let lo_included :=
      match lo with
      | Incl key => key_leb key kmax
      | Excl key => key_ltb key kmax
      | Unb => true
      end in
    let hi_included :=
      match hi with
      | Incl key => key_leb kmin key
      | Excl key => key_ltb kmin key
      | Unb => true
      end in
    lo_included && hi_included.

(** src/compaction/drop_range.rs: OwnedBounds::contains(range = (kmin, kmax)) *)
Definition bounds_contains (lo hi : bound) (kmin kmax : key) : bool :=
  let lower_ok :=
    match lo with
    | Unb => true
    | Incl key => key_leb key kmin        (* key <= range.min() *)
    | Excl key => key_ltb key kmin        (* key <  range.min() *)
    end in
  if negb lower_ok then false
  else
    match hi with
    | Unb => true
    | Incl key => key_leb kmax key        (* key >= range.max() *)
    | Excl key => key_ltb kmax key        (* key >  range.max() *)
    end.

(** src/tree/mod.rs: range_bounds_to_owned_bounds, the [is_empty] flag
    ([lo > hi] when both ends are bounded, whatever their kinds) *)
Definition bounds_is_empty (lo hi : bound) : bool :=
  match lo, hi with
  | (Incl l | Excl l), (Incl h | Excl h) => key_ltb h l
  | _, _ => false
  end.

(** ** the DropRange strategy *)

Record tinfo := mkT { t_id : N; t_min : key; t_max : key }.

(** slice::partition_point on a slice that *is* partitioned by [pred] (trues first):
    the number of leading elements satisfying [pred].  (On a slice that is not
    partitioned std leaves the result unspecified; runs are sorted and disjoint, which
    makes every predicate used below a partition.) *)
Fixpoint partition_point {A} (pred : A -> bool) (l : list A) : nat :=
  match l with
  | [] => 0%nat
  | x :: l' => if pred x then S (partition_point pred l') else 0%nat
  end.

(** src/version/run.rs: Run::range_overlap_indexes *)
Definition range_overlap_indexes (run : list tinfo) (lo hi : bound) : option (nat * nat) :=
  let len := length run in
  let lo_idx :=
    match lo with
    | Unb => 0%nat
    | Incl s => partition_point (fun x => key_ltb (t_max x) s) run
    | Excl s => partition_point (fun x => key_leb (t_max x) s) run
    end in
  if Nat.leb len lo_idx then None
  else
    let truncated := skipn lo_idx run in
    let hi_idx :=
      match hi with
      | Unb => Some (len - 1)%nat
      | Incl e =>
          let idx := (lo_idx + partition_point (fun x => key_leb (t_min x) e) truncated)%nat in
          if Nat.eqb idx 0 then None else Some (idx - 1)%nat
      | Excl e =>
          let idx := (lo_idx + partition_point (fun x => key_ltb (t_min x) e) truncated)%nat in
          if Nat.eqb idx 0 then None else Some (idx - 1)%nat
      end in
    match hi_idx with
    | None => None
    | Some hi_idx => if Nat.ltb hi_idx lo_idx then None else Some (lo_idx, hi_idx)
    end.

(** [run.get(lo..=hi).unwrap_or_default()] ([get] gives [None] when [hi >= len]) *)
Definition run_get_incl (run : list tinfo) (lo hi : nat) : list tinfo :=
  if Nat.leb (length run) hi then [] else firstn (hi - lo + 1) (skipn lo run).

(** the tables of one run selected by [choose]:
    [range_overlap_indexes(..).and_then(|(lo,hi)| run.get(lo..=hi)).unwrap_or_default()
       .iter().filter(|x| bounds.contains(x.key_range()))] *)
Definition drop_range_run (lo hi : bound) (run : list tinfo) : list tinfo :=
  let slice :=
    match range_overlap_indexes run lo hi with
    | Some (l, h) => run_get_incl run l h
    | None => []
    end in
  filter (fun x => bounds_contains lo hi (t_min x) (t_max x)) slice.

(** src/compaction/drop_range.rs: Strategy::choose.  [runs]: all runs of all levels in
    iteration order; [hidden]: ids in the compaction state's hidden set.
    [None] = Choice::DoNothing, [Some ids] = Choice::Drop(ids) (a HashSet in Rust: the
    order is the model's iteration order, compare as sets). *)
Definition drop_range_choose (lo hi : bound) (runs : list (list tinfo)) (hidden : list N)
  : option (list N) :=
  let ids := map t_id (flat_map (drop_range_run lo hi) runs) in
  if existsb (fun id => existsb (N.eqb id) hidden) ids then None else Some ids.

(** src/tree/mod.rs: Tree::drop_range: nothing happens for a range flagged empty *)
Definition tree_drop_range (lo hi : bound) (runs : list (list tinfo)) (hidden : list N)
  : option (list N) :=
  if bounds_is_empty lo hi then None else drop_range_choose lo hi runs hidden.
