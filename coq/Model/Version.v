(** Version transformations: key-range predicates, [Run::push], [optimize_runs] and the
    four copy-on-write constructors of a new [Version].
    Mirrors: src/key_range.rs, src/version/run.rs, src/version/optimize.rs,
    src/version/mod.rs (with_new_l0_run / with_dropped / with_merge / with_moved; the
    blob_files / gc_stats halves of those functions are modelled elsewhere).
    Definitions only; every function is total and computable (extracted and run against
    the crate).  Proofs are in Proofs/Version.v. *)
From LsmV Require Export Model.Tree.
Open Scope N_scope.

(** ** src/key_range.rs *)

(** key_range.rs: KeyRange::overlaps_with_key_range  ([end1 >= start2 && start1 <= end2]);
    the key range of a table is [(kmin, kmax)] (impl Ranged for Table) *)
Definition kr_overlaps (t t' : table) : bool :=
  key_leb (kmin t') (kmax t) && key_leb (kmin t) (kmax t').

(** key_range.rs: KeyRange::contains_range  ([start1 <= start2 && end1 >= end2]) *)
Definition kr_contains_range (t t' : table) : bool :=
  key_leb (kmin t) (kmin t') && key_leb (kmax t') (kmax t).

(** key_range.rs: KeyRange::contains_key  ([key >= start && key <= end]) *)
Definition kr_contains_key (t : table) (k : key) : bool :=
  key_leb (kmin t) k && key_leb k (kmax t).

(** ** src/version/run.rs *)

(** run.rs: Run::new -- [None] for an empty vector; modelled as zero or one run *)
Definition run_new (ts : list table) : list run :=
  match ts with [] => [] | _ :: _ => [ts] end.

(** Vec::is_empty (through Deref of Run) *)
Definition run_is_empty (r : run) : bool := match r with [] => true | _ :: _ => false end.

(** one step of a stable insertion sort by [key_range().min()]: [t] goes in front of the
    first element whose min key is >= its own (so it stays in front of equal elements
    that followed it in the unsorted vector) *)
Fixpoint insert_kmin (t : table) (r : run) : run :=
  match r with
  | [] => [t]
  | x :: r' => if key_leb (kmin t) (kmin x) then t :: r else x :: insert_kmin t r'
  end.

(** slice::sort_by(|a, b| a.key_range().min().cmp(b.key_range().min())): a stable sort; the
    result of a stable sort is unique, so the insertion sort computes the same vector *)
Definition sort_kmin (r : run) : run := fold_right insert_kmin [] r.

(** run.rs: Run::push -- push at the end, then (stable) sort by min key *)
Definition run_push (r : run) (t : table) : run := sort_kmin (r ++ [t]).

(** run.rs: Run::retain *)
Definition run_retain (f : table -> bool) (r : run) : run := filter f r.

(** ** src/version/optimize.rs *)

(** Iterator::rposition: index of the last element satisfying [p] *)
Fixpoint rposition {A : Type} (p : A -> bool) (l : list A) : option nat :=
  match l with
  | [] => None
  | x :: l' =>
      match rposition p l' with
      | Some i => Some (S i)
      | None => if p x then Some O else None
      end
  end.

(** optimize.rs: the closure [existing_run.iter().any(|x| table.key_range()
    .overlaps_with_key_range(x.key_range()))] *)
Definition run_overlaps (t : table) (r : run) : bool := existsb (fun x => kr_overlaps t x) r.

(** optimize.rs: [new_runs.get_mut(i)] then [target.push(table)], else
    [new_runs.push(Run::new(vec![table]))] when index [i] does not exist *)
Fixpoint push_at (i : nat) (t : table) (rs : list run) : list run :=
  match rs with
  | [] => [[t]]
  | r :: rs' =>
      match i with
      | O => run_push r t :: rs'
      | S i' => r :: push_at i' t rs'
      end
  end.

(** optimize.rs: body of the inner loop of optimize_runs for one table *)
Definition place (new_runs : list run) (t : table) : list run :=
  let last_overlap := rposition (run_overlaps t) new_runs in
  let target := match last_overlap with
                | Some idx => S idx       (* new_runs.get_mut(idx + 1) *)
                | None => O               (* new_runs.first_mut() *)
                end in
  push_at target t new_runs.

(** optimize.rs: optimize_runs *)
Definition optimize_runs (runs : list run) : list run :=
  if Nat.leb (length runs) 1 then runs
  else fold_left (fun new_runs r => fold_left place r new_runs) runs [].

(** ** src/version/mod.rs *)

(** [ids.contains(&x.metadata.id)] *)
Definition id_in (ids : list N) (t : table) : bool := existsb (N.eqb (tid t)) ids.

(** mod.rs: with_dropped / with_merge / with_moved: per level, clone every run, remove the
    tables whose id is listed ([extract_if] resp. [retain]), then
    [.filter(|x| !x.is_empty())] *)
Definition retain_runs (ids : list N) (l : level) : list run :=
  filter (fun r => negb (run_is_empty r))
         (map (run_retain (fun t => negb (id_in ids t))) l).

(** mod.rs: Version::iter_tables is [all_tables] of Model/Tree.v *)

(** mod.rs: Version::with_new_l0_run ([Run::new(run.to_vec())] pushed first, then the
    previous runs of L0, then [optimize_runs]; levels 1.. are cloned untouched).
    [expect("L0 should always exist")] panics on a version without levels: no new
    version is produced, modelled as returning [v] itself (id not bumped). *)
Definition with_new_l0_run (v : version) (tables : list table) : version :=
  match levels v with
  | [] => v
  | l0 :: rest => mkV (vid v + 1) (optimize_runs (run_new tables ++ l0) :: rest)
  end.

(** mod.rs: Version::with_dropped *)
Definition with_dropped (v : version) (ids : list N) : version :=
  mkV (vid v + 1) (map (fun l => optimize_runs (retain_runs ids l)) (levels v)).

(** mod.rs: the [for (level_idx, level) in self.levels.iter().enumerate()] loop shared
    by with_merge and with_moved; [idx] is the index of the head of [ls]; [ins] are the
    runs put in front of the runs of the destination level ([runs.insert(0, run)] resp.
    [runs.splice(0..0, moved_runs)]) *)
Fixpoint rebuild_from (idx : nat) (ids : list N) (ins : list run) (dest : nat)
         (ls : list level) : list level :=
  match ls with
  | [] => []
  | l :: ls' =>
      let runs := retain_runs ids l in
      let runs := if Nat.eqb idx dest then ins ++ runs else runs in
      optimize_runs runs :: rebuild_from (S idx) ids ins dest ls'
  end.

(** mod.rs: Version::with_merge ([if let Some(run) = Run::new(new_tables.to_vec())
    { runs.insert(0, run) }]).  NB: if [dest >= level_count] the new tables are
    silently not inserted anywhere (the loop never meets [dest_level]). *)
Definition with_merge (v : version) (old_ids : list N) (new_tables : list table)
           (dest : nat) : version :=
  mkV (vid v + 1) (rebuild_from O old_ids (run_new new_tables) dest (levels v)).

(** mod.rs: Version::with_moved, [affected_tables.iter().filter_map(|table|
    Run::new(vec![table.clone()]))]: every moved table is its own run, in iter_tables
    order *)
Definition moved_runs (affected : list table) : list run :=
  flat_map (fun t => run_new [t]) affected.

(** mod.rs: Version::with_moved (current code: [runs.splice(0..0, moved_runs)]).
    [assert_eq!(affected_tables.len(), ids.len())] panics otherwise: no new version,
    modelled as returning [v] itself (id not bumped). *)
Definition with_moved (v : version) (ids : list N) (dest : nat) : version :=
  let affected := filter (id_in ids) (all_tables v) in
  if Nat.eqb (length affected) (length ids)
  then mkV (vid v + 1) (rebuild_from O ids (moved_runs affected) dest (levels v))
  else v.

(** Version::with_moved as it was BEFORE the fix (3.1.9 as shipped):
    [if let Some(run) = Run::new(affected_tables.clone()) { runs.insert(0, run) }] --
    all moved tables packed, unsorted and unchecked, into ONE run.  Kept as the
    documented pre-fix witness (Proofs/Version.v: with_moved_old_bad_run). *)
Definition with_moved_old (v : version) (ids : list N) (dest : nat) : version :=
  let affected := filter (id_in ids) (all_tables v) in
  if Nat.eqb (length affected) (length ids)
  then mkV (vid v + 1) (rebuild_from O ids (run_new affected) dest (levels v))
  else v.

(** ** Decidable conditions used by the preservation theorems (not in the crate) *)

(** the whole-version part of [check_inv_sv] *)
Definition version_inv (v : version) : bool :=
  (N.of_nat (length (levels v)) =? 7)
  && forallb run_ok (all_runs v)
  && nodup_N_b (map tid (all_tables v))
  && recency_b (map ents (all_tables v)).

(** a vector of tables that is a legal run, or empty (then [Run::new] drops it) *)
Definition opt_run_ok (ts : list table) : bool := forallb table_ok ts && run_disjoint_b ts.

(** every table of [xs] is newer (in the [newer_than] sense) than every table of [ys] *)
Definition all_newer (xs ys : list table) : bool :=
  forallb (fun x => forallb (fun y => newer_than (ents x) (ents y)) ys) xs.

(** the tables that survive [retain(|x| !ids.contains(x.id))] *)
Definition kept (ids : list N) (ts : list table) : list table :=
  filter (fun t => negb (id_in ids t)) ts.

Definition tables_of (ls : list level) : list table := concat (concat ls).

(** where a run inserted at the FRONT of level [dest] has to sit in the recency order:
    every surviving table of a level above [dest] (index < dest) is newer than the new
    tables, and the new tables are newer than every surviving table of level [dest]
    itself and of the levels below it. *)
Definition place_ok (v : version) (ids : list N) (new : list table) (dest : nat) : bool :=
  all_newer (kept ids (tables_of (firstn dest (levels v)))) new
  && all_newer new (kept ids (tables_of (skipn dest (levels v)))).

Definition l0_choice_ok (v : version) (new : list table) : bool :=
  opt_run_ok new
  && nodup_N_b (map tid (new ++ all_tables v))
  && all_newer new (all_tables v).

Definition merge_choice_ok (v : version) (old_ids : list N) (new : list table)
           (dest : nat) : bool :=
  opt_run_ok new
  && nodup_N_b (map tid (new ++ kept old_ids (all_tables v)))
  && place_ok v old_ids new dest.

(** current with_moved: nothing beyond the placement condition (the relative order of
    the moved tables among themselves is inherited from [v]) *)
Definition move_choice_ok (v : version) (ids : list N) (dest : nat) : bool :=
  place_ok v ids (filter (id_in ids) (all_tables v)) dest.

(** pre-fix with_moved: the moved tables additionally had to form a legal run *)
Definition move_choice_ok_old (v : version) (ids : list N) (dest : nat) : bool :=
  let affected := filter (id_in ids) (all_tables v) in
  run_disjoint_b affected && place_ok v ids affected dest.
