(** Prefix scans: turning a key prefix into range bounds.
    Mirrors: src/range.rs (prefix_upper_range, prefix_to_range),
             src/util.rs (prefixed_range).
    Bytes are [N]; the Rust code works on [u8], so the model only corresponds to the
    code on well-formed keys ([Forall (fun b => b < 256)]). *)
From LsmV Require Export Base.Bytes Model.Entry.
Open Scope N_scope.

(** [p] is a prefix of [k] (slice::starts_with) *)
Fixpoint is_prefix (p k : key) : bool :=
  match p, k with
  | [], _ => true
  | _ :: _, [] => false
  | x :: p', y :: k' => (x =? y) && is_prefix p' k'
  end.

(** src/range.rs: prefix_upper_range, the loop
      [for (idx, byte) in end.iter_mut().rev().enumerate()]
    run over the *reversed* prefix [r]: the first byte (from the back) that is [< 255] is
    incremented and everything behind it is truncated away
    ([end.truncate(idx + 1)] keeps the bytes in front of it, i.e. [rev r'], and the
    incremented byte).  Falling out of the loop (all bytes are 0xFF) gives [None]. *)
Fixpoint upper_loop (r : list N) : option key :=
  match r with
  | [] => None
  | b :: r' => if b <? 255 then Some (rev r' ++ [b + 1]) else upper_loop r'
  end.

(** src/range.rs: prefix_upper_range.  The Rust function panics
    ([assert!(!prefix.is_empty())]) on the empty prefix; the model returns [Unb] there
    (the loop body never runs), and the only caller that can pass an empty prefix,
    [prefix_to_range], tests for it first. *)
Definition prefix_upper_range (p : key) : bound :=
  match upper_loop (rev p) with
  | Some e => Excl e
  | None => Unb
  end.

(** src/range.rs: prefix_to_range *)
Definition prefix_to_range (p : key) : bound * bound :=
  match p with
  | [] => (Unb, Unb)
  | _ :: _ => (Incl p, prefix_upper_range p)
  end.

(** UserKey::fused(prefix, k): concatenation *)
Definition fused (p k : key) : key := p ++ k.

Definition bound_map (f : key -> key) (b : bound) : bound :=
  match b with Incl k => Incl (f k) | Excl k => Excl (f k) | Unb => Unb end.

(** src/util.rs: prefixed_range.  NOTE: the doc comment says "Panics if the prefix is
    empty", but the code returns [(Unbounded, Unbounded)] for an empty prefix and ignores
    [range] (util.rs:26-28). *)
Definition prefixed_range (p : key) (lo hi : bound) : bound * bound :=
  match p with
  | [] => (Unb, Unb)
  | _ :: _ =>
      match lo, hi with
      | Unb, Unb => prefix_to_range p
      | _, Unb => (bound_map (fused p) lo, prefix_upper_range p)
      | Unb, _ => (Incl p, bound_map (fused p) hi)
      | _, _ => (bound_map (fused p) lo, bound_map (fused p) hi)
      end
  end.
