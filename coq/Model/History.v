(** The version history (SuperVersions) and snapshot resolution.
    Mirrors: src/version/super_version.rs (get_version_for_snapshot, maintenance,
    upgrade_version / append_version, replace_latest_version). *)
From LsmV Require Export Model.Tree.
Open Scope N_scope.

Definition history := list superversion.   (* oldest first, as the VecDeque *)

(** SuperVersions::get_version_for_snapshot; [None] models the `expect` panic *)
Definition version_for_snapshot (h : history) (S : N) : option superversion :=
  if S =? 0 then hd_error h
  else find (fun sv => sv_seq sv <? S) (rev h).

(** Iterator::rposition *)
Fixpoint rposition {A} (f : A -> bool) (l : list A) : option nat :=
  match l with
  | [] => None
  | x :: l' =>
      match rposition f l' with
      | Some i => Some (S i)
      | None => if f x then Some O else None
      end
  end.

(** SuperVersions::maintenance (which entries survive; the v<N> files of the removed
    ones are unlinked) *)
Definition maintenance (h : history) (W : N) : history :=
  if W =? 0 then h
  else if Nat.ltb (length h - 1) 1 then h
  else match rposition (fun sv => sv_seq sv <? W) h with
       | Some hi => skipn hi h
       | None => h
       end.

Definition latest (h : history) : option superversion := hd_error (rev h).

(** u64::MAX: the "newest snapshot" a caller may pass *)
Definition SEQ_MAX : N := 18446744073709551615.
