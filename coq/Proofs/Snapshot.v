(** Snapshot stability (property C02): a reader that fixes a snapshot sequence number [S]
    keeps resolving to the same superversion (up to an in-place memtable rotation and to
    entries with seqno [>= S] landing in the shared active memtable), hence keeps seeing
    the same answers, whatever later writes, rotations, version upgrades (flush,
    compaction, ingestion, drop_range, clear) and history GC with a watermark [<= S]
    happen.

    Structure:
    - 1. list-level: [newest] (and anything else that only looks below [S]) ignores
         entries with seqno [>= S], appended or inserted at their sorted position;
    - 2. [version_for_snapshot] after an append, after an in-place change that keeps the
         seqnos, and after [maintenance] (with the five crate unit tests);
    - 3. one step of the machine tracks the resolved superversion; [snapshot_stable_gen];
    - 4. the history invariant [hinv], its preservation, [snapshot_resolves_to_latest];
    - 5. main theorems [snapshot_stable], [snapshot_reads_stable],
         [snapshot_never_panics], [snapshot_stable_exact];
    - 6. the memtable-sharing invariant [mids_inv] and its preservation;
    - 6.5 the Spec's range scan only looks below [S]; invariants along a whole run;
    - 7. refutations ([watermark_above_snapshot_refuted]) and examples. *)
From LsmV Require Import Model.Snapshot Proofs.Newest Proofs.Lookup.
From Coq Require Import Permutation Sorting.Sorted.
Open Scope N_scope.

Arguments N.add : simpl never.
Arguments N.sub : simpl never.
Arguments N.mul : simpl never.
Arguments N.ltb : simpl never.
Arguments N.leb : simpl never.
Arguments N.eqb : simpl never.
Arguments N.max : simpl never.

(** * 1. Entries at or above the snapshot are invisible *)

(** the part of a bag of entries a reader at snapshot [S] can see at all *)
Definition below (S : N) (l : list entry) : list entry := filter (fun e => seq e <? S) l.

Lemma below_app S a b : below S (a ++ b) = below S a ++ below S b.
Proof. apply filter_app. Qed.

Lemma below_concat S ls : below S (concat ls) = concat (map (below S) ls).
Proof.
  induction ls as [|l ls IH]; [reflexivity|].
  cbn [concat map]. rewrite below_app, IH. reflexivity.
Qed.

Lemma below_none S l : (forall e, In e l -> S <= seq e) -> below S l = [].
Proof.
  induction l as [|x l IH]; intros H; [reflexivity|].
  cbn [below filter]. replace (seq x <? S) with false.
  - apply IH. intros e HI. apply H. right; exact HI.
  - symmetry. apply N.ltb_ge. apply H. left; reflexivity.
Qed.

Lemma below_In S l e : In e (below S l) <-> In e l /\ seq e < S.
Proof. unfold below. rewrite filter_In, N.ltb_lt. tauto. Qed.

Lemma newest_below k S l : newest k S l = newest k S (below S l).
Proof.
  induction l as [|x l IH]; [reflexivity|].
  cbn [below filter newest]. fold (below S l).
  destruct (seq x <? S) eqn:C.
  - cbn [newest]. rewrite <- IH. reflexivity.
  - unfold matches. rewrite C, andb_false_r. exact IH.
Qed.

(** every list-level function that only looks below [S] is insensitive to what is added
    at or above [S] *)
Definition looks_below {A} (S : N) (F : list entry -> A) : Prop :=
  forall l, F l = F (below S l).

Lemma newest_looks_below k S : looks_below S (newest k S).
Proof. intros l. apply newest_below. Qed.

Lemma spec_get_looks_below k S : looks_below S (fun l => spec_get l k S).
Proof. intros l. unfold spec_get. rewrite newest_below. reflexivity. Qed.

Theorem newest_ignores_newer : forall k S l extra,
  (forall e, In e extra -> S <= seq e) -> newest k S (l ++ extra) = newest k S l.
Proof.
  intros k S l extra H.
  rewrite (newest_below k S (l ++ extra)), below_app, (below_none S extra H), app_nil_r.
  symmetry. apply newest_below.
Qed.

Lemma ikey_neither e x :
  ikey_ltb e x = false -> ikey_ltb x e = false -> ukey e = ukey x /\ seq e = seq x.
Proof.
  unfold ikey_ltb. rewrite (key_cmp_antisym e.(ukey) x.(ukey)).
  destruct (key_cmp (ukey e) (ukey x)) eqn:C; cbn [CompOpp]; try discriminate.
  intros H1 H2. apply key_cmp_eq in C. apply N.ltb_ge in H1, H2. split; [exact C|lia].
Qed.

(** sorted insertion (Memtable::insert) of an entry at or above [S] *)
Lemma below_mt_insert S e l : S <= seq e -> below S (mt_insert e l) = below S l.
Proof.
  intros HS.
  assert (Ce : seq e <? S = false) by (apply N.ltb_ge; exact HS).
  induction l as [|x l IH]; cbn [mt_insert].
  - cbn [below filter]. rewrite Ce. reflexivity.
  - destruct (ikey_ltb e x) eqn:C1.
    + cbn [below filter]. rewrite Ce. reflexivity.
    + destruct (ikey_ltb x e) eqn:C2.
      * cbn [below filter]. fold (below S (mt_insert e l)). fold (below S l).
        rewrite IH. reflexivity.
      * destruct (ikey_neither _ _ C1 C2) as [_ Es].
        cbn [below filter]. rewrite <- Es, Ce. reflexivity.
Qed.

(** permutation-robust form: sorted insertion instead of append *)
Theorem newest_insert_newer : forall k S e l,
  S <= seq e -> newest k S (mt_insert e l) = newest k S l.
Proof.
  intros k S e l H. rewrite newest_below, (below_mt_insert S e l H). symmetry.
  apply newest_below.
Qed.

Lemma below_perm S l l' : Permutation l l' -> Permutation (below S l) (below S l').
Proof.
  induction 1 as [|x l l' P IH|x y l|l l' l'' P1 IH1 P2 IH2]; cbn [below filter].
  - constructor.
  - destruct (seq x <? S); [constructor|]; exact IH.
  - destruct (seq x <? S), (seq y <? S); try apply Permutation_refl. apply perm_swap.
  - eapply perm_trans; eauto.
Qed.

(** any arrangement of the old entries and the newer ones *)
Theorem newest_perm_newer : forall k S l l' extra,
  uniq l -> Permutation l' (l ++ extra) -> (forall e, In e extra -> S <= seq e) ->
  newest k S l' = newest k S l.
Proof.
  intros k S l l' extra U P H.
  rewrite (newest_below k S l'), (newest_below k S l).
  assert (P' : Permutation (below S l) (below S l')).
  { apply Permutation_sym. eapply perm_trans; [apply below_perm; exact P|].
    rewrite below_app, (below_none S extra H), app_nil_r. apply Permutation_refl. }
  apply newest_perm; [|apply Permutation_sym; exact P'].
  apply Permutation_sym in P'.
  intros e1 e2 H1 H2. apply U.
  - eapply Permutation_in in H1; [|exact P']. apply below_In in H1. apply H1.
  - eapply Permutation_in in H2; [|exact P']. apply below_In in H2. apply H2.
Qed.

(** * 2. Snapshot resolution *)

Notation vfs := version_for_snapshot.

Lemma vfs_zero h : vfs h 0 = hd_error h.
Proof. reflexivity. Qed.

Lemma vfs_pos h S : S <> 0 -> vfs h S = find (fun sv => sv_seq sv <? S) (rev h).
Proof. intros H. unfold vfs. apply N.eqb_neq in H. rewrite H. reflexivity. Qed.

(** ** 2.1 appending a superversion the snapshot cannot see *)

Theorem vfs_after_append : forall h sv' S,
  S <= sv_seq sv' -> S <> 0 -> vfs (h ++ [sv']) S = vfs h S.
Proof.
  intros h sv' S H HS. rewrite !vfs_pos by exact HS.
  rewrite rev_app_distr. cbn [rev app find].
  replace (sv_seq sv' <? S) with false; [reflexivity|].
  symmetry. apply N.ltb_ge. exact H.
Qed.

(** [S = 0] resolves to the OLDEST entry, which an append does not change either, unless
    the history was empty *)
Lemma vfs_after_append_zero h sv' : h <> [] -> vfs (h ++ [sv']) 0 = vfs h 0.
Proof. intros H. rewrite !vfs_zero. destruct h; [contradiction|reflexivity]. Qed.

Lemma vfs_after_append_zero_empty sv' : vfs ([] ++ [sv']) 0 = Some sv' /\ vfs [] 0 = None.
Proof. split; reflexivity. Qed.

Lemma vfs_some_nonempty h S sv : vfs h S = Some sv -> h <> [].
Proof. intros H E. subst h. unfold vfs in H. destruct (S =? 0); discriminate. Qed.

Corollary vfs_after_append_some h sv' S sv :
  S <= sv_seq sv' -> vfs h S = Some sv -> vfs (h ++ [sv']) S = Some sv.
Proof.
  intros H E. destruct (N.eq_dec S 0) as [->|HS].
  - rewrite vfs_after_append_zero; [exact E|]. eapply vfs_some_nonempty; eauto.
  - rewrite vfs_after_append; assumption.
Qed.

Lemma vfs_In h S sv : vfs h S = Some sv -> In sv h.
Proof.
  unfold vfs. destruct (S =? 0).
  - destruct h; [discriminate|]. intros H. inversion H; subst. left; reflexivity.
  - intros H. apply find_some in H. apply in_rev. apply H.
Qed.

Lemma vfs_seq_lt h S sv : S <> 0 -> vfs h S = Some sv -> sv_seq sv < S.
Proof.
  intros HS H. rewrite vfs_pos in H by exact HS. apply find_some in H.
  apply N.ltb_lt. apply H.
Qed.

(** ** 2.2 in-place changes that keep the seqnos *)

Lemma Forall2_snoc {A B} (R : A -> B -> Prop) l l' x y :
  Forall2 R l l' -> R x y -> Forall2 R (l ++ [x]) (l' ++ [y]).
Proof. intros H1 H2. apply Forall2_app; [exact H1|]. constructor; [exact H2|constructor]. Qed.

Lemma Forall2_rev' {A B} (R : A -> B -> Prop) l l' :
  Forall2 R l l' -> Forall2 R (rev l) (rev l').
Proof.
  induction 1 as [|x y l l' Hxy H IH]; [constructor|].
  cbn [rev]. apply Forall2_snoc; assumption.
Qed.

Lemma find_Forall2 (R : superversion -> superversion -> Prop) p l l' :
  (forall a b, R a b -> p b = p a) -> Forall2 R l l' ->
  forall a, find p l = Some a -> exists b, find p l' = Some b /\ R a b.
Proof.
  intros Hp. induction 1 as [|x y l l' Hxy H IH]; intros a E; [discriminate|].
  cbn [find] in *. rewrite (Hp _ _ Hxy). destruct (p x).
  - inversion E; subst. exists y. auto.
  - apply IH. exact E.
Qed.

Lemma vfs_Forall2 (R : superversion -> superversion -> Prop) h h' S :
  (forall a b, R a b -> sv_seq b = sv_seq a) -> Forall2 R h h' ->
  forall a, vfs h S = Some a -> exists b, vfs h' S = Some b /\ R a b.
Proof.
  intros Hs F a E. unfold vfs in *. destruct (S =? 0).
  - destruct F as [|x y l l' Hxy F]; [discriminate|]. cbn [hd_error] in *.
    inversion E; subst. exists y. auto.
  - eapply find_Forall2; [| apply Forall2_rev'; exact F | exact E].
    intros x y Hxy. cbn beta. rewrite (Hs _ _ Hxy). reflexivity.
Qed.

Lemma Forall2_map_In {A} (R : A -> A -> Prop) (g : A -> A) l :
  (forall x, In x l -> R x (g x)) -> Forall2 R l (map g l).
Proof.
  induction l as [|x l IH]; intros H; [constructor|].
  cbn [map]. constructor; [apply H; left; reflexivity|].
  apply IH. intros y Hy. apply H. right; exact Hy.
Qed.

Lemma Forall2_refl_In {A} (R : A -> A -> Prop) l :
  (forall x, In x l -> R x x) -> Forall2 R l l.
Proof.
  intros H. rewrite <- (map_id l) at 2. apply Forall2_map_In. exact H.
Qed.

(** ** 2.3 [latest] *)

Lemma latest_snoc p l : latest (p ++ [l]) = Some l.
Proof. unfold latest. rewrite rev_app_distr. reflexivity. Qed.

Lemma latest_inv h l : latest h = Some l -> h = removelast h ++ [l].
Proof.
  unfold latest. intros H. destruct (rev h) as [|x t] eqn:E; [discriminate|].
  cbn [hd_error] in H. inversion H; subst x.
  assert (Eh : h = rev t ++ [l]).
  { rewrite <- (rev_involutive h), E. reflexivity. }
  rewrite Eh at 1. rewrite Eh at 1. rewrite removelast_last. reflexivity.
Qed.

Lemma latest_In h l : latest h = Some l -> In l h.
Proof.
  intros H. rewrite (latest_inv _ _ H). apply in_or_app. right. left. reflexivity.
Qed.

Lemma latest_none h : latest h = None -> h = [].
Proof.
  unfold latest. intros H. destruct (rev h) eqn:E; [|discriminate].
  rewrite <- (rev_involutive h), E. reflexivity.
Qed.

Lemma latest_map g h : latest (map g h) = option_map g (latest h).
Proof.
  unfold latest. rewrite <- map_rev. destruct (rev h); reflexivity.
Qed.

Lemma latest_app_nonempty p m : m <> [] -> latest (p ++ m) = latest m.
Proof.
  intros H. unfold latest. rewrite rev_app_distr.
  destruct (rev m) eqn:E; [|reflexivity].
  exfalso. apply H. rewrite <- (rev_involutive m), E. reflexivity.
Qed.

(** ** 2.4 [maintenance] *)

Lemma rposition_spec {A} (f : A -> bool) l i :
  rposition f l = Some i ->
  exists pre x post, l = pre ++ x :: post /\ length pre = i /\ f x = true /\
                     forall y, In y post -> f y = false.
Proof.
  revert i. induction l as [|a l IH]; intros i H; [discriminate|].
  cbn [rposition] in H. destruct (rposition f l) as [j|] eqn:R.
  - inversion H; subst i. destruct (IH j eq_refl) as (pre & x & post & E & L & Fx & Fp).
    exists (a :: pre), x, post. subst l. cbn [length]. auto.
  - destruct (f a) eqn:Fa; [|discriminate]. inversion H; subst i.
    exists [], a, l. repeat split; auto.
    clear -R. induction l as [|b l IH]; intros y []; cbn [rposition] in R.
    + subst b. destruct (rposition f l); [discriminate|]. destruct (f y); [discriminate|reflexivity].
    + apply IH; [|assumption]. destruct (rposition f l); [discriminate|reflexivity].
Qed.

Lemma rposition_none {A} (f : A -> bool) l :
  rposition f l = None -> forall y, In y l -> f y = false.
Proof.
  induction l as [|b l IH]; intros R y []; cbn [rposition] in R.
  - subst b. destruct (rposition f l); [discriminate|]. destruct (f y); [discriminate|reflexivity].
  - apply IH; [|assumption]. destruct (rposition f l); [discriminate|reflexivity].
Qed.

Lemma skipn_app_exact {A} (pre l : list A) : skipn (length pre) (pre ++ l) = l.
Proof. induction pre; [reflexivity|assumption]. Qed.

(** the shape of the result: either nothing happens, or a prefix is cut off right before
    the LAST entry whose seqno is below the watermark *)
Lemma maintenance_shape h W :
  maintenance h W = h \/
  exists pre x post, h = pre ++ x :: post /\ maintenance h W = x :: post /\
                     sv_seq x < W /\ forall y, In y post -> W <= sv_seq y.
Proof.
  unfold maintenance. destruct (W =? 0); [left; reflexivity|].
  destruct (Nat.ltb (length h - 1) 1); [left; reflexivity|].
  destruct (rposition (fun sv => sv_seq sv <? W) h) as [hi|] eqn:R; [|left; reflexivity].
  right. destruct (rposition_spec _ _ _ R) as (pre & x & post & E & L & Fx & Fp).
  exists pre, x, post. subst h hi. rewrite skipn_app_exact.
  repeat split; auto.
  - apply N.ltb_lt. exact Fx.
  - intros y Hy. apply N.ltb_ge. apply Fp. exact Hy.
Qed.

(** [maintenance] keeps a suffix *)
Theorem maintenance_suffix : forall h W, exists pre, h = pre ++ maintenance h W.
Proof.
  intros h W. destruct (maintenance_shape h W) as [E|(pre & x & post & E & M & _)].
  - exists []. rewrite E. reflexivity.
  - exists pre. rewrite M. exact E.
Qed.

(** ... which is never empty (the newest superversion always survives) *)
Theorem maintenance_nonempty : forall h W, h <> [] -> maintenance h W <> [].
Proof.
  intros h W H. destruct (maintenance_shape h W) as [E|(pre & x & post & _ & M & _)].
  - rewrite E. exact H.
  - rewrite M. discriminate.
Qed.

Theorem maintenance_latest : forall h W, latest (maintenance h W) = latest h.
Proof.
  intros h W. destruct h as [|a h']; [unfold maintenance; destruct (W =? 0); reflexivity|].
  destruct (maintenance_suffix (a :: h') W) as [pre E].
  rewrite E at 2. symmetry. apply latest_app_nonempty.
  apply maintenance_nonempty. discriminate.
Qed.

(** every survivor except possibly the first is at or above the watermark (no order
    assumption needed): the first survivor is the superversion a reader at [W] needs *)
Theorem maintenance_tail_ge : forall h W sv,
  In sv (tl (maintenance h W)) -> W <= sv_seq sv.
Proof.
  intros h W sv. unfold maintenance.
  destruct (W =? 0) eqn:Z; [apply N.eqb_eq in Z; lia|].
  destruct (Nat.ltb (length h - 1) 1) eqn:L.
  - apply PeanoNat.Nat.ltb_lt in L. destruct h as [|a [|b h']]; cbn [tl length] in *;
      try contradiction. lia.
  - destruct (rposition (fun sv => sv_seq sv <? W) h) as [hi|] eqn:R.
    + destruct (rposition_spec _ _ _ R) as (pre & x & post & E & Lp & Fx & Fp).
      subst h hi. rewrite skipn_app_exact. cbn [tl]. intros Hy.
      apply N.ltb_ge. apply Fp. exact Hy.
    + intros Hy. apply N.ltb_ge. apply (rposition_none _ _ R).
      destruct h; [contradiction|]. right. exact Hy.
Qed.

Lemma StronglySorted_app_inv {A} (R : A -> A -> Prop) a b :
  StronglySorted R (a ++ b) ->
  StronglySorted R a /\ StronglySorted R b /\ forall x y, In x a -> In y b -> R x y.
Proof.
  induction a as [|z a IH]; cbn [app]; intros H.
  - repeat split; [constructor|exact H|intros x y []].
  - inversion H as [|? ? HS HF]; subst. destruct (IH HS) as (Sa & Sb & Hab).
    rewrite Forall_forall in HF. repeat split.
    + constructor; [exact Sa|]. rewrite Forall_forall. intros y Hy. apply HF.
      apply in_or_app. left; exact Hy.
    + exact Sb.
    + intros x y [<-|Hx] Hy; [|auto]. apply HF. apply in_or_app. right; exact Hy.
Qed.

(** when the seqnos ascend along the history, every removed entry is strictly below the
    watermark *)
Theorem maintenance_removed_lt : forall h W pre,
  StronglySorted N.le (map sv_seq h) -> h = pre ++ maintenance h W -> maintenance h W <> h ->
  forall sv, In sv pre -> sv_seq sv < W.
Proof.
  intros h W pre HS E NE sv Hsv.
  destruct (maintenance_shape h W) as [E'|(pre' & x & post & Eh & M & Hx & _)]; [contradiction|].
  rewrite M in E. rewrite E, map_app in HS.
  destruct (StronglySorted_app_inv _ _ _ HS) as (_ & _ & Hab).
  assert (sv_seq sv <= sv_seq x).
  { apply Hab; [apply in_map; exact Hsv|]. cbn [map]. left; reflexivity. }
  lia.
Qed.

Lemma find_app {A} (p : A -> bool) a b :
  find p (a ++ b) = match find p a with Some x => Some x | None => find p b end.
Proof.
  induction a as [|x a IH]; [reflexivity|]. cbn [app find]. destruct (p x); [reflexivity|exact IH].
Qed.

(** the superversion a snapshot at or above the watermark resolves to survives, and the
    snapshot keeps resolving to it *)
Theorem maintenance_keeps : forall h W S sv,
  W <= S -> S <> 0 -> vfs h S = Some sv -> vfs (maintenance h W) S = Some sv.
Proof.
  intros h W S sv HW HS E.
  destruct (maintenance_shape h W) as [->|(pre & x & post & Eh & M & Hx & _)]; [exact E|].
  rewrite M. rewrite vfs_pos in * by exact HS. rewrite Eh in E.
  change (pre ++ x :: post) with (pre ++ (x :: post)) in E.
  rewrite rev_app_distr, find_app in E.
  destruct (find (fun sv0 => sv_seq sv0 <? S) (rev (x :: post))) as [r|] eqn:F; [exact E|].
  exfalso. eapply find_none in F; [|apply in_rev; rewrite rev_involutive; left; reflexivity].
  cbn beta in F. apply N.ltb_ge in F. lia.
Qed.

(** [S = 0] admits only the watermark 0, under which nothing is removed *)
Lemma maintenance_zero h : maintenance h 0 = h.
Proof. reflexivity. Qed.

Corollary maintenance_keeps_any : forall h W S sv,
  W <= S -> vfs h S = Some sv -> vfs (maintenance h W) S = Some sv.
Proof.
  intros h W S sv HW E. destruct (N.eq_dec S 0) as [->|HS].
  - assert (W = 0) by lia. subst W. exact E.
  - apply maintenance_keeps; assumption.
Qed.

Lemma maintenance_In h W sv : In sv (maintenance h W) -> In sv h.
Proof.
  destruct (maintenance_suffix h W) as [pre E]. intros H. rewrite E.
  apply in_or_app. right; exact H.
Qed.

(** ** 2.5 the crate's unit tests (src/version/super_version.rs: mod tests);
    [free_list_len = len - 1] *)
Module GcTests.
  Definition v0 : version := mkV 0 [[]; []; []; []; []; []; []].
  Definition sv (s : N) : superversion := mkSV s (mkM 0 []) [] v0.
  Definition free_list_len (h : history) : nat := length h - 1.

  Example super_version_gc_above_watermark :
    free_list_len (maintenance [sv 0; sv 1; sv 2] 0) = 2%nat.
  Proof. vm_compute. reflexivity. Qed.

  Example super_version_gc_below_watermark_simple :
    length (maintenance [sv 0; sv 1; sv 2] 3) = 1%nat.
  Proof. vm_compute. reflexivity. Qed.

  Example super_version_gc_below_watermark_simple_2 :
    length (maintenance [sv 0; sv 1; sv 2; sv 8] 3) = 2%nat /\
    maintenance [sv 0; sv 1; sv 2; sv 8] 3 = [sv 2; sv 8].
  Proof. vm_compute. split; reflexivity. Qed.

  Example super_version_gc_below_watermark_keep :
    length (maintenance [sv 0; sv 8] 3) = 2%nat.
  Proof. vm_compute. reflexivity. Qed.

  Example super_version_gc_below_watermark_shadowed :
    length (maintenance [sv 0; sv 2] 3) = 1%nat /\ maintenance [sv 0; sv 2] 3 = [sv 2].
  Proof. vm_compute. split; reflexivity. Qed.

  (* [maintenance_keeps] on the third test: a snapshot at 3 or 5 still resolves to seqno 2 *)
  Example keeps_instance :
    vfs [sv 0; sv 1; sv 2; sv 8] 5 = Some (sv 2) /\
    vfs (maintenance [sv 0; sv 1; sv 2; sv 8] 3) 5 = Some (sv 2) /\
    vfs (maintenance [sv 0; sv 1; sv 2; sv 8] 3) 3 = Some (sv 2).
  Proof. vm_compute. repeat split; reflexivity. Qed.
  (* [vfs_after_append]: a new superversion with seqno 8 changes nothing for S = 5, nor
     for S = 0 (which resolves to the oldest entry) *)
  Example after_append_instance :
    vfs ([sv 0; sv 2] ++ [sv 8]) 5 = Some (sv 2) /\ vfs [sv 0; sv 2] 5 = Some (sv 2) /\
    vfs ([sv 0; sv 2] ++ [sv 8]) 0 = Some (sv 0) /\ vfs [sv 0; sv 2] 0 = Some (sv 0).
  Proof. vm_compute. repeat split; reflexivity. Qed.

  (* [newest_ignores_newer] / [newest_insert_newer]: a reader at 5 does not see seqno 7 *)
  Example ignores_newer_instance :
    let l := [mkE [1] 3 Value [1]; mkE [2] 4 Value [2]] in
    newest [1] 5 (l ++ [mkE [1] 7 Tomb []]) = Some (mkE [1] 3 Value [1]) /\
    mt_insert (mkE [1] 7 Tomb []) l = mkE [1] 7 Tomb [] :: l /\
    newest [1] 5 (mt_insert (mkE [1] 7 Tomb []) l) = Some (mkE [1] 3 Value [1]).
  Proof. vm_compute. repeat split; reflexivity. Qed.
End GcTests.

(** * 3. One step of the machine tracks the resolved superversion *)

(** the memtable part of [content], in lookup order *)
Definition mem_entries (sv : superversion) : list entry :=
  ments (active sv) ++ concat (map ments (rev (sealed sv))).

Lemma content_split sv :
  content sv = mem_entries sv ++ concat (map ents (all_tables (ver sv))).
Proof.
  unfold content, containers, mem_entries. cbn [concat].
  rewrite concat_app, app_assoc. reflexivity.
Qed.

(** [sv'] is [sv] as far as a reader at [S] can tell: same seqno, same version (tables),
    and the memtables hold, below [S], exactly the same entries in the same lookup order *)
Definition stable_rel (S : N) (sv sv' : superversion) : Prop :=
  sv_seq sv' = sv_seq sv /\ ver sv' = ver sv /\
  below S (mem_entries sv') = below S (mem_entries sv).

Lemma stable_rel_refl S a : stable_rel S a a.
Proof. repeat split. Qed.

Lemma stable_rel_trans S a b c : stable_rel S a b -> stable_rel S b c -> stable_rel S a c.
Proof. intros (A1 & A2 & A3) (B1 & B2 & B3). repeat split; congruence. Qed.

Lemma stable_rel_seq S a b : stable_rel S a b -> sv_seq b = sv_seq a.
Proof. intros H. apply H. Qed.

Lemma mem_insert_mid m e x : mid (mem_insert m e x) = mid x.
Proof. unfold mem_insert. destruct (mid x =? m); reflexivity. Qed.

Lemma mem_insert_below S m e x :
  S <= seq e -> below S (ments (mem_insert m e x)) = below S (ments x).
Proof.
  intros H. unfold mem_insert. destruct (mid x =? m); [|reflexivity].
  cbn [ments]. apply below_mt_insert. exact H.
Qed.

Lemma mem_entries_write m e sv :
  mem_entries (sv_write m e sv) =
  ments (mem_insert m e (active sv)) ++
  concat (map (fun x => ments (mem_insert m e x)) (rev (sealed sv))).
Proof.
  unfold mem_entries, sv_write. cbn [active sealed].
  rewrite <- map_rev, map_map. reflexivity.
Qed.

(** a write at or above [S] into any memtable of [sv] *)
Lemma stable_rel_write S m e sv : S <= seq e -> stable_rel S sv (sv_write m e sv).
Proof.
  intros H. repeat split.
  rewrite mem_entries_write. unfold mem_entries.
  rewrite !below_app, !below_concat, !map_map, (mem_insert_below S m e _ H).
  f_equal. f_equal. apply map_ext. intros x. apply mem_insert_below. exact H.
Qed.

Lemma mem_entries_rotate nm sv : mem_entries (sv_rotate nm sv) = mem_entries sv.
Proof.
  unfold mem_entries, sv_rotate. cbn [active sealed ments app].
  rewrite rev_app_distr. reflexivity.
Qed.

(** a rotation moves the active memtable to the front of the sealed ones: the memtable
    content, in lookup order, is literally the same list *)
Lemma stable_rel_rotate S nm sv : stable_rel S sv (sv_rotate nm sv).
Proof. repeat split. rewrite mem_entries_rotate. reflexivity. Qed.

Lemma ctr_mono st op : ctr st <= ctr (hstep st op).
Proof.
  unfold hstep. destruct (latest (hist st)); [|lia].
  destruct op; cbn [ctr]; try lia. destruct (ments (active s)); cbn [ctr]; lia.
Qed.

Lemma ctr_mono_run ops : forall st, ctr st <= ctr (hrun st ops).
Proof.
  induction ops as [|op ops IH]; intros st; cbn [hrun fold_left]; [lia|].
  specialize (IH (hstep st op)). unfold hrun in IH. pose proof (ctr_mono st op). lia.
Qed.

Section Track.
  Variables (S : N) (R : superversion -> superversion -> Prop).
  Hypothesis R_refl : forall a, R a a.
  Hypothesis R_seq : forall a b, R a b -> sv_seq b = sv_seq a.
  Hypothesis R_rot : forall nm a, R a (sv_rotate nm a).

  Lemma step_tracks st op sv :
    S <= ctr st -> vfs (hist st) S = Some sv -> op_ok S op = true ->
    (forall e m x, op = HWrite e -> In x (hist st) -> R x (sv_write m e x)) ->
    exists sv', vfs (hist (hstep st op)) S = Some sv' /\ R sv sv'.
  Proof.
    intros Hc E Hok Hw. unfold hstep.
    destruct (latest (hist st)) as [l|] eqn:L; [|exists sv; auto].
    destruct op as [e|nm|f|W]; cbn [hist].
    - eapply vfs_Forall2; [exact R_seq| |exact E].
      apply Forall2_map_In. intros x Hx. eapply Hw; eauto.
    - destruct (ments (active l)); [exists sv; auto|]. cbn [hist].
      eapply vfs_Forall2; [exact R_seq| |exact E].
      rewrite (latest_inv _ _ L) at 1.
      apply Forall2_snoc; [apply Forall2_refl_In; auto|apply R_rot].
    - exists sv. split; [|apply R_refl].
      apply vfs_after_append_some; [cbn [sv_with_seq sv_seq]; exact Hc|exact E].
    - exists sv. split; [|apply R_refl].
      apply maintenance_keeps_any; [apply N.leb_le; exact Hok|exact E].
  Qed.
End Track.

(** the general form: ANY snapshot value [S] not above the counter that currently
    resolves (not only one just read from [visible_seqno]) keeps resolving, to a
    superversion that looks the same below [S] *)
Theorem snapshot_stable_gen : forall ops st0 S sv0,
  S <= ctr st0 -> vfs (hist st0) S = Some sv0 -> forallb (op_ok S) ops = true ->
  exists sv', vfs (hist (hrun st0 ops)) S = Some sv' /\ stable_rel S sv0 sv'.
Proof.
  induction ops as [|op ops IH]; intros st0 S sv0 Hc E Hok.
  - exists sv0. split; [exact E|apply stable_rel_refl].
  - cbn [forallb] in Hok. apply andb_true_iff in Hok. destruct Hok as [Hop Hops].
    destruct (step_tracks S (stable_rel S) (stable_rel_refl S) (stable_rel_seq S)
                (stable_rel_rotate S) st0 op sv0 Hc E Hop) as (sv1 & E1 & R1).
    { intros e m x -> _. apply stable_rel_write. apply N.leb_le. exact Hop. }
    destruct (IH (hstep st0 op) S sv1) as (sv' & E' & R'); [|exact E1|exact Hops|].
    { pose proof (ctr_mono st0 op). lia. }
    exists sv'. split; [exact E'|]. eapply stable_rel_trans; eauto.
Qed.

(** the protocol of seqno.rs implies the state-independent condition *)
Lemma protocol_ok_weak S : forall ops st,
  S <= ctr st -> protocol_ok S st ops = true -> forallb (op_ok S) ops = true.
Proof.
  induction ops as [|op ops IH]; intros st Hc H; [reflexivity|].
  cbn [protocol_ok forallb] in *. apply andb_true_iff in H. destruct H as [H1 H2].
  apply andb_true_iff. split.
  - destruct op as [e| | |W]; cbn [hop_ok op_ok] in *; auto.
    apply N.eqb_eq in H1. apply N.leb_le. lia.
  - apply (IH (hstep st op)); [|exact H2]. pose proof (ctr_mono st op). lia.
Qed.

(** what stability of the resolved superversion gives the reader *)
Lemma stable_rel_below_content S sv sv' :
  stable_rel S sv sv' -> below S (content sv') = below S (content sv).
Proof.
  intros (_ & Hv & Hm). rewrite !content_split, !below_app, Hm, Hv. reflexivity.
Qed.

Lemma stable_rel_looks_below {A} S (F : list entry -> A) sv sv' :
  looks_below S F -> stable_rel S sv sv' -> F (content sv') = F (content sv).
Proof.
  intros HF HR. rewrite (HF (content sv')), (HF (content sv)).
  rewrite (stable_rel_below_content _ _ _ HR). reflexivity.
Qed.

Lemma stable_rel_newest S sv sv' k :
  stable_rel S sv sv' -> newest k S (content sv') = newest k S (content sv).
Proof. apply (stable_rel_looks_below S (newest k S)). apply newest_looks_below. Qed.

Lemma filter_sound_ver flt sv sv' : ver sv' = ver sv -> filter_sound flt sv -> filter_sound flt sv'.
Proof. unfold filter_sound. intros ->. auto. Qed.

Lemma stable_rel_reads flt S sv sv' k :
  stable_rel S sv sv' -> check_inv_sv sv = true -> check_inv_sv sv' = true ->
  filter_sound flt sv ->
  sv_get_raw flt sv' k S = sv_get_raw flt sv k S /\ sv_get flt sv' k S = sv_get flt sv k S.
Proof.
  intros HR I I' Hf.
  assert (Hf' : filter_sound flt sv') by (eapply filter_sound_ver; [apply HR|exact Hf]).
  assert (E : sv_get_raw flt sv' k S = sv_get_raw flt sv k S).
  { rewrite (sv_get_raw_sound flt sv' I' Hf'), (sv_get_raw_sound flt sv I Hf).
    apply stable_rel_newest. exact HR. }
  split; [exact E|]. unfold sv_get. rewrite E. reflexivity.
Qed.

(** * 4. The history invariant *)

Record hinv (st : hstate) : Prop := mk_hinv {
  hi_sorted : StronglySorted N.le (map sv_seq (hist st));
  hi_seq_le : forall sv, In sv (hist st) -> sv_seq sv <= ctr st;
  hi_vis : vis st <= ctr st;
  hi_ents : forall sv m e, In sv (hist st) -> In m (all_mts sv) -> In e (ments m) ->
                           seq e < ctr st;
  hi_latest : exists l, latest (hist st) = Some l /\
                        (sv_seq l < vis st \/ (vis st = 0 /\ length (hist st) = 1%nat))
}.

Lemma sorted_le_b_sound l : sorted_le_b l = true -> StronglySorted N.le l.
Proof.
  induction l as [|x l IH]; intros H; [constructor|].
  destruct l as [|y l'].
  - constructor; constructor.
  - cbn [sorted_le_b] in H. apply andb_true_iff in H. destruct H as [H1 H2].
    apply N.leb_le in H1. specialize (IH H2). constructor; [exact IH|].
    inversion IH as [|? ? _ HF]; subst. constructor; [exact H1|].
    eapply Forall_impl; [|exact HF]. cbn beta. intros; lia.
Qed.

Lemma sorted_lt_b_sound l : sorted_lt_b l = true -> StronglySorted N.lt l.
Proof.
  induction l as [|x l IH]; intros H; [constructor|].
  destruct l as [|y l'].
  - constructor; constructor.
  - cbn [sorted_lt_b] in H. apply andb_true_iff in H. destruct H as [H1 H2].
    apply N.ltb_lt in H1. specialize (IH H2). constructor; [exact IH|].
    inversion IH as [|? ? _ HF]; subst. constructor; [exact H1|].
    eapply Forall_impl; [|exact HF]. cbn beta. intros; lia.
Qed.

Lemma seqs_below_spec c sv :
  seqs_below c sv = true <-> forall m e, In m (all_mts sv) -> In e (ments m) -> seq e < c.
Proof.
  unfold seqs_below. rewrite forallb_forall. split.
  - intros H m e Hm He. specialize (H m Hm). rewrite forallb_forall in H.
    apply N.ltb_lt. apply H. exact He.
  - intros H m Hm. rewrite forallb_forall. intros e He. apply N.ltb_lt. eauto.
Qed.

Theorem check_hinv_sound : forall st, check_hinv st = true -> hinv st.
Proof.
  intros st H. unfold check_hinv in H. rewrite !andb_true_iff in H.
  destruct H as [[[[H1 H2] H3] H4] H5].
  rewrite forallb_forall in H2, H4. constructor.
  - apply sorted_le_b_sound. exact H1.
  - intros sv Hsv. apply N.leb_le. apply H2. exact Hsv.
  - apply N.leb_le. exact H3.
  - intros sv m e Hsv Hm He. specialize (H4 sv Hsv). rewrite seqs_below_spec in H4. eauto.
  - destruct (latest (hist st)) as [l|]; [|discriminate]. exists l. split; [reflexivity|].
    apply orb_true_iff in H5. destruct H5 as [H5|H5].
    + left. apply N.ltb_lt. exact H5.
    + right. apply andb_true_iff in H5. destruct H5 as [Hv Hl].
      apply N.eqb_eq in Hv. apply PeanoNat.Nat.eqb_eq in Hl. auto.
Qed.

Lemma hinv_nonempty st : hinv st -> hist st <> [].
Proof.
  intros [_ _ _ _ (l & L & _)] E. rewrite E in L. discriminate.
Qed.

(** at the moment a snapshot is taken (by reading [visible_seqno]) it resolves to the
    newest superversion -- including in the initial state, where [vis = 0] resolves to
    the OLDEST entry of a one-element history *)
Theorem snapshot_resolves_to_latest : forall st,
  hinv st -> vfs (hist st) (vis st) = latest (hist st) /\ latest (hist st) <> None.
Proof.
  intros st [_ _ _ _ (l & L & [Hlt|[Hz Hlen]])]; (split; [|congruence]).
  - rewrite vfs_pos by lia. unfold latest in *.
    destruct (rev (hist st)) as [|x t]; [discriminate|]. cbn [hd_error find] in *.
    inversion L; subst x. apply N.ltb_lt in Hlt. rewrite Hlt. reflexivity.
  - rewrite Hz, vfs_zero. unfold latest.
    destruct (hist st) as [|a [|b h]]; try discriminate. reflexivity.
Qed.

Lemma StronglySorted_snoc {A} (R : A -> A -> Prop) l x :
  StronglySorted R l -> (forall y, In y l -> R y x) -> StronglySorted R (l ++ [x]).
Proof.
  induction 1 as [|a l HS IH HF]; intros H; cbn [app].
  - constructor; constructor.
  - constructor.
    + apply IH. intros y Hy. apply H. right; exact Hy.
    + rewrite Forall_forall in *. intros y Hy. apply in_app_or in Hy.
      destruct Hy as [Hy|[<-|[]]]; [auto|]. apply H. left; reflexivity.
Qed.

Lemma In_mt_insert e l x : In x (mt_insert e l) -> x = e \/ In x l.
Proof.
  induction l as [|y l IH]; cbn [mt_insert].
  - intros [<-|[]]. left; reflexivity.
  - destruct (ikey_ltb e y).
    + intros [<-|H]; [left; reflexivity|right; exact H].
    + destruct (ikey_ltb y e).
      * intros [<-|H]; [right; left; reflexivity|]. destruct (IH H); [left|right; right]; assumption.
      * intros [<-|H]; [left; reflexivity|right; right; exact H].
Qed.

Lemma In_mem_insert m e mm x : In x (ments (mem_insert m e mm)) -> x = e \/ In x (ments mm).
Proof.
  unfold mem_insert. destruct (mid mm =? m); [|auto]. cbn [ments]. apply In_mt_insert.
Qed.

Lemma all_mts_write m e sv : all_mts (sv_write m e sv) = map (mem_insert m e) (all_mts sv).
Proof. reflexivity. Qed.

Lemma map_sv_seq_write m e h : map sv_seq (map (sv_write m e) h) = map sv_seq h.
Proof. rewrite map_map. apply map_ext. reflexivity. Qed.

(** the structural obligation on an upgrade closure that [hinv] needs: the memtables of
    the superversion it builds hold no seqno the counter has not handed out *)
Definition upg_seqs_ok (st : hstate) (op : hop) : Prop :=
  match op with
  | HUpgrade f => forall l, latest (hist st) = Some l -> seqs_below (ctr st + 1) (f l) = true
  | _ => True
  end.

Lemma hop_wf_upg_seqs st op : hop_wf st op = true -> upg_seqs_ok st op.
Proof.
  unfold hop_wf, upg_seqs_ok. destruct (latest (hist st)) as [l|]; [|discriminate].
  destruct op as [e|nm|f|W]; auto. intros H l' E. inversion E; subst l'.
  rewrite !andb_true_iff in H. apply H.
Qed.

Theorem hinv_step : forall st op,
  hinv st -> (forall e, op = HWrite e -> seq e = ctr st) -> upg_seqs_ok st op ->
  hinv (hstep st op).
Proof.
  intros st op I Hw Hu. pose proof I as [Is Il Iv Ie (l & L & Ilat)].
  unfold hstep. rewrite L. destruct op as [e|nm|f|W].
  - (* write *)
    specialize (Hw e eq_refl). constructor; cbn [hist ctr vis].
    + rewrite map_sv_seq_write. exact Is.
    + intros sv Hsv. apply in_map_iff in Hsv. destruct Hsv as (x & <- & Hx).
      cbn [sv_write sv_seq]. specialize (Il x Hx). lia.
    + lia.
    + intros sv m x Hsv Hm Hx. apply in_map_iff in Hsv. destruct Hsv as (y & <- & Hy).
      rewrite all_mts_write in Hm. apply in_map_iff in Hm. destruct Hm as (m0 & <- & Hm0).
      apply In_mem_insert in Hx. destruct Hx as [->|Hx]; [lia|].
      specialize (Ie y m0 x Hy Hm0 Hx). lia.
    + exists (sv_write (mid (active l)) e l). split; [rewrite latest_map, L; reflexivity|].
      left. cbn [sv_write sv_seq]. specialize (Il l (latest_In _ _ L)). lia.
  - (* rotate *)
    destruct (ments (active l)) eqn:Ea; [exact I|].
    pose proof (latest_inv _ _ L) as Eh. set (p := removelast (hist st)) in *.
    constructor; cbn [hist ctr vis].
    + rewrite map_app. cbn [map sv_rotate sv_seq].
      change [sv_seq l] with (map sv_seq [l]). rewrite <- map_app, <- Eh. exact Is.
    + intros sv Hsv. apply in_app_or in Hsv. destruct Hsv as [Hsv|[<-|[]]].
      * apply Il. rewrite Eh. apply in_or_app. left; exact Hsv.
      * cbn [sv_rotate sv_seq]. apply Il. apply latest_In. exact L.
    + exact Iv.
    + intros sv m x Hsv Hm Hx. apply in_app_or in Hsv. destruct Hsv as [Hsv|[<-|[]]].
      * apply (Ie sv m x); auto. rewrite Eh. apply in_or_app. left; exact Hsv.
      * unfold all_mts in Hm. cbn [sv_rotate active sealed] in Hm.
        destruct Hm as [<-|Hm]; [destruct Hx|].
        apply (Ie l m x); [apply latest_In; exact L| |exact Hx].
        apply in_app_or in Hm. destruct Hm as [Hm|[<-|[]]]; [right; exact Hm|left; reflexivity].
    + exists (sv_rotate nm l). split; [apply latest_snoc|].
      destruct Ilat as [H|[Hz Hlen]]; [left; exact H|right]. split; [exact Hz|].
      rewrite Eh in Hlen. rewrite app_length in *. exact Hlen.
  - (* upgrade *)
    specialize (Hu l L). rewrite seqs_below_spec in Hu.
    constructor; cbn [hist ctr vis].
    + rewrite map_app. cbn [map sv_with_seq sv_seq]. apply StronglySorted_snoc; [exact Is|].
      intros y Hy. apply in_map_iff in Hy. destruct Hy as (x & <- & Hx). apply Il. exact Hx.
    + intros sv Hsv. apply in_app_or in Hsv. destruct Hsv as [Hsv|[<-|[]]].
      * specialize (Il sv Hsv). lia.
      * cbn [sv_with_seq sv_seq]. lia.
    + lia.
    + intros sv m x Hsv Hm Hx. apply in_app_or in Hsv. destruct Hsv as [Hsv|[<-|[]]].
      * specialize (Ie sv m x Hsv Hm Hx). lia.
      * apply (Hu m x); [exact Hm|exact Hx].
    + exists (sv_with_seq (ctr st) (f l)). split; [apply latest_snoc|].
      left. cbn [sv_with_seq sv_seq]. lia.
  - (* maintenance *)
    destruct (maintenance_suffix (hist st) W) as [pre E].
    constructor; cbn [hist ctr vis].
    + rewrite E, map_app in Is. apply (StronglySorted_app_inv _ _ _ Is).
    + intros sv Hsv. apply Il. eapply maintenance_In; eauto.
    + exact Iv.
    + intros sv m x Hsv. apply Ie. eapply maintenance_In; eauto.
    + exists l. split; [rewrite maintenance_latest; exact L|].
      destruct Ilat as [H|[Hz Hlen]]; [left; exact H|right]. split; [exact Hz|].
      unfold maintenance. destruct (W =? 0); [exact Hlen|]. rewrite Hlen.
      change (Nat.ltb (1 - 1) 1) with true. cbn iota. exact Hlen.
Qed.

Lemma hinv_run S : forall ops st,
  hinv st -> protocol_ok S st ops = true -> run_wf st ops = true -> hinv (hrun st ops).
Proof.
  induction ops as [|op ops IH]; intros st I P Wf; [exact I|].
  cbn [protocol_ok run_wf hrun fold_left] in *.
  apply andb_true_iff in P. destruct P as [P1 P2].
  apply andb_true_iff in Wf. destruct Wf as [W1 W2].
  apply IH; [|exact P2|exact W2].
  apply hinv_step; [exact I| |apply hop_wf_upg_seqs; exact W1].
  intros e ->. cbn [hop_ok] in P1. apply N.eqb_eq. exact P1.
Qed.

(** SuperVersions::new with fresh counters satisfies the invariant *)
Lemma hinv_init v : hinv (hinit v).
Proof. apply check_hinv_sound. reflexivity. Qed.

(** * 5. Main theorems *)

(** A snapshot [S] is taken in state [st0] by reading [visible_seqno]; whatever protocol-
    obeying operations follow, [S] resolves to a superversion [sv'] that has the seqno and
    the version (all tables) of the superversion [sv0] that was the newest when the
    snapshot was taken, and whose memtables hold below [S] exactly what [sv0]'s held.
    Hence every read at [S] answers the same. *)
Theorem snapshot_stable : forall st0 ops S,
  hinv st0 -> S = vis st0 -> protocol_ok S st0 ops = true ->
  exists sv0 sv',
    latest (hist st0) = Some sv0 /\
    vfs (hist st0) S = Some sv0 /\
    vfs (hist (hrun st0 ops)) S = Some sv' /\
    sv_seq sv' = sv_seq sv0 /\ ver sv' = ver sv0 /\
    below S (mem_entries sv') = below S (mem_entries sv0) /\
    (forall k, newest k S (content sv') = newest k S (content sv0)) /\
    (forall k, spec_get (content sv') k S = spec_get (content sv0) k S) /\
    (forall A (F : list entry -> A), looks_below S F -> F (content sv') = F (content sv0)).
Proof.
  intros st0 ops S I -> P.
  destruct (snapshot_resolves_to_latest st0 I) as [E NE].
  destruct (latest (hist st0)) as [sv0|] eqn:L; [|congruence].
  pose proof (hi_vis _ I) as Hv.
  destruct (snapshot_stable_gen ops st0 (vis st0) sv0 Hv E) as (sv' & E' & HR).
  { eapply protocol_ok_weak; eauto. }
  exists sv0, sv'. pose proof HR as (R1 & R2 & R3).
  repeat split; auto.
  - intros k. apply stable_rel_newest. exact HR.
  - intros k. apply (stable_rel_looks_below (vis st0) (fun l => spec_get l k (vis st0))); [|exact HR].
    apply spec_get_looks_below.
  - intros A F HF. apply (stable_rel_looks_below (vis st0)); assumption.
Qed.

(** ... in terms of the crate's read path (point reads), by the soundness of the lookup
    (Proofs/Lookup.v) on both superversions *)
Corollary snapshot_reads_stable : forall flt st0 ops S sv0 sv',
  hinv st0 -> S = vis st0 -> protocol_ok S st0 ops = true ->
  latest (hist st0) = Some sv0 -> vfs (hist (hrun st0 ops)) S = Some sv' ->
  check_inv_sv sv0 = true -> check_inv_sv sv' = true -> filter_sound flt sv0 ->
  forall k, sv_get_raw flt sv' k S = sv_get_raw flt sv0 k S /\
            sv_get flt sv' k S = sv_get flt sv0 k S.
Proof.
  intros flt st0 ops S sv0 sv' I HS P L E' C0 C' Hf k.
  destruct (snapshot_stable st0 ops S I HS P)
    as (a & b & La & _ & Eb & R1 & R2 & R3 & _).
  rewrite L in La. inversion La; subst a. rewrite E' in Eb. inversion Eb; subst b.
  apply stable_rel_reads; auto. repeat split; assumption.
Qed.

(** the `expect("should always find a SuperVersion")` of get_version_for_snapshot never
    fires for a held snapshot *)
Theorem snapshot_never_panics : forall st0 ops S,
  hinv st0 -> S = vis st0 -> protocol_ok S st0 ops = true ->
  vfs (hist (hrun st0 ops)) S <> None.
Proof.
  intros st0 ops S I HS P.
  destruct (snapshot_stable st0 ops S I HS P) as (a & b & _ & _ & Eb & _).
  congruence.
Qed.

(** also in every intermediate state (a prefix of a protocol-obeying run obeys it) *)
Lemma protocol_ok_app S : forall ops1 ops2 st,
  protocol_ok S st (ops1 ++ ops2) = true -> protocol_ok S st ops1 = true.
Proof.
  induction ops1 as [|op ops1 IH]; intros ops2 st H; [reflexivity|].
  cbn [app protocol_ok] in *. apply andb_true_iff in H. destruct H as [H1 H2].
  rewrite H1. cbn [andb]. eapply IH; eauto.
Qed.

Corollary snapshot_never_panics_prefix : forall st0 ops1 ops2 S,
  hinv st0 -> S = vis st0 -> protocol_ok S st0 (ops1 ++ ops2) = true ->
  vfs (hist (hrun st0 ops1)) S <> None.
Proof.
  intros st0 ops1 ops2 S I HS P. eapply snapshot_never_panics; eauto.
  eapply protocol_ok_app; eauto.
Qed.

(** ** 5.1 The exact form: the memtables of the resolved superversion hold exactly the
    entries of the original ones plus entries with seqno [>= S] (nothing is replaced or
    lost).  This needs the freshness of write seqnos, hence [hinv] along the run. *)

Definition exact_rel (S : N) (sv sv' : superversion) : Prop :=
  sv_seq sv' = sv_seq sv /\ ver sv' = ver sv /\
  exists extra, Permutation (mem_entries sv') (mem_entries sv ++ extra) /\
                forall e, In e extra -> S <= seq e.

Lemma exact_rel_refl S a : exact_rel S a a.
Proof.
  repeat split. exists []. split; [rewrite app_nil_r; apply Permutation_refl|intros e []].
Qed.

Lemma exact_rel_seq S a b : exact_rel S a b -> sv_seq b = sv_seq a.
Proof. intros H. apply H. Qed.

Lemma exact_rel_trans S a b c : exact_rel S a b -> exact_rel S b c -> exact_rel S a c.
Proof.
  intros (A1 & A2 & x1 & P1 & H1) (B1 & B2 & x2 & P2 & H2).
  repeat split; try congruence. exists (x1 ++ x2). split.
  - eapply perm_trans; [exact P2|]. rewrite app_assoc. apply Permutation_app_tail. exact P1.
  - intros e He. apply in_app_or in He. destruct He; auto.
Qed.

Lemma exact_rel_rotate S nm a : exact_rel S a (sv_rotate nm a).
Proof.
  repeat split. exists []. rewrite mem_entries_rotate, app_nil_r.
  split; [apply Permutation_refl|intros e []].
Qed.

Lemma exact_rel_stable S a b :
  exact_rel S a b -> Permutation (below S (mem_entries b)) (below S (mem_entries a)).
Proof.
  intros (_ & _ & x & P & H). eapply perm_trans; [apply below_perm; exact P|].
  rewrite below_app, (below_none S x H), app_nil_r. apply Permutation_refl.
Qed.

(** insertion of an entry whose seqno is above everything in the memtable replaces nothing *)
Lemma mt_insert_perm e l :
  (forall x, In x l -> seq x < seq e) -> Permutation (mt_insert e l) (e :: l).
Proof.
  induction l as [|y l IH]; intros H; cbn [mt_insert]; [apply Permutation_refl|].
  destruct (ikey_ltb e y) eqn:C1; [apply Permutation_refl|].
  destruct (ikey_ltb y e) eqn:C2.
  - eapply perm_trans; [apply perm_skip; apply IH|apply perm_swap].
    intros x Hx. apply H. right; exact Hx.
  - exfalso. destruct (ikey_neither _ _ C1 C2) as [_ Es].
    specialize (H y (or_introl eq_refl)). lia.
Qed.

Lemma perm_app_extra {A} (a' a ea b' b eb : list A) :
  Permutation a' (a ++ ea) -> Permutation b' (b ++ eb) ->
  Permutation (a' ++ b') ((a ++ b) ++ (ea ++ eb)).
Proof.
  intros Pa Pb. eapply perm_trans; [apply Permutation_app; eassumption|].
  rewrite <- !app_assoc. apply Permutation_app_head.
  rewrite !app_assoc. apply Permutation_app_tail. apply Permutation_app_comm.
Qed.

Lemma mem_insert_perm m e x :
  (forall y, In y (ments x) -> seq y < seq e) ->
  exists ex, Permutation (ments (mem_insert m e x)) (ments x ++ ex) /\
             forall y, In y ex -> y = e.
Proof.
  intros H. unfold mem_insert. destruct (mid x =? m).
  - exists [e]. cbn [ments]. split; [|intros y [<-|[]]; reflexivity].
    eapply perm_trans; [apply mt_insert_perm; exact H|].
    change (e :: ments x) with ([e] ++ ments x). apply Permutation_app_comm.
  - exists []. rewrite app_nil_r. split; [apply Permutation_refl|intros y []].
Qed.

Lemma concat_mem_insert_perm m e ms :
  (forall x y, In x ms -> In y (ments x) -> seq y < seq e) ->
  exists ex, Permutation (concat (map (fun x => ments (mem_insert m e x)) ms))
                         (concat (map ments ms) ++ ex) /\
             forall y, In y ex -> y = e.
Proof.
  induction ms as [|x ms IH]; intros H.
  - exists []. split; [apply Permutation_refl|intros y []].
  - destruct (mem_insert_perm m e x) as (e1 & P1 & H1).
    { intros y Hy. apply (H x y); [left; reflexivity|exact Hy]. }
    destruct IH as (e2 & P2 & H2).
    { intros x' y Hx' Hy. apply (H x' y); [right; exact Hx'|exact Hy]. }
    exists (e1 ++ e2). cbn [map concat]. split.
    + apply perm_app_extra; assumption.
    + intros y Hy. apply in_app_or in Hy. destruct Hy; auto.
Qed.

Lemma exact_rel_write S m e sv :
  S <= seq e -> (forall x y, In x (all_mts sv) -> In y (ments x) -> seq y < seq e) ->
  exact_rel S sv (sv_write m e sv).
Proof.
  intros HS H. repeat split.
  destruct (mem_insert_perm m e (active sv)) as (e1 & P1 & H1).
  { intros y Hy. apply (H (active sv) y); [left; reflexivity|exact Hy]. }
  destruct (concat_mem_insert_perm m e (rev (sealed sv))) as (e2 & P2 & H2).
  { intros x y Hx Hy. apply (H x y); [right; apply in_rev; exact Hx|exact Hy]. }
  exists (e1 ++ e2). rewrite mem_entries_write. unfold mem_entries. split.
  - apply perm_app_extra; assumption.
  - intros y Hy. apply in_app_or in Hy. destruct Hy as [Hy|Hy];
      [rewrite (H1 y Hy)|rewrite (H2 y Hy)]; exact HS.
Qed.

Lemma snapshot_exact_gen S : forall ops st sv,
  hinv st -> S <= ctr st -> vfs (hist st) S = Some sv ->
  protocol_ok S st ops = true -> run_wf st ops = true ->
  exists sv', vfs (hist (hrun st ops)) S = Some sv' /\ exact_rel S sv sv'.
Proof.
  induction ops as [|op ops IH]; intros st sv I Hc E P Wf.
  - exists sv. split; [exact E|apply exact_rel_refl].
  - cbn [protocol_ok run_wf hrun fold_left] in *.
    apply andb_true_iff in P. destruct P as [P1 P2].
    apply andb_true_iff in Wf. destruct Wf as [W1 W2].
    assert (Hw : forall e, op = HWrite e -> seq e = ctr st).
    { intros e ->. cbn [hop_ok] in P1. apply N.eqb_eq. exact P1. }
    assert (Hop : op_ok S op = true).
    { destruct op as [e| | |W]; cbn [hop_ok op_ok] in *; auto.
      apply N.leb_le. rewrite (Hw e eq_refl). exact Hc. }
    destruct (step_tracks S (exact_rel S) (exact_rel_refl S) (exact_rel_seq S)
                (exact_rel_rotate S) st op sv Hc E Hop) as (sv1 & E1 & R1).
    { intros e m x Eo Hx. apply exact_rel_write.
      - rewrite (Hw e Eo). exact Hc.
      - intros mm y Hmm Hy. rewrite (Hw e Eo). eapply (hi_ents _ I); eauto. }
    destruct (IH (hstep st op) sv1) as (sv' & E' & R'); auto.
    + apply hinv_step; [exact I|exact Hw|apply hop_wf_upg_seqs; exact W1].
    + pose proof (ctr_mono st op). lia.
    + exists sv'. split; [exact E'|]. eapply exact_rel_trans; eauto.
Qed.

Theorem snapshot_stable_exact : forall st0 ops S,
  hinv st0 -> S = vis st0 -> protocol_ok S st0 ops = true -> run_wf st0 ops = true ->
  exists sv0 sv' extra,
    latest (hist st0) = Some sv0 /\
    vfs (hist (hrun st0 ops)) S = Some sv' /\
    sv_seq sv' = sv_seq sv0 /\ ver sv' = ver sv0 /\
    Permutation (mem_entries sv') (mem_entries sv0 ++ extra) /\
    (forall e, In e extra -> S <= seq e).
Proof.
  intros st0 ops S I -> P Wf.
  destruct (snapshot_resolves_to_latest st0 I) as [E NE].
  destruct (latest (hist st0)) as [sv0|] eqn:L; [|congruence].
  destruct (snapshot_exact_gen (vis st0) ops st0 sv0 I (hi_vis _ I) E P Wf)
    as (sv' & E' & R1 & R2 & extra & HP & HX).
  exists sv0, sv', extra. repeat split; auto.
Qed.

(** ** 5.2 The strict order of the seqnos *)

Definition hinv_strict (st : hstate) : Prop :=
  hinv st /\ StronglySorted N.lt (map sv_seq (hist st)) /\
  forall sv, In sv (hist st) -> sv_seq sv < ctr st.

Theorem check_hinv_strict_sound : forall st, check_hinv_strict st = true -> hinv_strict st.
Proof.
  intros st H. unfold check_hinv_strict in H. rewrite !andb_true_iff in H.
  destruct H as [[H1 H2] H3]. rewrite forallb_forall in H3. split; [|split].
  - apply check_hinv_sound. exact H1.
  - apply sorted_lt_b_sound. exact H2.
  - intros sv Hsv. apply N.ltb_lt. apply H3. exact Hsv.
Qed.

Theorem hinv_strict_step : forall st op,
  hinv_strict st -> (forall e, op = HWrite e -> seq e = ctr st) -> upg_seqs_ok st op ->
  hinv_strict (hstep st op).
Proof.
  intros st op (I & Ss & Sl) Hw Hu. split; [apply hinv_step; assumption|].
  destruct (hi_latest _ I) as (l & L & _).
  unfold hstep. rewrite L. destruct op as [e|nm|f|W]; cbn [hist ctr].
  - rewrite map_sv_seq_write. split; [exact Ss|].
    intros sv Hsv. apply in_map_iff in Hsv. destruct Hsv as (x & <- & Hx).
    cbn [sv_write sv_seq]. specialize (Sl x Hx). lia.
  - destruct (ments (active l)); [split; assumption|]. cbn [hist ctr].
    pose proof (latest_inv _ _ L) as Eh. set (p := removelast (hist st)) in *. split.
    + rewrite map_app. cbn [map sv_rotate sv_seq].
      change [sv_seq l] with (map sv_seq [l]). rewrite <- map_app, <- Eh. exact Ss.
    + intros sv Hsv. apply in_app_or in Hsv. destruct Hsv as [Hsv|[<-|[]]].
      * apply Sl. rewrite Eh. apply in_or_app. left; exact Hsv.
      * cbn [sv_rotate sv_seq]. apply Sl. apply latest_In. exact L.
  - split.
    + rewrite map_app. cbn [map sv_with_seq sv_seq]. apply StronglySorted_snoc; [exact Ss|].
      intros y Hy. apply in_map_iff in Hy. destruct Hy as (x & <- & Hx). apply Sl. exact Hx.
    + intros sv Hsv. apply in_app_or in Hsv. destruct Hsv as [Hsv|[<-|[]]].
      * specialize (Sl sv Hsv). lia.
      * cbn [sv_with_seq sv_seq]. lia.
  - destruct (maintenance_suffix (hist st) W) as [pre E]. split.
    + rewrite E, map_app in Ss. apply (StronglySorted_app_inv _ _ _ Ss).
    + intros sv Hsv. apply Sl. eapply maintenance_In; eauto.
Qed.

(** a fresh tree does NOT satisfy it: SuperVersions::new gives the first superversion the
    seqno 0 and the first upgrade_version draws 0 from the fresh counter again (a clear(),
    an ingestion or a drop_range before the first write) *)
Theorem strict_order_from_init_refuted :
  exists v op, let st := hstep (hinit v) op in
    hinv st /\ map sv_seq (hist st) = [0; 0] /\ ~ hinv_strict st.
Proof.
  exists (mkV 0 []), (HUpgrade (fun sv => sv)). cbn zeta. split; [|split].
  - apply check_hinv_sound. vm_compute. reflexivity.
  - vm_compute. reflexivity.
  - intros (_ & Ss & _). change (StronglySorted N.lt [0; 0]) in Ss.
    inversion Ss as [|? ? _ HF]; subst.
    inversion HF as [|? ? Hlt _]; subst. lia.
Qed.

(** ... it does as soon as the counter has handed out one seqno before the first upgrade *)
Lemma hinv_strict_after_first_write v e :
  seq e = 0 -> hinv_strict (hstep (hinit v) (HWrite e)).
Proof.
  intros He. split; [|split].
  - apply hinv_step; [apply hinv_init| |exact I]. intros e' E. inversion E; subst. exact He.
  - cbn. repeat constructor.
  - cbn. intros sv [<-|[]]. cbn. lia.
Qed.

(** * 6. The memtable-sharing invariant

    The model identifies a memtable object by its id.  That is faithful as long as (A) two
    references with the same id always show the same entries, and [HWrite] touches only
    active memtables as the crate does, i.e. (B) the memtable that receives the writes is
    not listed as sealed by any retained superversion.  Both are preserved when rotations
    draw unused ids and upgrade closures satisfy [hop_wf].  None of this is needed for
    snapshot stability itself (section 5): an id clash could only add entries at or above
    the snapshot. *)

Definition mids_inv (h : history) : Prop :=
  (forall m1 m2, In m1 (hist_mts h) -> In m2 (hist_mts h) -> mid m1 = mid m2 ->
                 ments m1 = ments m2) /\
  exists l, latest h = Some l /\
            forall sv m, In sv h -> In m (sealed sv) -> mid m <> mid (active l).

Lemma list_N_eqb_true a : forall b, list_N_eqb a b = true -> a = b.
Proof.
  induction a as [|x a IH]; intros [|y b] H; cbn [list_N_eqb] in H; try discriminate; [reflexivity|].
  apply andb_true_iff in H. destruct H as [H1 H2]. apply N.eqb_eq in H1.
  rewrite H1, (IH b H2). reflexivity.
Qed.

Lemma entry_eqb_true a b : entry_eqb a b = true -> a = b.
Proof.
  unfold entry_eqb. rewrite !andb_true_iff. intros [[[H1 H2] H3] H4].
  apply key_eqb_eq in H1. apply N.eqb_eq in H2. apply list_N_eqb_true in H4.
  destruct a as [ka sa ta va], b as [kb sb tb vb]. cbn [ukey seq ty val] in *. subst.
  destruct ta, tb; try discriminate; reflexivity.
Qed.

Lemma list_entry_eqb_true a : forall b, list_entry_eqb a b = true -> a = b.
Proof.
  induction a as [|x a IH]; intros [|y b] H; cbn [list_entry_eqb] in H; try discriminate; [reflexivity|].
  apply andb_true_iff in H. destruct H as [H1 H2]. apply entry_eqb_true in H1.
  rewrite H1, (IH b H2). reflexivity.
Qed.

Lemma mts_agree_sound l1 l2 : mts_agree l1 l2 = true ->
  forall m1 m2, In m1 l1 -> In m2 l2 -> mid m1 = mid m2 -> ments m1 = ments m2.
Proof.
  unfold mts_agree. rewrite forallb_forall. intros H m1 m2 H1 H2 E.
  specialize (H m1 H1). rewrite forallb_forall in H. specialize (H m2 H2).
  unfold mt_agree in H. apply orb_true_iff in H. destruct H as [H|H].
  - apply negb_true_iff, N.eqb_neq in H. contradiction.
  - apply list_entry_eqb_true. exact H.
Qed.

Lemma active_unsealed_sound a h : active_unsealed a h = true ->
  forall sv m, In sv h -> In m (sealed sv) -> mid m <> a.
Proof.
  unfold active_unsealed. rewrite forallb_forall. intros H sv m Hsv Hm.
  specialize (H sv Hsv). rewrite forallb_forall in H. specialize (H m Hm).
  apply negb_true_iff, N.eqb_neq in H. exact H.
Qed.

Theorem mids_ok_sound : forall h, mids_ok h = true -> mids_inv h.
Proof.
  intros h H. unfold mids_ok in H. apply andb_true_iff in H. destruct H as [H1 H2]. split.
  - apply mts_agree_sound. exact H1.
  - destruct (latest h) as [l|]; [|discriminate]. exists l. split; [reflexivity|].
    apply active_unsealed_sound. exact H2.
Qed.

Lemma hist_mts_app a b : hist_mts (a ++ b) = hist_mts a ++ hist_mts b.
Proof. unfold hist_mts. apply flat_map_app. Qed.

Lemma hist_mts_In h m : In m (hist_mts h) <-> exists sv, In sv h /\ In m (all_mts sv).
Proof. unfold hist_mts. apply in_flat_map. Qed.

Lemma hist_mts_write m e h : hist_mts (map (sv_write m e) h) = map (mem_insert m e) (hist_mts h).
Proof.
  induction h as [|sv h IH]; [reflexivity|].
  change (hist_mts (map (sv_write m e) (sv :: h)))
    with (all_mts (sv_write m e sv) ++ hist_mts (map (sv_write m e) h)).
  change (hist_mts (sv :: h)) with (all_mts sv ++ hist_mts h).
  rewrite IH, all_mts_write, map_app. reflexivity.
Qed.

Lemma mem_insert_agree m e a b :
  mid a = mid b -> ments a = ments b -> ments (mem_insert m e a) = ments (mem_insert m e b).
Proof.
  intros E1 E2. unfold mem_insert. rewrite E1. destruct (mid b =? m); cbn [ments]; congruence.
Qed.

Theorem mids_inv_step : forall st op,
  mids_inv (hist st) -> hop_wf st op = true -> mids_inv (hist (hstep st op)).
Proof.
  intros st op (HA & l & L & HB) Wf. unfold hop_wf in Wf. unfold hstep. rewrite L in *.
  destruct op as [e|nm|f|W]; cbn [hist].
  - (* write *)
    split.
    + rewrite hist_mts_write. intros m1 m2 H1 H2 E.
      apply in_map_iff in H1. destruct H1 as (a & <- & Ha).
      apply in_map_iff in H2. destruct H2 as (b & <- & Hb).
      rewrite !mem_insert_mid in E. apply mem_insert_agree; [exact E|]. apply HA; assumption.
    + exists (sv_write (mid (active l)) e l). split; [rewrite latest_map, L; reflexivity|].
      intros sv m Hsv Hm. apply in_map_iff in Hsv. destruct Hsv as (x & <- & Hx).
      cbn [sv_write sealed active] in *. apply in_map_iff in Hm. destruct Hm as (m0 & <- & Hm0).
      rewrite !mem_insert_mid. eapply HB; eauto.
  - (* rotate *)
    destruct (ments (active l)) eqn:Ea; [split; [exact HA|exists l; auto]|]. cbn [hist].
    pose proof (latest_inv _ _ L) as Eh. set (p := removelast (hist st)) in *.
    assert (Hfresh : forall m, In m (hist_mts (hist st)) -> mid m <> nm).
    { intros m Hm E. apply negb_true_iff in Wf.
      assert (X : existsb (fun m0 => mid m0 =? nm) (hist_mts (hist st)) = true).
      { apply existsb_exists. exists m. split; [exact Hm|apply N.eqb_eq; exact E]. }
      congruence. }
    assert (Hold : forall m, In m (hist_mts (p ++ [sv_rotate nm l])) ->
                             m = mkM nm [] \/ In m (hist_mts (hist st))).
    { intros m Hm. rewrite hist_mts_app in Hm. apply in_app_or in Hm. destruct Hm as [Hm|Hm].
      - right. rewrite Eh, hist_mts_app. apply in_or_app. left; exact Hm.
      - unfold hist_mts in Hm. cbn [flat_map] in Hm. rewrite app_nil_r in Hm.
        unfold all_mts in Hm. cbn [sv_rotate active sealed] in Hm.
        destruct Hm as [<-|Hm]; [left; reflexivity|right].
        apply hist_mts_In. exists l. split; [apply latest_In; exact L|].
        apply in_app_or in Hm. destruct Hm as [Hm|[<-|[]]]; [right; exact Hm|left; reflexivity]. }
    split.
    + intros m1 m2 H1 H2 E. destruct (Hold _ H1) as [->|O1], (Hold _ H2) as [->|O2].
      * reflexivity.
      * exfalso. apply (Hfresh m2 O2). cbn [mid] in E. congruence.
      * exfalso. apply (Hfresh m1 O1). cbn [mid] in E. congruence.
      * apply HA; assumption.
    + exists (sv_rotate nm l). split; [apply latest_snoc|].
      intros sv m Hsv Hm. cbn [sv_rotate active mid]. apply Hfresh.
      apply in_app_or in Hsv. destruct Hsv as [Hsv|[<-|[]]].
      * apply hist_mts_In. exists sv. split; [|right; exact Hm].
        rewrite Eh. apply in_or_app. left; exact Hsv.
      * apply hist_mts_In. exists l. split; [apply latest_In; exact L|].
        cbn [sv_rotate sealed] in Hm. apply in_app_or in Hm.
        destruct Hm as [Hm|[<-|[]]]; [right; exact Hm|left; reflexivity].
  - (* upgrade *)
    rewrite !andb_true_iff in Wf. destruct Wf as [[[W1 W2] W3] _].
    pose proof (mts_agree_sound _ _ W1) as A1. pose proof (mts_agree_sound _ _ W2) as A2.
    pose proof (active_unsealed_sound _ _ W3) as A3.
    assert (Hm : forall m, In m (hist_mts (hist st ++ [sv_with_seq (ctr st) (f l)])) ->
                           In m (hist_mts (hist st)) \/ In m (all_mts (f l))).
    { intros m Hm. rewrite hist_mts_app in Hm. apply in_app_or in Hm.
      destruct Hm as [Hm|Hm]; [left; exact Hm|right].
      unfold hist_mts in Hm. cbn [flat_map] in Hm. rewrite app_nil_r in Hm. exact Hm. }
    split.
    + intros m1 m2 H1 H2 E. destruct (Hm _ H1) as [O1|N1], (Hm _ H2) as [O2|N2].
      * apply HA; assumption.
      * symmetry. apply A2; auto.
      * apply A2; auto.
      * apply A1; auto.
    + exists (sv_with_seq (ctr st) (f l)). split; [apply latest_snoc|].
      intros sv m Hsv Hmm. cbn [sv_with_seq active].
      apply in_app_or in Hsv. destruct Hsv as [Hsv|[<-|[]]].
      * apply (A3 sv m); [apply in_or_app; left; exact Hsv|exact Hmm].
      * apply (A3 (f l) m); [apply in_or_app; right; left; reflexivity|exact Hmm].
  - (* maintenance *)
    destruct (maintenance_suffix (hist st) W) as [pre E]. split.
    + intros m1 m2 H1 H2. apply HA; rewrite E, hist_mts_app; apply in_or_app; right; assumption.
    + exists l. split; [rewrite maintenance_latest; exact L|].
      intros sv m Hsv. apply HB. eapply maintenance_In; eauto.
Qed.

(** under (B) a write touches only active memtables, exactly as Tree::append_entry *)
Lemma write_only_active h e l :
  mids_inv h -> latest h = Some l ->
  map (sv_write (mid (active l)) e) h =
  map (fun sv => mkSV (sv_seq sv) (mem_insert (mid (active l)) e (active sv)) (sealed sv) (ver sv)) h.
Proof.
  intros (_ & l' & L' & HB) L. rewrite L in L'. inversion L'; subst l'.
  apply map_ext_in. intros sv Hsv. unfold sv_write. f_equal.
  rewrite <- (map_id (sealed sv)) at 2. apply map_ext_in. intros m Hm.
  unfold mem_insert. specialize (HB sv m Hsv Hm). apply N.eqb_neq in HB. rewrite HB. reflexivity.
Qed.

Lemma mids_inv_init v : mids_inv (hist (hinit v)).
Proof. apply mids_ok_sound. reflexivity. Qed.

(** * 6.5 Range scans at the Spec level, and the invariants along a whole run *)

Lemma key_insert_In' k x l : In x (key_insert k l) <-> x = k \/ In x l.
Proof.
  induction l as [|y l IH]; cbn [key_insert].
  - cbn [In]. intuition.
  - destruct (key_cmp k y) eqn:C.
    + apply key_cmp_eq in C. subst y. cbn [In]. intuition.
    + cbn [In]. intuition.
    + cbn [In]. rewrite IH. intuition.
Qed.

Lemma key_insert_sorted k l :
  StronglySorted key_lt l -> StronglySorted key_lt (key_insert k l).
Proof.
  induction 1 as [|y l HS IH HF]; cbn [key_insert]; [repeat constructor|].
  rewrite Forall_forall in HF.
  destruct (key_cmp k y) eqn:C.
  - constructor; [exact HS|]. rewrite Forall_forall. exact HF.
  - constructor; [constructor; [exact HS|rewrite Forall_forall; exact HF]|].
    rewrite Forall_forall. intros x [<-|Hx]; [exact C|].
    eapply key_lt_trans; [exact C|auto].
  - constructor; [exact IH|]. rewrite Forall_forall. intros x Hx.
    apply key_insert_In' in Hx. destruct Hx as [->|Hx]; [|auto].
    apply key_lt_gt. exact C.
Qed.

Lemma keys_of_sorted' H : StronglySorted key_lt (keys_of H).
Proof.
  unfold keys_of. induction H as [|e H IH]; cbn [fold_right]; [constructor|].
  apply key_insert_sorted. exact IH.
Qed.

Lemma keys_of_In' k H : In k (keys_of H) <-> exists e, In e H /\ ukey e = k.
Proof.
  unfold keys_of. induction H as [|e H IH]; cbn [fold_right].
  - split; [intros []|intros (e & [] & _)].
  - rewrite key_insert_In', IH. split.
    + intros [->|(e' & HI & E)]; [exists e; split; [left|]; reflexivity|exists e'; split; [right|]; assumption].
    + intros (e' & [->|HI] & E); [left; symmetry; exact E|right; exists e'; auto].
Qed.

Lemma sorted_keys_ext l1 : forall l2,
  StronglySorted key_lt l1 -> StronglySorted key_lt l2 ->
  (forall k, In k l1 <-> In k l2) -> l1 = l2.
Proof.
  induction l1 as [|a l1 IH]; intros [|b l2] S1 S2 H.
  - reflexivity.
  - exfalso. apply (proj2 (H b)). left; reflexivity.
  - exfalso. apply (proj1 (H a)). left; reflexivity.
  - inversion S1 as [|? ? S1' F1]; subst. inversion S2 as [|? ? S2' F2]; subst.
    rewrite Forall_forall in F1, F2.
    assert (Eab : a = b).
    { destruct (proj1 (H a) (or_introl eq_refl)) as [E|Ha]; [symmetry; exact E|].
      destruct (proj2 (H b) (or_introl eq_refl)) as [E|Hb]; [exact E|].
      exfalso. apply (key_lt_irrefl a). eapply key_lt_trans; [apply F1; exact Hb|apply F2; exact Ha]. }
    subst b. f_equal. apply IH; [exact S1'|exact S2'|].
    intros k. split; intros Hk.
    + destruct (proj1 (H k) (or_intror Hk)) as [E|Hk']; [|exact Hk'].
      exfalso. subst k. apply (key_lt_irrefl a). apply F1. exact Hk.
    + destruct (proj2 (H k) (or_intror Hk)) as [E|Hk']; [|exact Hk'].
      exfalso. subst k. apply (key_lt_irrefl a). apply F2. exact Hk.
Qed.

Lemma StronglySorted_filter' {A} (R : A -> A -> Prop) p l :
  StronglySorted R l -> StronglySorted R (filter p l).
Proof.
  induction 1 as [|x l HS IH HF]; cbn [filter]; [constructor|].
  destruct (p x); [|exact IH]. constructor; [exact IH|].
  rewrite Forall_forall in *. intros y Hy. apply filter_In in Hy. apply HF. apply Hy.
Qed.

Lemma flat_map_filter_nil {A B} (g : A -> list B) (p : A -> bool) l :
  (forall x, In x l -> p x = false -> g x = []) -> flat_map g l = flat_map g (filter p l).
Proof.
  induction l as [|x l IH]; intros H; [reflexivity|]. cbn [flat_map filter].
  rewrite IH by (intros y Hy; apply H; right; exact Hy).
  destruct (p x) eqn:P; [reflexivity|]. rewrite (H x (or_introl eq_refl) P). reflexivity.
Qed.

(** the Spec's range scan only looks below the snapshot (keys whose every version is at
    or above [S] contribute nothing) *)
Theorem spec_range_looks_below : forall lo hi S, looks_below S (fun l => spec_range l lo hi S).
Proof.
  intros lo hi S H. unfold spec_range.
  set (p := fun k => existsb (key_eqb k) (keys_of (below S H))).
  assert (Hp : forall k, p k = true <-> In k (keys_of (below S H))).
  { intros k. unfold p. rewrite existsb_exists. split.
    - intros (x & Hx & E). key_prop. subst x. exact Hx.
    - intros Hk. exists k. split; [exact Hk|apply key_eqb_refl]. }
  assert (Ek : keys_of (below S H) = filter p (keys_of H)).
  { apply sorted_keys_ext.
    - apply keys_of_sorted'.
    - apply StronglySorted_filter'. apply keys_of_sorted'.
    - intros k. rewrite filter_In, Hp. split; [|tauto]. intros Hk. split; [|exact Hk].
      apply keys_of_In' in Hk. destruct Hk as (e & He & E). apply below_In in He.
      apply keys_of_In'. exists e. tauto. }
  rewrite (flat_map_filter_nil _ p).
  - rewrite <- Ek. apply flat_map_ext. intros k.
    rewrite (spec_get_looks_below k S H). reflexivity.
  - intros k _ Pk. destruct (in_bounds lo hi k); [|reflexivity].
    rewrite (spec_get_looks_below k S H). unfold spec_get.
    rewrite newest_none_key; [reflexivity|].
    intros e He E. assert (X : p k = true); [|congruence].
    apply Hp. apply keys_of_In'. exists e. auto.
Qed.

(** range scans of the Spec over the content of the resolved superversion are stable too *)
Corollary snapshot_spec_range_stable : forall st0 ops S sv0 sv',
  hinv st0 -> S = vis st0 -> protocol_ok S st0 ops = true ->
  latest (hist st0) = Some sv0 -> vfs (hist (hrun st0 ops)) S = Some sv' ->
  forall lo hi, spec_range (content sv') lo hi S = spec_range (content sv0) lo hi S.
Proof.
  intros st0 ops S sv0 sv' I HS P L E' lo hi.
  destruct (snapshot_stable st0 ops S I HS P) as (a & b & La & _ & Eb & _ & _ & _ & _ & _ & HF).
  rewrite L in La. inversion La; subst a. rewrite E' in Eb. inversion Eb; subst b.
  apply (HF _ (fun l => spec_range l lo hi S)). apply spec_range_looks_below.
Qed.

(** both invariants hold along every protocol-obeying, well-formed run from a fresh tree *)
Lemma mids_inv_run : forall ops st,
  mids_inv (hist st) -> run_wf st ops = true -> mids_inv (hist (hrun st ops)).
Proof.
  induction ops as [|op ops IH]; intros st M Wf; [exact M|].
  cbn [run_wf hrun fold_left] in *. apply andb_true_iff in Wf. destruct Wf as [W1 W2].
  apply IH; [|exact W2]. apply mids_inv_step; assumption.
Qed.

Theorem invariants_from_init : forall v ops S,
  protocol_ok S (hinit v) ops = true -> run_wf (hinit v) ops = true ->
  hinv (hrun (hinit v) ops) /\ mids_inv (hist (hrun (hinit v) ops)).
Proof.
  intros v ops S P Wf. split.
  - eapply hinv_run; eauto. apply hinv_init.
  - apply mids_inv_run; [apply mids_inv_init|exact Wf].
Qed.

(** * 7. Why the protocol matters; examples *)

Module SnapshotExample.

  Definition k1 : key := [1]. Definition k2 : key := [2].
  Definition lv0 : list level := [[]; []; []; []; []; []; []].
  Definition v0 : version := mkV 0 lv0.
  Definition t1 : table :=
    mkT 1 0 [mkE k1 0 Value [10]; mkE k2 1 Value [20]] k1 k2 0 1 2 0 0.
  Definition v1 : version := mkV 1 [[[t1]]; []; []; []; []; []; []].
  Definition v2 : version := mkV 2 [[]; [[t1]]; []; []; []; []; []].

  (* the closure of register_tables: new version, the flushed sealed memtables dropped *)
  Definition flush_to (v : version) (sv : superversion) : superversion :=
    mkSV (sv_seq sv) (active sv) [] v.
  (* the closure of a compaction: only the version changes *)
  Definition compact_to (v : version) (sv : superversion) : superversion :=
    mkSV (sv_seq sv) (active sv) (sealed sv) v.
  (* the closure of Tree::clear *)
  Definition clear_to (new_mid : N) (v : version) (sv : superversion) : superversion :=
    mkSV (sv_seq sv) (mkM new_mid []) [] v.

  (** a history with three superversions, built by the machine from a fresh tree:
      two writes, rotation + flush (seqno 2), a write, a compaction (seqno 4), a write *)
  Definition ops0 : list hop :=
    [HWrite (mkE k1 0 Value [10]); HWrite (mkE k2 1 Value [20]);
     HRotate 1; HUpgrade (flush_to v1);
     HWrite (mkE k1 3 Value [11]);
     HUpgrade (compact_to v2);
     HWrite (mkE k2 5 Value [21])].
  Definition st0 : hstate := hrun (hinit v0) ops0.

  Definition m0 : memtable := mkM 0 [mkE k1 0 Value [10]; mkE k2 1 Value [20]].
  Definition m1 : memtable := mkM 1 [mkE k1 3 Value [11]; mkE k2 5 Value [21]].

  (* the shared active memtable #1 shows the same two entries in all three superversions *)
  Example st0_value :
    st0 = mkH [mkSV 0 m1 [m0] v0; mkSV 2 m1 [] v1; mkSV 4 m1 [] v2] 6 6.
  Proof. vm_compute. reflexivity. Qed.

  Example st0_protocol : protocol_ok 0 (hinit v0) ops0 = true /\ run_wf (hinit v0) ops0 = true.
  Proof. vm_compute. split; reflexivity. Qed.

  Example st0_hinv : hinv st0 /\ hinv_strict st0 /\ mids_inv (hist st0).
  Proof.
    split; [|split].
    - apply check_hinv_sound. vm_compute. reflexivity.
    - apply check_hinv_strict_sound. vm_compute. reflexivity.
    - apply mids_ok_sound. vm_compute. reflexivity.
  Qed.

  (** a snapshot is taken: S = 6; it resolves to the newest superversion *)
  Definition S0 : N := vis st0.
  Definition sv0 : superversion := mkSV 4 m1 [] v2.
  Example snapshot_taken : S0 = 6 /\ vfs (hist st0) S0 = Some sv0 /\ latest (hist st0) = Some sv0.
  Proof. vm_compute. repeat split; reflexivity. Qed.

  (** then: a delete of k1 (seqno 6), a rotation, the flush (seqno 7) with its history GC
      at watermark 6, a write, and a clear (seqno 9) with another GC *)
  Definition t2 : table :=
    mkT 2 0 [mkE k1 6 Tomb []; mkE k1 3 Value [11]; mkE k2 5 Value [21]] k1 k2 3 6 3 1 0.
  Definition v3 : version := mkV 3 [[[t2]]; [[t1]]; []; []; []; []; []].
  Definition v4 : version := mkV 4 lv0.
  Definition ops1 : list hop :=
    [HWrite (mkE k1 6 Tomb []); HRotate 2; HUpgrade (flush_to v3); HMaint 6;
     HWrite (mkE k2 8 Value [22]); HUpgrade (clear_to 3 v4); HMaint 6].

  Example ops1_protocol : protocol_ok S0 st0 ops1 = true /\ run_wf st0 ops1 = true.
  Proof. vm_compute. split; reflexivity. Qed.

  Definition m1' : memtable :=
    mkM 1 [mkE k1 6 Tomb []; mkE k1 3 Value [11]; mkE k2 5 Value [21]].
  (* the superversion the snapshot resolves to afterwards: seqno 4 and version v2 as before;
     memtable #1, now sealed, has received the delete (seqno 6); memtable #2, the new
     active one, the write with seqno 8 *)
  Definition sv0' : superversion := mkSV 4 (mkM 2 [mkE k2 8 Value [22]]) [m1'] v2.

  Example after_ops1 :
    hrun st0 ops1 =
    mkH [sv0'; mkSV 7 (mkM 2 [mkE k2 8 Value [22]]) [] v3; mkSV 9 (mkM 3 []) [] v4] 10 10
    /\ vfs (hist (hrun st0 ops1)) S0 = Some sv0'.
  Proof. vm_compute. split; reflexivity. Qed.

  (* the superversions with seqno 0 and 2 are gone; the newest reader sees the clear *)
  Example newest_reader_after :
    sv_get (fun _ _ => true) (mkSV 9 (mkM 3 []) [] v4) k1 10 = None.
  Proof. vm_compute. reflexivity. Qed.

  Example checks : check_inv_sv sv0 = true /\ check_inv_sv sv0' = true.
  Proof. vm_compute. split; reflexivity. Qed.

  (* the reads at the snapshot: unchanged (k1 is still alive at S0, the new k2 is invisible) *)
  Example reads_before :
    sv_get (fun _ _ => true) sv0 k1 S0 = Some (mkE k1 3 Value [11]) /\
    sv_get (fun _ _ => true) sv0 k2 S0 = Some (mkE k2 5 Value [21]).
  Proof. vm_compute. split; reflexivity. Qed.
  Example reads_after :
    sv_get (fun _ _ => true) sv0' k1 S0 = Some (mkE k1 3 Value [11]) /\
    sv_get (fun _ _ => true) sv0' k2 S0 = Some (mkE k2 5 Value [21]).
  Proof. vm_compute. split; reflexivity. Qed.

  (* the same, as instances of the theorems *)
  Example reads_stable_instance k :
    sv_get (fun _ _ => true) sv0' k S0 = sv_get (fun _ _ => true) sv0 k S0.
  Proof.
    destruct st0_hinv as (I & _).
    exact (proj2 (snapshot_reads_stable (fun _ _ => true) st0 ops1 S0 sv0 sv0' I eq_refl
                    (proj1 ops1_protocol) (proj2 (proj2 snapshot_taken)) (proj2 after_ops1)
                    (proj1 checks) (proj2 checks) (filter_sound_true sv0) k)).
  Qed.

  Example never_panics_instance : vfs (hist (hrun st0 ops1)) S0 <> None.
  Proof.
    destruct st0_hinv as (I & _).
    apply (snapshot_never_panics st0 ops1 S0 I eq_refl). apply ops1_protocol.
  Qed.

  Example exact_instance :
    Permutation (mem_entries sv0') (mem_entries sv0 ++ [mkE k1 6 Tomb []; mkE k2 8 Value [22]]).
  Proof.
    vm_compute.
    apply (Permutation_cons_app [mkE [1] 3 Value [11]; mkE [2] 5 Value [21]; mkE [1] 6 Tomb []] []).
    cbn [app].
    apply (Permutation_cons_app [mkE [1] 3 Value [11]; mkE [2] 5 Value [21]] []).
    cbn [app].
    apply Permutation_refl.
  Qed.

  (** the same run with the flush's GC watermark taken from the CURRENT visible seqno (8)
      instead of the oldest held snapshot (6): the superversion with seqno 4 is removed
      and the held snapshot resolves to nothing: get_version_for_snapshot panics *)
  Definition ops_bad : list hop :=
    [HWrite (mkE k1 6 Tomb []); HRotate 2; HUpgrade (flush_to v3); HMaint 8].

  Example bad_watermark :
    map sv_seq (hist (hrun st0 ops_bad)) = [7] /\ vfs (hist (hrun st0 ops_bad)) S0 = None.
  Proof. vm_compute. split; reflexivity. Qed.

End SnapshotExample.

(** a watermark above a held snapshot: every other hypothesis of [snapshot_stable] /
    [snapshot_never_panics] holds (the invariant, snapshot read from [vis], write seqnos
    from the counter, well-formed closures), only [HMaint W] has [S < W]; the superversion
    the snapshot needs is dropped and the snapshot resolves to [None]
    (`expect("should always find a SuperVersion")` fires) *)
Theorem watermark_above_snapshot_refuted :
  exists st0 S pre W,
    hinv st0 /\ mids_inv (hist st0) /\ S = vis st0 /\ S < W /\
    protocol_ok S st0 pre = true /\ run_wf st0 (pre ++ [HMaint W]) = true /\
    vfs (hist (hrun st0 pre)) S <> None /\
    vfs (hist (hrun st0 (pre ++ [HMaint W]))) S = None.
Proof.
  exists SnapshotExample.st0, SnapshotExample.S0,
    [HWrite (mkE SnapshotExample.k1 6 Tomb []); HRotate 2;
     HUpgrade (SnapshotExample.flush_to SnapshotExample.v3)], 8.
  destruct SnapshotExample.st0_hinv as (I & _ & M).
  split; [exact I|]. split; [exact M|].
  split; [reflexivity|]. split; [vm_compute; reflexivity|].
  split; [vm_compute; reflexivity|]. split; [vm_compute; reflexivity|].
  split; [vm_compute; discriminate|vm_compute; reflexivity].
Qed.

(** the minimal shape: one upgrade and a GC just above it *)
Theorem watermark_above_snapshot_refuted_min :
  exists v, let st0 := mkH [mkSV 0 (mkM 0 []) [] v] 3 3 in
    hinv st0 /\ vfs (hist st0) 3 <> None /\
    vfs (hist (hrun st0 [HUpgrade (fun sv => sv); HMaint 4])) 3 = None.
Proof.
  exists (mkV 0 []). cbn zeta. split; [apply check_hinv_sound; vm_compute; reflexivity|].
  split; [vm_compute; discriminate|vm_compute; reflexivity].
Qed.

Print Assumptions newest_ignores_newer.
Print Assumptions newest_insert_newer.
Print Assumptions newest_perm_newer.
Print Assumptions vfs_after_append.
Print Assumptions maintenance_keeps.
Print Assumptions maintenance_suffix.
Print Assumptions maintenance_nonempty.
Print Assumptions maintenance_tail_ge.
Print Assumptions maintenance_removed_lt.
Print Assumptions snapshot_stable_gen.
Print Assumptions check_hinv_sound.
Print Assumptions hinv_step.
Print Assumptions snapshot_resolves_to_latest.
Print Assumptions snapshot_stable.
Print Assumptions snapshot_reads_stable.
Print Assumptions snapshot_never_panics.
Print Assumptions snapshot_stable_exact.
Print Assumptions hinv_strict_step.
Print Assumptions strict_order_from_init_refuted.
Print Assumptions mids_inv_step.
Print Assumptions spec_range_looks_below.
Print Assumptions snapshot_spec_range_stable.
Print Assumptions invariants_from_init.
Print Assumptions watermark_above_snapshot_refuted.
Print Assumptions watermark_above_snapshot_refuted_min.
