(** Proofs about the version-file codec of Model/VersionCodec.v. *)
From LsmV Require Import Base.Bytes Model.Ints Proofs.Ints Model.VersionCodec.
Open Scope N_scope.
Arguments N.add : simpl never.
Arguments N.sub : simpl never.
Arguments N.mul : simpl never.
Arguments N.ltb : simpl never.
Arguments N.leb : simpl never.
Arguments N.eqb : simpl never.
Arguments N.pow : simpl never.
Arguments N.div : simpl never.
Arguments N.modulo : simpl never.

(** * Encodability: every count fits its field, every number fits its width *)

Definition tab_ok (t : vtab) : Prop :=
  vt_id t < 2 ^ 64 /\ vt_checksum t < 2 ^ 128 /\ vt_gseq t < 2 ^ 64.
Definition run_ok (r : list vtab) : Prop :=
  N.of_nat (length r) < 2 ^ 32 /\ Forall tab_ok r.
Definition level_ok (lv : list (list vtab)) : Prop :=
  N.of_nat (length lv) < 2 ^ 8 /\ Forall run_ok lv.
Definition levels_ok (ls : list (list (list vtab))) : Prop :=
  N.of_nat (length ls) < 2 ^ 8 /\ Forall level_ok ls.

Definition blob_ok (b : vblob) : Prop := vb_id b < 2 ^ 64 /\ vb_checksum b < 2 ^ 128.

(** ascending by id (what [recover] normalises the list to) *)
Fixpoint blobs_sorted (l : list vblob) : Prop :=
  match l with
  | [] => True
  | x :: l' =>
      match l' with [] => True | y :: _ => vb_id x <= vb_id y end /\ blobs_sorted l'
  end.

Definition blobs_ok (bs : list vblob) : Prop :=
  N.of_nat (length bs) < 2 ^ 32 /\ Forall blob_ok bs /\ blobs_sorted bs.

Definition gc_ok (g : vgc) : Prop :=
  vg_id g < 2 ^ 64 /\ vg_len g < 2 ^ 32 /\ vg_bytes g < 2 ^ 64 /\ vg_on_disk g < 2 ^ 64.

(** a map: keys are distinct *)
Definition gcs_ok (gs : list vgc) : Prop :=
  N.of_nat (length gs) < 2 ^ 32 /\ Forall gc_ok gs /\ NoDup (map vg_id gs).

Definition version_encodable (v : vfile) : Prop :=
  levels_ok (vf_levels v) /\ blobs_ok (vf_blobs v) /\ gcs_ok (vf_gc v).

(** * Reading back fixed-width fields *)

Lemma rd_le n w rest : n < 2 ^ (8 * N.of_nat w) -> rd w (le_bytes n w ++ rest) = Ok (n, rest).
Proof. intros H. unfold rd. now rewrite le_roundtrip. Qed.

Lemma rd1 n rest : n < 2 ^ 8 -> rd 1 (write_u8 n ++ rest) = Ok (n, rest).
Proof. intros H. apply rd_le. exact H. Qed.
Lemma rd2 n rest : n < 2 ^ 16 -> rd 2 (write_u16_le n ++ rest) = Ok (n, rest).
Proof. intros H. apply rd_le. exact H. Qed.
Lemma rd4 n rest : n < 2 ^ 32 -> rd 4 (write_u32_le n ++ rest) = Ok (n, rest).
Proof. intros H. apply rd_le. exact H. Qed.
Lemma rd8 n rest : n < 2 ^ 64 -> rd 8 (write_u64_le n ++ rest) = Ok (n, rest).
Proof. intros H. apply rd_le. exact H. Qed.
Lemma rd16 n rest : n < 2 ^ 128 -> rd 16 (write_u128_le n ++ rest) = Ok (n, rest).
Proof. intros H. apply rd_le. exact H. Qed.

Lemma trunc_small bits n : n < 2 ^ bits -> trunc bits n = n.
Proof. intros H. unfold trunc. now apply N.mod_small. Qed.

Lemma rd_short w l : (length l < w)%nat -> rd w l = Err EEof.
Proof. intros H. unfold rd. now rewrite read_le_short. Qed.

(** * The counted loop *)

Lemma decode_items_roundtrip {A} (enc : A -> list N) (dec : list N -> res (A * list N)) :
  forall items rest fuel,
    (forall a r, In a items -> dec (enc a ++ r) = Ok (a, r)) ->
    (length items <= fuel)%nat ->
    decode_items dec fuel (N.of_nat (length items)) (flat_map enc items ++ rest)
    = Ok (items, rest).
Proof.
  induction items as [|a items IH]; intros rest fuel Hdec Hfuel.
  - destruct fuel; reflexivity.
  - destruct fuel as [|f]; [cbn [length] in Hfuel; lia|].
    cbn [length flat_map decode_items].
    assert (E : N.of_nat (S (length items)) =? 0 = false) by (apply N.eqb_neq; lia).
    rewrite E. rewrite <- app_assoc. rewrite Hdec by (left; reflexivity).
    replace (N.of_nat (S (length items)) - 1) with (N.of_nat (length items)) by lia.
    rewrite IH.
    + reflexivity.
    + intros a' r' Hin. apply Hdec. now right.
    + cbn [length] in Hfuel. lia.
Qed.

Lemma flat_map_length_ge {A} (enc : A -> list N) items :
  (forall a, In a items -> (1 <= length (enc a))%nat) ->
  (length items <= length (flat_map enc items))%nat.
Proof.
  induction items as [|a items IH]; intros H; cbn [flat_map length]; [lia|].
  rewrite app_length. specialize (H a (or_introl eq_refl)) as Ha.
  assert (length items <= length (flat_map enc items))%nat by (apply IH; intros; apply H; now right).
  lia.
Qed.

Lemma decode_items_roundtrip_len {A} (enc : A -> list N) (dec : list N -> res (A * list N))
      items rest :
  (forall a r, In a items -> dec (enc a ++ r) = Ok (a, r)) ->
  (forall a, In a items -> (1 <= length (enc a))%nat) ->
  decode_items dec (length (flat_map enc items ++ rest)) (N.of_nat (length items))
               (flat_map enc items ++ rest)
  = Ok (items, rest).
Proof.
  intros Hdec Hlen. apply decode_items_roundtrip; [exact Hdec|].
  rewrite app_length. pose proof (flat_map_length_ge enc items Hlen). lia.
Qed.

(** * Section "tables" *)

Lemma decode_table_ok t rest : tab_ok t -> decode_table (encode_table t ++ rest) = Ok (t, rest).
Proof.
  destruct t as [id ck gs]. unfold tab_ok. cbn [vt_id vt_checksum vt_gseq]. intros (Hi & Hc & Hg).
  unfold decode_table, encode_table. cbn [vt_id vt_checksum vt_gseq].
  rewrite <- !app_assoc.
  rewrite rd8 by exact Hi. rewrite rd1 by lia.
  change (negb (0 =? 0)) with false. cbv iota.
  rewrite rd16 by exact Hc. rewrite rd8 by exact Hg. reflexivity.
Qed.

Lemma encode_table_len t : length (encode_table t) = 33%nat.
Proof.
  unfold encode_table, write_u64_le, write_u8, write_u128_le.
  rewrite !app_length, !le_bytes_length. reflexivity.
Qed.

Lemma decode_run_ok r rest : run_ok r -> decode_run (encode_run r ++ rest) = Ok (r, rest).
Proof.
  intros [Hlen Hall]. unfold decode_run, encode_run. rewrite <- app_assoc.
  rewrite trunc_small by exact Hlen. rewrite rd4 by exact Hlen.
  apply decode_items_roundtrip_len.
  - intros a r' Hin. apply decode_table_ok. rewrite Forall_forall in Hall. now apply Hall.
  - intros a _. rewrite encode_table_len. lia.
Qed.

Lemma encode_run_len r : (1 <= length (encode_run r))%nat.
Proof. unfold encode_run, write_u32_le. rewrite app_length, le_bytes_length. lia. Qed.

Lemma decode_level_ok lv rest : level_ok lv -> decode_level (encode_level lv ++ rest) = Ok (lv, rest).
Proof.
  intros [Hlen Hall]. unfold decode_level, encode_level. rewrite <- app_assoc.
  rewrite trunc_small by exact Hlen. rewrite rd1 by exact Hlen.
  apply decode_items_roundtrip_len.
  - intros a r' Hin. apply decode_run_ok. rewrite Forall_forall in Hall. now apply Hall.
  - intros a _. apply encode_run_len.
Qed.

Lemma encode_level_len lv : (1 <= length (encode_level lv))%nat.
Proof. unfold encode_level, write_u8. rewrite app_length, le_bytes_length. lia. Qed.

Theorem tables_section_roundtrip ls rest :
  levels_ok ls -> decode_tables_section (encode_tables_section ls ++ rest) = Ok (ls, rest).
Proof.
  intros [Hlen Hall]. unfold decode_tables_section, encode_tables_section. rewrite <- app_assoc.
  rewrite trunc_small by exact Hlen. rewrite rd1 by exact Hlen.
  apply decode_items_roundtrip_len.
  - intros a r' Hin. apply decode_level_ok. rewrite Forall_forall in Hall. now apply Hall.
  - intros a _. apply encode_level_len.
Qed.

(** * Section "blob_files" *)

Lemma decode_blob_ok b rest : blob_ok b -> decode_blob (encode_blob b ++ rest) = Ok (b, rest).
Proof.
  destruct b as [id ck]. unfold blob_ok. cbn [vb_id vb_checksum]. intros (Hi & Hc).
  unfold decode_blob, encode_blob. cbn [vb_id vb_checksum].
  rewrite <- !app_assoc.
  rewrite rd8 by exact Hi. rewrite rd1 by lia.
  change (negb (0 =? 0)) with false. cbv iota.
  rewrite rd16 by exact Hc. reflexivity.
Qed.

Lemma encode_blob_len b : length (encode_blob b) = 25%nat.
Proof.
  unfold encode_blob, write_u64_le, write_u8, write_u128_le.
  rewrite !app_length, !le_bytes_length. reflexivity.
Qed.

Lemma blob_sort_sorted bs : blobs_sorted bs -> blob_sort bs = bs.
Proof.
  induction bs as [|x bs IH]; [reflexivity|].
  intros [Hx Hs]. unfold blob_sort in *. cbn [fold_right]. rewrite IH by exact Hs.
  destruct bs as [|y bs']; [reflexivity|].
  cbn [blob_insert]. apply N.leb_le in Hx. now rewrite Hx.
Qed.

Theorem blob_files_section_roundtrip bs rest :
  blobs_ok bs -> decode_blob_files_section (encode_blob_files_section bs ++ rest) = Ok (bs, rest).
Proof.
  intros (Hlen & Hall & Hs). unfold decode_blob_files_section, encode_blob_files_section.
  rewrite <- app_assoc.
  rewrite trunc_small by exact Hlen. rewrite rd4 by exact Hlen.
  rewrite decode_items_roundtrip_len.
  - now rewrite blob_sort_sorted.
  - intros a r' Hin. apply decode_blob_ok. rewrite Forall_forall in Hall. now apply Hall.
  - intros a _. rewrite encode_blob_len. lia.
Qed.

(** without sortedness the section still decodes, to the sorted list *)
Theorem blob_files_section_decodes_sorted bs rest :
  N.of_nat (length bs) < 2 ^ 32 -> Forall blob_ok bs ->
  decode_blob_files_section (encode_blob_files_section bs ++ rest) = Ok (blob_sort bs, rest).
Proof.
  intros Hlen Hall. unfold decode_blob_files_section, encode_blob_files_section.
  rewrite <- app_assoc.
  rewrite trunc_small by exact Hlen. rewrite rd4 by exact Hlen.
  rewrite decode_items_roundtrip_len.
  - reflexivity.
  - intros a r' Hin. apply decode_blob_ok. rewrite Forall_forall in Hall. now apply Hall.
  - intros a _. rewrite encode_blob_len. lia.
Qed.

(** * Section "blob_gc_stats" *)

Lemma decode_gc_entry_ok g rest : gc_ok g -> decode_gc_entry (encode_gc_entry g ++ rest) = Ok (g, rest).
Proof.
  destruct g as [id len by_ od]. unfold gc_ok. cbn [vg_id vg_len vg_bytes vg_on_disk].
  intros (Hi & Hl & Hb & Ho).
  unfold decode_gc_entry, encode_gc_entry. cbn [vg_id vg_len vg_bytes vg_on_disk].
  rewrite <- !app_assoc.
  rewrite rd8 by exact Hi. rewrite trunc_small by exact Hl. rewrite rd4 by exact Hl.
  rewrite rd8 by exact Hb. rewrite rd8 by exact Ho. reflexivity.
Qed.

Lemma encode_gc_entry_len g : length (encode_gc_entry g) = 28%nat.
Proof.
  unfold encode_gc_entry, write_u64_le, write_u32_le.
  rewrite !app_length, !le_bytes_length. reflexivity.
Qed.

Lemma gc_insert_fresh g m : ~ In (vg_id g) (map vg_id m) -> gc_insert g m = m ++ [g].
Proof.
  induction m as [|h m IH]; intros Hn; [reflexivity|].
  cbn [gc_insert map app] in *.
  destruct (vg_id h =? vg_id g) eqn:E.
  - apply N.eqb_eq in E. exfalso. apply Hn. now left.
  - rewrite IH; [reflexivity|]. intro. apply Hn. now right.
Qed.

Lemma gc_of_list_nodup_acc l : forall acc,
  NoDup (map vg_id (acc ++ l)) -> fold_left (fun m g => gc_insert g m) l acc = acc ++ l.
Proof.
  induction l as [|g l IH]; intros acc H; cbn [fold_left].
  - now rewrite app_nil_r.
  - rewrite gc_insert_fresh.
    + rewrite IH; rewrite <- app_assoc; [reflexivity|exact H].
    + rewrite map_app in H. cbn [map] in H. apply NoDup_remove_2 in H.
      intro Hin. apply H. apply in_or_app. now left.
Qed.

Lemma gc_of_list_nodup l : NoDup (map vg_id l) -> gc_of_list l = l.
Proof. intros H. unfold gc_of_list. now rewrite gc_of_list_nodup_acc. Qed.

Theorem gc_section_roundtrip gs rest :
  gcs_ok gs -> decode_gc_section (encode_gc_section gs ++ rest) = Ok (gs, rest).
Proof.
  intros (Hlen & Hall & Hnd). unfold decode_gc_section, encode_gc_section.
  rewrite <- app_assoc.
  rewrite trunc_small by exact Hlen. rewrite rd4 by exact Hlen.
  rewrite decode_items_roundtrip_len.
  - now rewrite gc_of_list_nodup.
  - intros a r' Hin. apply decode_gc_entry_ok. rewrite Forall_forall in Hall. now apply Hall.
  - intros a _. rewrite encode_gc_entry_len. lia.
Qed.

(** * The whole version *)

Lemma with_nil {A} (l : list A) : l = l ++ [].
Proof. now rewrite app_nil_r. Qed.

Theorem version_codec_roundtrip_res : forall v,
  version_encodable v -> decode_version_res (encode_version v) = Ok v.
Proof.
  intros [tt ls bs gs] (Hl & Hb & Hg). cbn [vf_levels vf_blobs vf_gc] in *.
  unfold decode_version_res, encode_version. cbn [vf_tree_type vf_levels vf_blobs vf_gc].
  assert (E1 : get_section n_tables
     [(n_format_version, write_u8 3); (n_crate_version, crate_version_bytes);
      (n_tree_type, write_u8 (ttype_byte tt));
      (n_level_count, write_u8 (trunc 8 (N.of_nat (length ls))));
      (n_filter_hash_type, write_u8 0); (n_tables, encode_tables_section ls);
      (n_blob_files, encode_blob_files_section bs); (n_blob_gc_stats, encode_gc_section gs)]
     = Ok (encode_tables_section ls)) by reflexivity.
  assert (E2 : get_section n_blob_files
     [(n_format_version, write_u8 3); (n_crate_version, crate_version_bytes);
      (n_tree_type, write_u8 (ttype_byte tt));
      (n_level_count, write_u8 (trunc 8 (N.of_nat (length ls))));
      (n_filter_hash_type, write_u8 0); (n_tables, encode_tables_section ls);
      (n_blob_files, encode_blob_files_section bs); (n_blob_gc_stats, encode_gc_section gs)]
     = Ok (encode_blob_files_section bs)) by reflexivity.
  assert (E3 : get_section n_blob_gc_stats
     [(n_format_version, write_u8 3); (n_crate_version, crate_version_bytes);
      (n_tree_type, write_u8 (ttype_byte tt));
      (n_level_count, write_u8 (trunc 8 (N.of_nat (length ls))));
      (n_filter_hash_type, write_u8 0); (n_tables, encode_tables_section ls);
      (n_blob_files, encode_blob_files_section bs); (n_blob_gc_stats, encode_gc_section gs)]
     = Ok (encode_gc_section gs)) by reflexivity.
  assert (E4 : get_section n_tree_type
     [(n_format_version, write_u8 3); (n_crate_version, crate_version_bytes);
      (n_tree_type, write_u8 (ttype_byte tt));
      (n_level_count, write_u8 (trunc 8 (N.of_nat (length ls))));
      (n_filter_hash_type, write_u8 0); (n_tables, encode_tables_section ls);
      (n_blob_files, encode_blob_files_section bs); (n_blob_gc_stats, encode_gc_section gs)]
     = Ok (write_u8 (ttype_byte tt))) by reflexivity.
  rewrite E1, E2, E3, E4.
  rewrite (with_nil (encode_tables_section ls)), tables_section_roundtrip by exact Hl.
  rewrite (with_nil (encode_blob_files_section bs)), blob_files_section_roundtrip by exact Hb.
  rewrite (with_nil (encode_gc_section gs)), gc_section_roundtrip by exact Hg.
  destruct tt; reflexivity.
Qed.

(** MAIN *)
Theorem version_codec_roundtrip : forall v,
  version_encodable v -> decode_version (encode_version v) = Some v.
Proof.
  intros v H. unfold decode_version. now rewrite version_codec_roundtrip_res.
Qed.

(** ** A concrete encodable version (7 levels, two L0 runs, blobs, gc stats) *)

Definition sample_version : vfile :=
  mkVfile TBlob
    [ [ [mkVtab 12 (2 ^ 127 + 5) 7]; [mkVtab 11 99 0; mkVtab 10 (2 ^ 100) (2 ^ 63)] ];
      []; [ [mkVtab 3 1 0; mkVtab 4 2 0; mkVtab 5 3 0] ]; []; []; []; [] ]
    [ mkVblob 1 77; mkVblob 2 (2 ^ 128 - 1) ]
    [ mkVgc 2 3 3000 1500; mkVgc 1 1 1000 500 ].

Example sample_version_encodable : version_encodable sample_version.
Proof.
  unfold version_encodable, sample_version, levels_ok, level_ok, run_ok, tab_ok, blobs_ok,
    blob_ok, gcs_ok, gc_ok.
  cbn [vf_levels vf_blobs vf_gc length map vg_id].
  repeat split;
    repeat (first [ apply Forall_nil | apply Forall_cons | split ]);
    cbn [length vt_id vt_checksum vt_gseq vb_id vb_checksum vg_id vg_len vg_bytes vg_on_disk];
    try (vm_compute; reflexivity); try (vm_compute; discriminate).
  repeat constructor; cbn [In]; intuition discriminate.
Qed.

Example sample_version_roundtrip :
  decode_version (encode_version sample_version) = Some sample_version.
Proof. vm_compute. reflexivity. Qed.

(** the byte image of the three data sections of [sample_version]'s little sibling *)
Example tables_section_bytes :
  encode_tables_section [ [ [mkVtab 258 (2 ^ 120) 5] ]; [] ]
  = [2;            (* level count u8 *)
     1;            (* L0: run count u8 *)
     1; 0; 0; 0;   (* run 0: table count u32 LE *)
     2; 1; 0; 0; 0; 0; 0; 0;                              (* id = 258, u64 LE *)
     0;                                                   (* checksum type *)
     0; 0; 0; 0; 0; 0; 0; 0; 0; 0; 0; 0; 0; 0; 0; 1;      (* checksum u128 LE *)
     5; 0; 0; 0; 0; 0; 0; 0;                              (* global seqno u64 LE *)
     0             (* L1: run count *) ].
Proof. vm_compute. reflexivity. Qed.

(** * The known defect: [level.len() as u8] (src/version/mod.rs l.664) *)

Definition t0 : vtab := mkVtab 1 2 3.

(** one level holding 256 single-table runs; everything else empty and in range *)
Definition many_runs_1 : vfile := mkVfile TStandard [ repeat [t0] 256 ] [] [].
(** the same with the crate's fixed 7 levels *)
Definition many_runs_7 : vfile :=
  mkVfile TStandard [ repeat [t0] 256; []; []; []; []; []; [] ] [] [].

Lemma blobs_ok_nil : blobs_ok [].
Proof. split; [vm_compute; reflexivity|]. split; [constructor|exact I]. Qed.
Lemma gcs_ok_nil : gcs_ok [].
Proof. split; [vm_compute; reflexivity|]. split; constructor. Qed.

(** every other bound of [version_encodable] holds for the witness: only the run count
    256 of level 0 does not fit its u8 *)
Lemma many_runs_1_almost :
  N.of_nat (length (vf_levels many_runs_1)) < 2 ^ 8 /\
  Forall (fun lv => Forall run_ok lv) (vf_levels many_runs_1) /\
  blobs_ok (vf_blobs many_runs_1) /\ gcs_ok (vf_gc many_runs_1) /\
  map (fun lv => N.of_nat (length lv)) (vf_levels many_runs_1) = [256].
Proof.
  split; [vm_compute; reflexivity|]. split.
  { constructor; [|constructor]. apply Forall_forall. intros r Hr.
    apply repeat_spec in Hr. subst r. split; [vm_compute; reflexivity|].
    constructor; [|constructor]. repeat split; vm_compute; reflexivity. }
  split; [apply blobs_ok_nil|]. split; [apply gcs_ok_nil|].
  vm_compute. reflexivity.
Qed.

(** what the decoder returns: the run count byte is [256 mod 256 = 0], so level 0 is
    read back EMPTY, the 256 runs' bytes (9472 of them) are left unread, and no error is
    raised: all 256 tables silently vanish from the recovered version. *)
Example many_runs_1_decodes_to :
  decode_version (encode_version many_runs_1) = Some (mkVfile TStandard [ [] ] [] []) /\
  (exists rest, decode_tables_section (encode_tables_section (vf_levels many_runs_1))
                = Ok ([ [] ], rest) /\ N.of_nat (length rest) = 9472).
Proof.
  split; [vm_compute; reflexivity|].
  eexists. split; [vm_compute; reflexivity|]. vm_compute. reflexivity.
Qed.

(** with 7 levels the decoder goes on to parse the 256 runs' bytes as levels 1..6:
    level 1 gets run count 1 (the low byte of the first run's table count), that run gets
    table count [t0.id << 24] = 16777216, its first "table" is read across the field
    boundaries and the parse dies on the byte that lands in the checksum-type position
    (here the low byte of t0's checksum): InvalidTag(("ChecksumType", 2)). With other
    table contents the outcome is UnexpectedEof or a garbage version. *)
Example many_runs_7_decodes_to :
  decode_version_res (encode_version many_runs_7) = Err (EInvalidTag 2).
Proof. vm_compute. reflexivity. Qed.

Theorem version_many_runs_refuted :
  exists v,
    Exists (fun lv => length lv = 256%nat) (vf_levels v) /\
    N.of_nat (length (vf_levels v)) < 2 ^ 8 /\
    Forall (fun lv => Forall run_ok lv) (vf_levels v) /\
    blobs_ok (vf_blobs v) /\ gcs_ok (vf_gc v) /\
    decode_version (encode_version v) <> Some v.
Proof.
  exists many_runs_1.
  destruct many_runs_1_almost as (H1 & H2 & H3 & H4 & _).
  split; [left; apply repeat_length|].
  split; [exact H1|]. split; [exact H2|]. split; [exact H3|]. split; [exact H4|].
  destruct many_runs_1_decodes_to as [E _]. rewrite E.
  intro Heq. apply (f_equal (fun o => match o with Some v => length (concat (vf_levels v)) | None => 0%nat end)) in Heq.
  vm_compute in Heq. discriminate.
Qed.

(** the same truncation one level up: 256 levels are written as level count 0 *)
Example many_levels_decodes_to :
  decode_version (encode_version (mkVfile TStandard (repeat [] 256) [] []))
  = Some (mkVfile TStandard [] [] []).
Proof. vm_compute. reflexivity. Qed.

(** * Malformed input is an error, never a default *)

Example decode_empty_sections :
  decode_tables_section [] = Err EEof /\ decode_blob_files_section [] = Err EEof /\
  decode_gc_section [] = Err EEof /\ decode_blob_files_section [1; 0; 0] = Err EEof /\
  decode_version_res [] = Err EUnrecoverable /\ decode_current [1; 2; 3] = Err EEof.
Proof. vm_compute. repeat split. Qed.

(** every strict prefix of the sample's sections fails with UnexpectedEof *)
Definition all_prefixes_fail {A} (dec : list N -> res A) (l : list N) : bool :=
  forallb (fun k => match dec (firstn k l) with Err EEof => true | _ => false end)
          (seq 0 (length l)).

Example sample_prefixes_fail :
  all_prefixes_fail decode_tables_section (encode_tables_section (vf_levels sample_version)) = true /\
  all_prefixes_fail decode_blob_files_section (encode_blob_files_section (vf_blobs sample_version)) = true /\
  all_prefixes_fail decode_gc_section (encode_gc_section (vf_gc sample_version)) = true.
Proof. vm_compute. repeat split. Qed.

(** a non-zero checksum-type byte is rejected: InvalidTag(("ChecksumType", 7)) *)
Example bad_checksum_tag :
  decode_tables_section
    ([1; 1; 1; 0; 0; 0] ++ write_u64_le 9 ++ [7] ++ write_u128_le 0 ++ write_u64_le 0)
  = Err (EInvalidTag 7) /\
  decode_blob_files_section ([1; 0; 0; 0] ++ write_u64_le 9 ++ [7] ++ write_u128_le 0)
  = Err (EInvalidTag 7).
Proof. vm_compute. split; reflexivity. Qed.

(** an absurd count with short input fails fast (no 4-billion iteration loop) *)
Example huge_count_fails :
  decode_blob_files_section [255; 255; 255; 255; 1; 2; 3] = Err EEof /\
  decode_tables_section [255; 255] = Err EEof.
Proof. vm_compute. split; reflexivity. Qed.

(** trailing bytes after a section's content are ignored by [recover] *)
Example trailing_garbage_ignored :
  decode_version (map (fun s => (fst s, snd s ++ [222; 173])) (encode_version sample_version))
  = Some sample_version.
Proof. vm_compute. reflexivity. Qed.

(** duplicate ids in the gc section: the later entry wins (HashMap::insert) *)
Example gc_duplicate_last_wins :
  decode_gc_section (encode_gc_section [mkVgc 1 1 10 5; mkVgc 2 2 20 10; mkVgc 1 9 90 45])
  = Ok ([mkVgc 1 9 90 45; mkVgc 2 2 20 10], []).
Proof. vm_compute. reflexivity. Qed.

(** blob files come back sorted by id whatever the writer's HashMap order was *)
Example blobs_come_back_sorted :
  decode_blob_files_section (encode_blob_files_section [mkVblob 5 1; mkVblob 2 2; mkVblob 9 3])
  = Ok ([mkVblob 2 2; mkVblob 5 1; mkVblob 9 3], []).
Proof. vm_compute. reflexivity. Qed.

(** [item.len as u32]: a fragmentation entry with 2^32 blobs is written as 0 *)
Example gc_len_truncated :
  decode_gc_section (encode_gc_section [mkVgc 1 (2 ^ 32) 10 5]) = Ok ([mkVgc 1 0 10 5], []).
Proof. vm_compute. reflexivity. Qed.

(** ** Replay of src/blob_tree/gc.rs test [frag_map_roundtrip] *)
Example frag_map_roundtrip :
  let map := [mkVgc 0 1 1000 500; mkVgc 1 2 2000 1000] in
  decode_gc_section (encode_gc_section map) = Ok (map, []) /\
  encode_gc_section map =
    [2;0;0;0;
     0;0;0;0;0;0;0;0; 1;0;0;0; 232;3;0;0;0;0;0;0; 244;1;0;0;0;0;0;0;
     1;0;0;0;0;0;0;0; 2;0;0;0; 208;7;0;0;0;0;0;0; 232;3;0;0;0;0;0;0].
Proof. vm_compute. split; reflexivity. Qed.

(** ** "current" file *)
Theorem current_roundtrip id ck : id < 2 ^ 64 -> decode_current (encode_current id ck) = Ok id.
Proof.
  intros H. unfold decode_current, encode_current. now rewrite rd8.
Qed.

Example current_bytes :
  encode_current 5 (2 ^ 120 + 1) = [5;0;0;0;0;0;0;0; 1;0;0;0;0;0;0;0;0;0;0;0;0;0;0;1; 0] /\
  length (encode_current 5 7) = 25%nat.
Proof. vm_compute. split; reflexivity. Qed.

(** ** sfa container: concrete check of writer against reader *)
Example sfa_roundtrip_sample :
  sfa_decode (sfa_encode (encode_version sample_version) 12345)
  = Ok (encode_version sample_version, (12345, sfa_toc (encode_version sample_version))).
Proof. vm_compute. reflexivity. Qed.

Example sfa_layout_small :
  sfa_encode [([97], [1; 2; 3]); ([98; 99], [4])] 0
  = [1; 2; 3; 4] ++
    [84; 79; 67; 33; 2; 0; 0; 0] ++
    ([0;0;0;0;0;0;0;0] ++ [3;0;0;0;0;0;0;0] ++ [1; 0] ++ [97]) ++
    ([3;0;0;0;0;0;0;0] ++ [1;0;0;0;0;0;0;0] ++ [2; 0] ++ [98; 99]) ++
    [83; 70; 65; 33; 1; 0] ++ repeat 0 16 ++ [4;0;0;0;0;0;0;0] ++ [47;0;0;0;0;0;0;0].
Proof. vm_compute. reflexivity. Qed.

Example sfa_short_file : sfa_decode [1; 2; 3] = Err EEof.
Proof. vm_compute. reflexivity. Qed.

Print Assumptions version_codec_roundtrip.
Print Assumptions version_codec_roundtrip_res.
Print Assumptions version_many_runs_refuted.
Print Assumptions tables_section_roundtrip.
Print Assumptions blob_files_section_roundtrip.
Print Assumptions blob_files_section_decodes_sorted.
Print Assumptions gc_section_roundtrip.
Print Assumptions current_roundtrip.
