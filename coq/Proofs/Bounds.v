(** Containment / overlap of table key ranges with range bounds, and the DropRange
    strategy's selection. *)
From Coq Require Import PeanoNat Sorted.
From LsmV Require Import Base.Bytes Model.Entry Model.Bounds.
Open Scope N_scope.

(** ** monotonicity of bounds *)

Lemma lo_ok_mono lo a b : lo_ok lo a = true -> key_le a b -> lo_ok lo b = true.
Proof.
  destruct lo as [s|s|]; cbn [lo_ok]; intros H Hab; [| |reflexivity]; key_prop.
  - eapply key_le_trans; eauto.
  - eapply key_lt_le_trans; eauto.
Qed.

Lemma hi_ok_mono hi a b : hi_ok hi b = true -> key_le a b -> hi_ok hi a = true.
Proof.
  destruct hi as [s|s|]; cbn [hi_ok]; intros H Hab; [| |reflexivity]; key_prop.
  - eapply key_le_trans; eauto.
  - eapply key_le_lt_trans; eauto.
Qed.

(** ** the Rust functions in terms of [lo_ok]/[hi_ok] *)

Lemma bounds_contains_eq lo hi kmin kmax :
  bounds_contains lo hi kmin kmax = lo_ok lo kmin && hi_ok hi kmax.
Proof.
  unfold bounds_contains.
  destruct lo as [s|s|]; cbn [lo_ok];
    [destruct (key_leb s kmin)|destruct (key_ltb s kmin)|]; cbn [negb andb];
    destruct hi as [e|e|]; reflexivity.
Qed.

Lemma kr_overlaps_bounds_eq kmin kmax lo hi :
  kr_overlaps_bounds kmin kmax lo hi = lo_ok lo kmax && hi_ok hi kmin.
Proof.
  unfold kr_overlaps_bounds.
  destruct lo as [s|s|]; destruct hi as [e|e|]; cbn [is_unb andb lo_ok hi_ok];
    rewrite ?andb_true_r; reflexivity.
Qed.

(** ** KeyRange predicates *)

Theorem kr_contains_key_spec kmin kmax k :
  kr_contains_key kmin kmax k = true <-> key_le kmin k /\ key_le k kmax.
Proof. unfold kr_contains_key. rewrite andb_true_iff, !key_leb_le. reflexivity. Qed.

Theorem kr_contains_range_spec min1 max1 min2 max2 : key_le min2 max2 ->
  (kr_contains_range min1 max1 min2 max2 = true <->
   forall k, key_le min2 k -> key_le k max2 -> kr_contains_key min1 max1 k = true).
Proof.
  intros Hwf. unfold kr_contains_range. rewrite andb_true_iff, !key_leb_le. split.
  - intros [H1 H2] k Ha Hb. apply kr_contains_key_spec. split; eapply key_le_trans; eauto.
  - intros H. split.
    + apply (H min2 (key_le_refl _)) in Hwf. now apply kr_contains_key_spec in Hwf.
    + specialize (H max2 Hwf (key_le_refl _)). now apply kr_contains_key_spec in H.
Qed.

Theorem kr_overlaps_kr_spec min1 max1 min2 max2 : key_le min1 max1 -> key_le min2 max2 ->
  (kr_overlaps_kr min1 max1 min2 max2 = true <->
   exists k, kr_contains_key min1 max1 k = true /\ kr_contains_key min2 max2 k = true).
Proof.
  intros H1 H2. unfold kr_overlaps_kr. rewrite andb_true_iff, !key_leb_le. split.
  - intros [Ha Hb]. destruct (key_leb min1 min2) eqn:E; key_prop.
    + exists min2. rewrite !kr_contains_key_spec. auto using key_le_refl.
    + exists min1. rewrite !kr_contains_key_spec. auto using key_le_refl, key_lt_le.
  - intros [k [Ha Hb]]. apply kr_contains_key_spec in Ha, Hb. destruct Ha, Hb.
    split; eapply key_le_trans; eauto.
Qed.

(** ** OwnedBounds::contains *)

(** soundness: a "contained" table has no key outside the bounds (no hypothesis on the
    table's range needed) *)
Theorem contains_sound lo hi kmin kmax :
  bounds_contains lo hi kmin kmax = true ->
  forall k, key_le kmin k -> key_le k kmax -> in_bounds lo hi k = true.
Proof.
  rewrite bounds_contains_eq, andb_true_iff. intros [Hl Hh] k Ha Hb.
  unfold in_bounds. rewrite (lo_ok_mono _ _ _ Hl Ha), (hi_ok_mono _ _ _ Hh Hb). reflexivity.
Qed.

(** MAIN *)
Theorem contains_spec : forall lo hi kmin kmax, key_le kmin kmax ->
  (bounds_contains lo hi kmin kmax = true <->
   forall k, key_le kmin k -> key_le k kmax -> in_bounds lo hi k = true).
Proof.
  intros lo hi kmin kmax Hwf. split; [apply contains_sound|].
  intros H. rewrite bounds_contains_eq.
  pose proof (H kmin (key_le_refl _) Hwf) as H1.
  pose proof (H kmax Hwf (key_le_refl _)) as H2.
  unfold in_bounds in H1, H2. apply andb_true_iff in H1, H2.
  apply andb_true_iff. tauto.
Qed.

Example contains_spec_instance :
  key_le [98] [99;0] /\ bounds_contains (Excl [97]) (Excl [99;1]) [98] [99;0] = true
  /\ bounds_contains (Excl [98]) (Excl [99;1]) [98] [99;0] = false
  /\ bounds_contains (Incl [98]) (Incl [99]) [98] [99;0] = false.
Proof. vm_compute. repeat split; congruence. Qed.

(** ** range_bounds_to_owned_bounds: is_empty *)

(** MAIN *)
Theorem is_empty_spec lo hi :
  bounds_is_empty lo hi = true -> forall k, in_bounds lo hi k = false.
Proof.
  intros H k. unfold in_bounds.
  destruct (lo_ok lo k) eqn:El; [|reflexivity].
  destruct (hi_ok hi k) eqn:Eh; [|reflexivity]. exfalso.
  destruct lo as [l|l|]; destruct hi as [h|h|]; cbn [bounds_is_empty lo_ok hi_ok] in *;
    try discriminate; key_prop.
  - eapply key_lt_irrefl. eapply key_lt_le_trans; [exact H|]. eapply key_le_trans; eauto.
  - eapply key_lt_irrefl. eapply key_lt_le_trans; [exact H|].
    eapply key_le_trans; [exact El|]. now apply key_lt_le.
  - eapply key_lt_irrefl. eapply key_lt_le_trans; [exact H|].
    eapply key_le_trans; [apply key_lt_le; exact El|]. exact Eh.
  - eapply key_lt_irrefl. eapply key_lt_trans; [exact H|]. eapply key_lt_trans; eauto.
Qed.

(** The flag is not complete (harmless): these bounds select no key, but are not flagged;
    [contains] then answers [false] for every well-formed table (by [contains_spec]). *)
Example is_empty_not_complete :
  bounds_is_empty (Excl [98]) (Excl [98]) = false /\
  forall k, in_bounds (Excl [98]) (Excl [98]) k = false.
Proof.
  split; [reflexivity|]. intros k. unfold in_bounds. cbn [lo_ok hi_ok].
  destruct (key_ltb [98] k) eqn:E1; [|reflexivity].
  destruct (key_ltb k [98]) eqn:E2; [|reflexivity]. key_prop.
  exfalso. eapply key_lt_irrefl. eapply key_lt_trans; eauto.
Qed.

Corollary empty_bounds_contain_nothing lo hi kmin kmax : key_le kmin kmax ->
  (forall k, in_bounds lo hi k = false) -> bounds_contains lo hi kmin kmax = false.
Proof.
  intros Hwf H. destruct (bounds_contains lo hi kmin kmax) eqn:E; [|reflexivity].
  pose proof (contains_sound _ _ _ _ E kmin (key_le_refl _) Hwf) as H1.
  rewrite H in H1. discriminate.
Qed.

(** ** KeyRange::overlaps_with_bounds *)

(** no false negatives: whenever some key of the table is in bounds, the answer is
    [true] (no hypothesis on the table's range needed) *)
Theorem overlaps_with_bounds_complete lo hi kmin kmax :
  (exists k, key_le kmin k /\ key_le k kmax /\ in_bounds lo hi k = true) ->
  kr_overlaps_bounds kmin kmax lo hi = true.
Proof.
  intros [k [Ha [Hb Hin]]]. rewrite kr_overlaps_bounds_eq.
  unfold in_bounds in Hin. apply andb_true_iff in Hin as [Hl Hh].
  rewrite (lo_ok_mono _ _ _ Hl Hb), (hi_ok_mono _ _ _ Hh Ha). reflexivity.
Qed.

(** exact characterisation: the two bounds are tested independently *)
Theorem overlaps_with_bounds_exact lo hi kmin kmax : key_le kmin kmax ->
  (kr_overlaps_bounds kmin kmax lo hi = true <->
   (exists k, key_le kmin k /\ key_le k kmax /\ lo_ok lo k = true) /\
   (exists k, key_le kmin k /\ key_le k kmax /\ hi_ok hi k = true)).
Proof.
  intros Hwf. rewrite kr_overlaps_bounds_eq, andb_true_iff. split.
  - intros [Hl Hh]. split; [exists kmax | exists kmin]; auto using key_le_refl.
  - intros [[k1 [A1 [B1 C1]]] [k2 [A2 [B2 C2]]]]. split.
    + eapply lo_ok_mono; eauto.
    + eapply hi_ok_mono; eauto.
Qed.

(** MAIN: the requested equivalence holds as soon as the bounds are satisfiable at all *)
Theorem overlaps_with_bounds_spec : forall lo hi kmin kmax,
  key_le kmin kmax -> (exists k0, in_bounds lo hi k0 = true) ->
  (kr_overlaps_bounds kmin kmax lo hi = true <->
   exists k, key_le kmin k /\ key_le k kmax /\ in_bounds lo hi k = true).
Proof.
  intros lo hi kmin kmax Hwf [k0 H0]. split; [|apply overlaps_with_bounds_complete].
  rewrite kr_overlaps_bounds_eq, andb_true_iff. intros [Hl Hh].
  unfold in_bounds in H0. apply andb_true_iff in H0 as [H0l H0h].
  destruct (key_ltb k0 kmin) eqn:E1; key_prop.
  - exists kmin. repeat split; auto using key_le_refl. unfold in_bounds.
    rewrite (lo_ok_mono _ _ _ H0l (key_lt_le _ _ E1)), Hh. reflexivity.
  - destruct (key_ltb kmax k0) eqn:E2; key_prop.
    + exists kmax. repeat split; auto using key_le_refl. unfold in_bounds.
      rewrite Hl, (hi_ok_mono _ _ _ H0h (key_lt_le _ _ E2)). reflexivity.
    + exists k0. repeat split; auto. unfold in_bounds. now rewrite H0l, H0h.
Qed.

(** in particular for inclusive/unbounded ends in the right order *)
Corollary overlaps_with_bounds_spec_incl l h kmin kmax :
  key_le kmin kmax -> key_le l h ->
  (kr_overlaps_bounds kmin kmax (Incl l) (Incl h) = true <->
   exists k, key_le kmin k /\ key_le k kmax /\ in_bounds (Incl l) (Incl h) k = true).
Proof.
  intros Hwf Hlh. apply overlaps_with_bounds_spec; [exact Hwf|].
  exists l. unfold in_bounds. cbn [lo_ok hi_ok]. apply andb_true_iff. split; key_prop.
  - apply key_le_refl.
  - exact Hlh.
Qed.

(** byte strings are not dense: nothing lies strictly between [a] and [a ++ [0]] *)
Lemma key_not_dense a k : key_lt a k -> key_lt k (a ++ [0]) -> False.
Proof.
  unfold key_lt. revert k; induction a as [|x a IH]; intros [|c k]; cbn [app key_cmp];
    try congruence.
  - destruct (N.compare_spec c 0) as [->|Hlt|Hgt]; try congruence; [|lia].
    destruct k; cbn [key_cmp]; congruence.
  - rewrite (N.compare_antisym x c).
    destruct (x ?= c); cbn [CompOpp]; try congruence. apply IH.
Qed.

(** The unconditional "->" direction asked for is FALSE: over-approximation
    (harmless: an overlap test is only used to skip tables).
    (1) bounds in the right order ([1] < [1;0]) but with no key in between; *)
Theorem overlaps_with_bounds_spec_refuted :
  exists lo hi kmin kmax, key_le kmin kmax /\
    kr_overlaps_bounds kmin kmax lo hi = true /\
    ~ exists k, key_le kmin k /\ key_le k kmax /\ in_bounds lo hi k = true.
Proof.
  exists (Excl [1]), (Excl [1;0]), [1], [1;0]. split; [cbv; congruence|].
  split; [vm_compute; reflexivity|].
  intros [k [_ [_ H]]]. unfold in_bounds in H. cbn [lo_ok hi_ok] in H.
  apply andb_true_iff in H as [H1 H2]. key_prop.
  exact (key_not_dense [1] k H1 H2).
Qed.

(** (2) inverted inclusive bounds *)
Theorem overlaps_with_bounds_spec_refuted_inverted :
  exists lo hi kmin kmax, key_le kmin kmax /\
    kr_overlaps_bounds kmin kmax lo hi = true /\
    ~ exists k, key_le kmin k /\ key_le k kmax /\ in_bounds lo hi k = true.
Proof.
  exists (Incl [5]), (Incl [3]), [1], [9]. split; [cbv; congruence|].
  split; [vm_compute; reflexivity|].
  intros [k [_ [_ H]]].
  rewrite (is_empty_spec (Incl [5]) (Incl [3]) eq_refl k) in H. discriminate.
Qed.

(** ** DropRange: the slice picked by range_overlap_indexes *)

Section Lists.
Context {A : Type}.

Fixpoint tw (pred : A -> bool) (l : list A) : list A :=
  match l with [] => [] | x :: l' => if pred x then x :: tw pred l' else [] end.
Fixpoint dw (pred : A -> bool) (l : list A) : list A :=
  match l with [] => [] | x :: l' => if pred x then dw pred l' else l end.

Lemma tw_dw_app pred l : l = tw pred l ++ dw pred l.
Proof. induction l as [|x l IH]; cbn; [reflexivity|]. destruct (pred x); cbn; congruence. Qed.

Lemma pp_length pred l : partition_point pred l = length (tw pred l).
Proof. induction l as [|x l IH]; cbn; [reflexivity|]. destruct (pred x); cbn; congruence. Qed.

Lemma skipn_pp pred l : skipn (partition_point pred l) l = dw pred l.
Proof. induction l as [|x l IH]; cbn; [reflexivity|]. destruct (pred x); cbn; congruence. Qed.

Lemma firstn_pp pred l : firstn (partition_point pred l) l = tw pred l.
Proof. induction l as [|x l IH]; cbn; [reflexivity|]. destruct (pred x); cbn; congruence. Qed.

Lemma tw_incl pred l x : In x (tw pred l) -> In x l.
Proof. intros H. rewrite (tw_dw_app pred l). apply in_or_app. now left. Qed.

Lemma dw_incl pred l x : In x (dw pred l) -> In x l.
Proof. intros H. rewrite (tw_dw_app pred l). apply in_or_app. now right. Qed.

Lemma in_dw pred l x : In x l -> pred x = false -> In x (dw pred l).
Proof.
  induction l as [|y l IH]; cbn; [tauto|]. intros [->|H] Hp.
  - rewrite Hp. now left.
  - destruct (pred y); [auto | now right].
Qed.

Lemma dw_sorted (R : A -> A -> Prop) pred l :
  StronglySorted R l -> StronglySorted R (dw pred l).
Proof.
  induction 1 as [|x l Hs IH Hf]; cbn; [constructor|].
  destruct (pred x); [exact IH | now constructor].
Qed.

Lemma in_tw_sorted (R : A -> A -> Prop) pred l t :
  StronglySorted R l -> In t l -> pred t = true ->
  (forall x, R x t -> pred x = true) -> In t (tw pred l).
Proof.
  intros Hs Hin Hp Hmono. induction Hs as [|x l Hs IH Hf]; cbn in *; [tauto|].
  destruct Hin as [->|Hin].
  - rewrite Hp. now left.
  - rewrite Forall_forall in Hf. rewrite (Hmono x (Hf t Hin)). right. auto.
Qed.

Lemma tw_true l : tw (fun _ => true) l = l.
Proof. induction l; cbn; congruence. Qed.

Lemma pp_false l : partition_point (fun _ : A => false) l = 0%nat.
Proof. now destruct l. Qed.
End Lists.

Definition lo_pred (lo : bound) (x : tinfo) : bool :=
  match lo with
  | Unb => false
  | Incl s => key_ltb (t_max x) s
  | Excl s => key_leb (t_max x) s
  end.
Definition hi_pred (hi : bound) (x : tinfo) : bool :=
  match hi with
  | Unb => true
  | Incl e => key_leb (t_min x) e
  | Excl e => key_ltb (t_min x) e
  end.

Definition overlap_slice (run : list tinfo) (lo hi : bound) : list tinfo :=
  match range_overlap_indexes run lo hi with
  | Some (l, h) => run_get_incl run l h
  | None => []
  end.

(** the index juggling of range_overlap_indexes + get(lo..=hi) is: skip the tables that
    end before the lower bound, then keep the tables that start before the upper bound *)
Lemma overlap_slice_eq run lo hi :
  overlap_slice run lo hi = tw (hi_pred hi) (dw (lo_pred lo) run).
Proof.
  unfold overlap_slice, range_overlap_indexes.
  set (lo_idx := match lo with
                 | Incl s => partition_point (fun x => key_ltb (t_max x) s) run
                 | Excl s => partition_point (fun x => key_leb (t_max x) s) run
                 | Unb => 0%nat end).
  assert (Hlo : lo_idx = partition_point (lo_pred lo) run).
  { unfold lo_idx, lo_pred. destruct lo; try reflexivity. now rewrite pp_false. }
  clearbody lo_idx. subst lo_idx. rewrite skipn_pp.
  pose proof (tw_dw_app (lo_pred lo) run) as Hsplit.
  assert (Hlen : length run = (partition_point (lo_pred lo) run + length (dw (lo_pred lo) run))%nat).
  { rewrite Hsplit at 1. rewrite app_length, <- pp_length. reflexivity. }
  set (B := dw (lo_pred lo) run) in *. set (l := partition_point (lo_pred lo) run) in *.
  destruct (Nat.leb_spec (length run) l) as [Hge|Hlt].
  { assert (length B = 0%nat) as HB by lia. destruct B; [reflexivity | discriminate]. }
  assert (Hskip : skipn l run = B) by apply skipn_pp.
  assert (Hgen : forall ph : tinfo -> bool,
     match
       (let idx := (l + partition_point ph B)%nat in
        if Nat.eqb idx 0 then None else Some (idx - 1)%nat)
     with
     | Some hi_idx => if Nat.ltb hi_idx l then None else Some (l, hi_idx)
     | None => None
     end = None /\ tw ph B = [] \/
     exists h, match
       (let idx := (l + partition_point ph B)%nat in
        if Nat.eqb idx 0 then None else Some (idx - 1)%nat)
     with
     | Some hi_idx => if Nat.ltb hi_idx l then None else Some (l, hi_idx)
     | None => None
     end = Some (l, h) /\ run_get_incl run l h = tw ph B).
  { intros ph. cbv zeta.
    pose proof (pp_length ph B) as Hc. pose proof (firstn_pp ph B) as Hf.
    assert (Hcle : (partition_point ph B <= length B)%nat).
    { rewrite Hc. rewrite (tw_dw_app ph B) at 2. rewrite app_length. lia. }
    set (c := partition_point ph B) in *.
    destruct (Nat.eqb_spec (l + c) 0) as [E0|E0].
    { left. split; [reflexivity|]. destruct (tw ph B); [reflexivity|]. cbn in Hc. lia. }
    destruct (Nat.ltb_spec (l + c - 1) l) as [E1|E1].
    { left. split; [reflexivity|]. destruct (tw ph B); [reflexivity|]. cbn in Hc. lia. }
    right. exists (l + c - 1)%nat. split; [reflexivity|].
    unfold run_get_incl. destruct (Nat.leb_spec (length run) (l + c - 1)) as [E2|E2]; [lia|].
    rewrite Hskip. replace (l + c - 1 - l + 1)%nat with c by lia. exact Hf. }
  cbv zeta in Hgen.
  destruct hi as [e|e|].
  - destruct (Hgen (fun x => key_leb (t_min x) e)) as [[E1 E2]|[h [E1 E2]]]; rewrite E1;
      [symmetry; exact E2 | exact E2].
  - destruct (Hgen (fun x => key_ltb (t_min x) e)) as [[E1 E2]|[h [E1 E2]]]; rewrite E1;
      [symmetry; exact E2 | exact E2].
  - destruct (Nat.ltb_spec (length run - 1) l) as [E1|E1]; [lia|].
    unfold run_get_incl. destruct (Nat.leb_spec (length run) (length run - 1)) as [E2|E2]; [lia|].
    rewrite Hskip. replace (length run - 1 - l + 1)%nat with (length B) by lia.
    rewrite firstn_all. unfold hi_pred. now rewrite tw_true.
Qed.

(** table ranges are well formed, and runs are sorted by [min] (Run::push sorts by it) *)
Definition t_wf (t : tinfo) : Prop := key_le (t_min t) (t_max t).
Definition mins_sorted (run : list tinfo) : Prop :=
  StronglySorted (fun a b => key_le (t_min a) (t_min b)) run.

Lemma contained_in_slice run lo hi t :
  mins_sorted run -> In t run -> t_wf t ->
  bounds_contains lo hi (t_min t) (t_max t) = true ->
  In t (overlap_slice run lo hi).
Proof.
  intros Hs Hin Hwf Hc. rewrite overlap_slice_eq.
  rewrite bounds_contains_eq in Hc. apply andb_true_iff in Hc as [Hl Hh]. unfold t_wf in Hwf.
  eapply in_tw_sorted.
  - apply dw_sorted. exact Hs.
  - apply in_dw; [exact Hin|].
    destruct lo as [s|s|]; cbn [lo_pred lo_ok] in *; [| |reflexivity]; key_prop.
    + eapply key_le_trans; eauto.
    + eapply key_lt_le_trans; eauto.
  - destruct hi as [e|e|]; cbn [hi_pred hi_ok] in *; [| |reflexivity]; key_prop.
    + eapply key_le_trans; eauto.
    + eapply key_le_lt_trans; eauto.
  - intros x Hx. cbv beta in Hx.
    destruct hi as [e|e|]; cbn [hi_pred hi_ok] in *; [| |reflexivity]; key_prop.
    + eapply key_le_trans; [exact Hx|]. eapply key_le_trans; eauto.
    + eapply key_le_lt_trans; [exact Hx|]. eapply key_le_lt_trans; eauto.
Qed.

Lemma drop_range_run_in lo hi run t :
  In t (drop_range_run lo hi run) ->
  In t run /\ bounds_contains lo hi (t_min t) (t_max t) = true.
Proof.
  unfold drop_range_run. fold (overlap_slice run lo hi). rewrite filter_In, overlap_slice_eq.
  intros [H1 H2]. split; [|exact H2]. eapply dw_incl, tw_incl, H1.
Qed.

Lemma drop_range_choose_some lo hi runs hidden ids :
  drop_range_choose lo hi runs hidden = Some ids ->
  ids = map t_id (flat_map (drop_range_run lo hi) runs).
Proof.
  unfold drop_range_choose.
  destruct (existsb _ _); [discriminate|]. now intros [= <-].
Qed.

(** MAIN (soundness): every table DropRange selects lies entirely inside the bounds *)
Theorem drop_range_choose_sound lo hi runs hidden ids id :
  drop_range_choose lo hi runs hidden = Some ids -> In id ids ->
  exists t, In t (concat runs) /\ t_id t = id /\
    forall k, key_le (t_min t) k -> key_le k (t_max t) -> in_bounds lo hi k = true.
Proof.
  intros Hc Hin. apply drop_range_choose_some in Hc. subst ids.
  apply in_map_iff in Hin as [t [Hid Hin]]. apply in_flat_map in Hin as [run [Hrun Hin]].
  apply drop_range_run_in in Hin as [Hin Hcont].
  exists t. split; [|split; [exact Hid|]].
  - apply in_concat. eauto.
  - now apply contains_sound.
Qed.

(** completeness: on sorted runs of well-formed tables nothing contained is missed by the
    binary searches *)
Theorem drop_range_choose_complete lo hi runs hidden ids t :
  Forall mins_sorted runs -> Forall (Forall t_wf) runs ->
  drop_range_choose lo hi runs hidden = Some ids ->
  In t (concat runs) ->
  (forall k, key_le (t_min t) k -> key_le k (t_max t) -> in_bounds lo hi k = true) ->
  In (t_id t) ids.
Proof.
  intros Hs Hwf Hc Hin Hk. apply drop_range_choose_some in Hc. subst ids.
  apply in_concat in Hin as [run [Hrun Hin]].
  rewrite Forall_forall in Hs, Hwf. specialize (Hs run Hrun). specialize (Hwf run Hrun).
  rewrite Forall_forall in Hwf. specialize (Hwf t Hin).
  apply in_map. apply in_flat_map. exists run. split; [exact Hrun|].
  unfold drop_range_run. fold (overlap_slice run lo hi). apply filter_In.
  assert (Hcont : bounds_contains lo hi (t_min t) (t_max t) = true)
    by (apply contains_spec; assumption).
  split; [|exact Hcont]. now apply contained_in_slice.
Qed.

(** the strategy does nothing at all if one selected table is hidden *)
Theorem drop_range_choose_none lo hi runs hidden :
  drop_range_choose lo hi runs hidden = None <->
  exists id, In id (map t_id (flat_map (drop_range_run lo hi) runs)) /\ In id hidden.
Proof.
  unfold drop_range_choose.
  destruct (existsb _ _) eqn:E.
  - split; [intros _|reflexivity]. apply existsb_exists in E as [id [H1 H2]].
    apply existsb_exists in H2 as [h [H2 H3]]. apply N.eqb_eq in H3. subst h. eauto.
  - split; [discriminate|]. intros [id [H1 H2]]. exfalso.
    assert (existsb (fun id0 => existsb (N.eqb id0) hidden)
              (map t_id (flat_map (drop_range_run lo hi) runs)) = true) as H.
    { apply existsb_exists. exists id. split; [exact H1|]. apply existsb_exists.
      exists id. split; [exact H2 | apply N.eqb_refl]. }
    congruence.
Qed.

Corollary tree_drop_range_sound lo hi runs hidden ids id :
  tree_drop_range lo hi runs hidden = Some ids -> In id ids ->
  exists t, In t (concat runs) /\ t_id t = id /\
    forall k, key_le (t_min t) k -> key_le k (t_max t) -> in_bounds lo hi k = true.
Proof.
  unfold tree_drop_range. destruct (bounds_is_empty lo hi); [discriminate|].
  apply drop_range_choose_sound.
Qed.

(** ** replay: src/key_range.rs tests ("key1" = [107;101;121;49]) *)
Definition key_ (c : N) : key := [107;101;121;c].
Example owb_inclusive : kr_overlaps_bounds (key_ 49) (key_ 53) (Incl (key_ 49)) (Incl (key_ 53)) = true.
Proof. vm_compute. reflexivity. Qed.
Example owb_exclusive : kr_overlaps_bounds (key_ 49) (key_ 53) (Excl (key_ 48)) (Excl (key_ 54)) = true.
Proof. vm_compute. reflexivity. Qed.
Example owb_no_overlap : kr_overlaps_bounds (key_ 49) (key_ 53) (Excl (key_ 53)) (Excl (key_ 54)) = false.
Proof. vm_compute. reflexivity. Qed.
Example owb_unbounded : kr_overlaps_bounds (key_ 49) (key_ 53) Unb Unb = true.
Proof. vm_compute. reflexivity. Qed.
Example owb_semi_open_0 : kr_overlaps_bounds (key_ 49) (key_ 53) Unb (Excl (key_ 49)) = false.
Proof. vm_compute. reflexivity. Qed.
Example owb_semi_open_1 : kr_overlaps_bounds (key_ 49) (key_ 53) (Excl (key_ 53)) Unb = false.
Proof. vm_compute. reflexivity. Qed.
Example owb_semi_open_2 : kr_overlaps_bounds (key_ 49) (key_ 53) Unb (Incl (key_ 49)) = true.
Proof. vm_compute. reflexivity. Qed.
Example owb_semi_open_3 : kr_overlaps_bounds (key_ 49) (key_ 53) (Incl (key_ 53)) Unb = true.
Proof. vm_compute. reflexivity. Qed.
Example owb_semi_open_4 : kr_overlaps_bounds (key_ 49) (key_ 53) Unb (Incl (key_ 53)) = true.
Proof. vm_compute. reflexivity. Qed.
Example owb_semi_open_5 : kr_overlaps_bounds (key_ 49) (key_ 53) Unb (Incl (key_ 54)) = true.
Proof. vm_compute. reflexivity. Qed.
Example owb_semi_open_6 : kr_overlaps_bounds (key_ 49) (key_ 53) (Incl (key_ 48)) Unb = true.
Proof. vm_compute. reflexivity. Qed.
Example owb_semi_open_7 : kr_overlaps_bounds (key_ 53) (key_ 56) Unb (Excl (key_ 54)) = true.
Proof. vm_compute. reflexivity. Qed.

Example key_range_contains_key :
  map (kr_contains_key (key_ 49) (key_ 53))
    [key_ 48; key_ 48 ++ [49]; key_ 49; key_ 50; key_ 51; key_ 52; key_ 52 ++ [120];
     key_ 53; key_ 53 ++ [120]; key_ 54]
  = [false; false; true; true; true; true; true; true; false; false].
Proof. vm_compute. reflexivity. Qed.

Example key_range_overlap : kr_overlaps_kr [97] [102] [98] [104] = true.
Proof. vm_compute. reflexivity. Qed.
Example key_range_overlap_edge : kr_overlaps_kr [97] [102] [102] [116] = true.
Proof. vm_compute. reflexivity. Qed.
Example key_range_no_overlap : kr_overlaps_kr [97] [102] [103] [116] = false.
Proof. vm_compute. reflexivity. Qed.

(** src/version/run.rs: run_range_culling (a-d, e-j, k-o, p-z) *)
Definition run4 : list tinfo :=
  [mkT 0 [97] [100]; mkT 1 [101] [106]; mkT 2 [107] [111]; mkT 3 [112] [122]].
Example run_range_culling :
  range_overlap_indexes run4 Unb Unb = Some (0, 3)%nat /\
  range_overlap_indexes run4 (Incl [97]) (Incl [97]) = Some (0, 0)%nat /\
  range_overlap_indexes run4 (Incl [100]) (Incl [100]) = Some (0, 0)%nat /\
  range_overlap_indexes run4 (Incl [97]) (Excl [100]) = Some (0, 0)%nat /\
  range_overlap_indexes run4 (Incl [97]) (Incl [103]) = Some (0, 1)%nat /\
  range_overlap_indexes run4 (Incl [106]) (Incl [106]) = Some (1, 1)%nat /\
  range_overlap_indexes run4 (Incl [97]) (Incl [122]) = Some (0, 3)%nat /\
  range_overlap_indexes run4 (Incl [122]) (Incl [122;122;122]) = Some (3, 3)%nat /\
  range_overlap_indexes run4 (Incl [122]) Unb = Some (3, 3)%nat /\
  range_overlap_indexes run4 (Incl [122;122;122]) (Incl [122;122;122;122]) = None.
Proof. vm_compute. repeat split; reflexivity. Qed.

(** tests/tree_drop_range.rs: five single-key tables "a".."e" in one L0 run *)
Definition run5 : list tinfo :=
  [mkT 0 [97] [97]; mkT 1 [98] [98]; mkT 2 [99] [99]; mkT 3 [100] [100]; mkT 4 [101] [101]].
Example run5_hyps : mins_sorted run5 /\ Forall t_wf run5.
Proof.
  split.
  - unfold mins_sorted, run5. repeat (constructor; [|repeat constructor; cbv; congruence]).
    constructor.
  - repeat constructor; cbv; congruence.
Qed.
Example tree_drop_range_basic :
  tree_drop_range (Incl [97]) (Incl [99]) [run5] [] = Some [0;1;2].
Proof. vm_compute. reflexivity. Qed.
Example tree_drop_range_partial_table_overlap_kept :
  tree_drop_range (Incl [98]) (Excl [100]) [[mkT 0 [97] [101]]] [] = Some [].
Proof. vm_compute. reflexivity. Qed.
Example tree_drop_range_upper_exclusive :
  tree_drop_range (Incl [97]) (Excl [100]) [run5] [] = Some [0;1;2].
Proof. vm_compute. reflexivity. Qed.
Example tree_drop_range_lower_exclusive :
  tree_drop_range (Excl [97]) (Incl [99]) [run5] [] = Some [1;2].
Proof. vm_compute. reflexivity. Qed.
Example tree_drop_range_unbounded_lower_exclusive_upper :
  tree_drop_range Unb (Excl [100]) [run5] [] = Some [0;1;2].
Proof. vm_compute. reflexivity. Qed.
Example tree_drop_range_exclusive_empty_interval :
  tree_drop_range (Excl [98]) (Excl [98]) [run5] [] = Some [].
Proof. vm_compute. reflexivity. Qed.
Example tree_drop_range_unbounded_upper :
  tree_drop_range (Incl [99]) Unb [run5] [] = Some [2;3;4].
Proof. vm_compute. reflexivity. Qed.
Example tree_drop_range_clear_all :
  tree_drop_range Unb Unb [run5] [] = Some [0;1;2;3;4].
Proof. vm_compute. reflexivity. Qed.
Example tree_drop_range_inverted_bounds_is_noop :
  tree_drop_range (Incl [99]) (Excl [97]) [run5] [] = None /\
  tree_drop_range (Incl [99]) (Incl [97]) [run5] [] = None.
Proof. vm_compute. split; reflexivity. Qed.
Example tree_drop_range_hidden :
  tree_drop_range (Incl [97]) (Incl [99]) [run5] [1] = None.
Proof. vm_compute. reflexivity. Qed.

Print Assumptions contains_sound.
Print Assumptions contains_spec.
Print Assumptions is_empty_spec.
Print Assumptions overlaps_with_bounds_complete.
Print Assumptions overlaps_with_bounds_exact.
Print Assumptions overlaps_with_bounds_spec.
Print Assumptions overlaps_with_bounds_spec_refuted.
Print Assumptions overlaps_with_bounds_spec_refuted_inverted.
Print Assumptions drop_range_choose_sound.
Print Assumptions drop_range_choose_complete.
Print Assumptions drop_range_choose_none.
