(** C11: a cache that only returns what was inserted under a key never changes what a read
    sees - whatever its capacity, eviction policy, or which other trees share it. *)
From LsmV Require Import Model.Cache.
From Coq Require Import List NArith Bool Lia.
Import ListNotations.
Open Scope N_scope.

Lemma ckey_eqb_eq a b : ckey_eqb a b = true <-> a = b.
Proof.
  unfold ckey_eqb. rewrite !andb_true_iff, !N.eqb_eq. destruct a, b; simpl. split.
  - intros [[[-> ->] ->] ->]; reflexivity.
  - intros E; inversion E; auto.
Qed.

(** the cache key determines tag, tree, file and offset: two different trees (or a table
    and a blob file, or two offsets) never share a key *)
Theorem cache_key_injective : forall t1 r1 f1 o1 t2 r2 f2 o2,
  mkCK t1 r1 f1 o1 = mkCK t2 r2 f2 o2 <-> t1 = t2 /\ r1 = r2 /\ f1 = f2 /\ o1 = o2.
Proof. intros. split; [intros E; inversion E; auto | intros (-> & -> & -> & ->); reflexivity]. Qed.

(** every binding holds what the file holds at that key *)
Definition coherent (c : cache) (d : disk) : Prop :=
  Forall (fun kb => snd kb = d (fst kb)) c.

Lemma coherent_nil d : coherent [] d.
Proof. constructor. Qed.

Lemma coherent_insert c d k : coherent c d -> coherent (cache_insert c k (d k)) d.
Proof. intros C. constructor; [reflexivity | exact C]. Qed.

(** eviction of ANY set of bindings keeps coherence (capacity 0 = evict everything) *)
Lemma coherent_filter c d (f : ckey * block -> bool) : coherent c d -> coherent (filter f c) d.
Proof.
  intros C. induction c as [|kb c IH]; simpl; [constructor|].
  inversion C as [|? ? H1 H2]; subst. destruct (f kb).
  - constructor; [exact H1 | exact (IH H2)].
  - exact (IH H2).
Qed.

Lemma coherent_get c d k b : coherent c d -> cache_get c k = Some b -> b = d k.
Proof.
  intros C. induction c as [|[k' b'] c IH]; simpl; [discriminate|].
  pose proof (Forall_inv C) as A1. pose proof (Forall_inv_tail C) as A2. simpl in A1.
  destruct (ckey_eqb k' k) eqn:E.
  - apply ckey_eqb_eq in E. subst. intros H; inversion H; subst. reflexivity.
  - now apply IH.
Qed.

(** a load through a coherent cache returns exactly the file's block and leaves the cache
    coherent *)
Theorem load_correct c d k :
  coherent c d -> fst (load c d k) = d k /\ coherent (snd (load c d k)) d.
Proof.
  intros C. unfold load. destruct (cache_get c k) as [b|] eqn:G; simpl.
  - split; [eapply coherent_get; eauto | exact C].
  - split; [reflexivity | now apply coherent_insert].
Qed.

(** any sequence of loads, with arbitrary evictions in between, starting from ANY coherent
    cache (in particular one filled by other trees), reads exactly what the files hold:
    results are independent of cache capacity, policy and sharing *)
Theorem loads_independent : forall ks c d keep,
  coherent c d -> loads c d keep ks = map d ks.
Proof.
  induction ks as [|k ks IH]; intros c d keep C; simpl; [reflexivity|].
  set (c1 := match keep with f :: _ => filter (fun kb => f (fst kb)) c | [] => c end).
  assert (C1 : coherent c1 d).
  { unfold c1. destruct keep; [exact C | now apply coherent_filter]. }
  destruct (load_correct c1 d k C1) as [L1 L2].
  destruct (load c1 d k) as [b c2] eqn:E. simpl in *. subst b.
  f_equal. now apply IH.
Qed.

Corollary loads_cache_irrelevant : forall ks c c' d keep keep',
  coherent c d -> coherent c' d -> loads c d keep ks = loads c' d keep' ks.
Proof. intros. rewrite !loads_independent; auto. Qed.

(** two trees sharing one cache: the union "disk" is a function of the key because tree
    ids differ; whatever tree 2 inserted, tree 1 reads its own blocks *)
Definition union_disk (t1 : N) (d1 d2 : disk) : disk :=
  fun k => if ck_tree k =? t1 then d1 k else d2 k.

Theorem shared_cache_isolated : forall t1 d1 d2 c keep ks,
  coherent c (union_disk t1 d1 d2) ->
  (forall k, In k ks -> ck_tree k = t1) ->
  loads c (union_disk t1 d1 d2) keep ks = map d1 ks.
Proof.
  intros t1 d1 d2 c keep ks C T. rewrite loads_independent by assumption.
  apply map_ext_in. intros k HI. unfold union_disk. rewrite (T k HI), N.eqb_refl. reflexivity.
Qed.

Example cache_example :
  let d : disk := fun k => [ck_tree k; ck_file k; ck_off k] in
  let k1 := mkCK 0 1 7 0 in let k2 := mkCK 0 2 7 0 in
  loads [] d [fun _ => true; fun _ => false; fun _ => true] [k1; k2; k1; k2]
  = [[1; 7; 0]; [2; 7; 0]; [1; 7; 0]; [2; 7; 0]].
Proof. vm_compute. reflexivity. Qed.
