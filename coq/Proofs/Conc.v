(** Property C06: invariants of the interleaving model (Model/Conc.v) that hold for EVERY
    schedule.  See the summary at the end of the file for the list of main theorems. *)
From LsmV Require Import Model.Conc Proofs.Newest Proofs.Lookup Proofs.Snapshot Proofs.Stream.
From Coq Require Import Permutation Sorting.Sorted Lia.
Open Scope N_scope.

Arguments N.add : simpl never.
Arguments N.sub : simpl never.
Arguments N.mul : simpl never.
Arguments N.ltb : simpl never.
Arguments N.leb : simpl never.
Arguments N.eqb : simpl never.
Arguments N.max : simpl never.
Arguments N.min : simpl never.

(** * A. Lists *)

Lemma set_nth_length {A} i (x : A) l : length (set_nth i x l) = length l.
Proof. revert i; induction l as [|y l IH]; intros [|i]; cbn; auto. Qed.

Lemma nth_set_nth_eq {A} i (x : A) l t :
  nth_error l i = Some t -> nth_error (set_nth i x l) i = Some x.
Proof. revert i; induction l as [|y l IH]; intros [|i]; cbn; try discriminate; auto. Qed.

Lemma nth_set_nth_neq {A} i j (x : A) l :
  i <> j -> nth_error (set_nth i x l) j = nth_error l j.
Proof.
  revert i j; induction l as [|y l IH]; intros [|i] [|j] H; cbn; auto; try congruence.
Qed.

Lemma nth_set_nth_inv {A} i j (x : A) l u :
  nth_error (set_nth i x l) j = Some u -> (j = i /\ u = x) \/ (j <> i /\ nth_error l j = Some u).
Proof.
  intros H. destruct (PeanoNat.Nat.eq_dec j i) as [->|NE].
  - left. split; [reflexivity|].
    destruct (nth_error l i) as [t|] eqn:E.
    + rewrite (nth_set_nth_eq _ _ _ _ E) in H. congruence.
    + exfalso. apply nth_error_None in E.
      assert (nth_error (set_nth i x l) i = None) as E'
          by (apply nth_error_None; rewrite set_nth_length; exact E).
      congruence.
  - right. split; [exact NE|]. rewrite nth_set_nth_neq in H; auto.
Qed.

Lemma mem_in_iff x l : mem_in x l = true <-> In x l.
Proof.
  unfold mem_in. rewrite existsb_exists. split.
  - intros (y & HI & E). apply N.eqb_eq in E. subst. exact HI.
  - intros HI. exists x. split; [exact HI|apply N.eqb_refl].
Qed.

Lemma mem_in_false x l : mem_in x l = false <-> ~ In x l.
Proof. rewrite <- mem_in_iff. destruct (mem_in x l); split; congruence. Qed.

Lemma FOP_app {A} (R : A -> A -> Prop) a b :
  ForallOrdPairs R (a ++ b) <->
  ForallOrdPairs R a /\ ForallOrdPairs R b /\ (forall x y, In x a -> In y b -> R x y).
Proof.
  induction a as [|z a IH]; cbn [app].
  - split; [intros H; repeat split; [constructor|exact H|intros x y []] | intros (_ & H & _); exact H].
  - split.
    + intros H. inversion H as [|? ? FA FO]; subst. apply IH in FO. destruct FO as (Fa & Fb & Fab).
      rewrite Forall_forall in FA. repeat split.
      * constructor; [|exact Fa]. rewrite Forall_forall. intros y Hy. apply FA, in_or_app; auto.
      * exact Fb.
      * intros x y [<-|Hx] Hy; [apply FA, in_or_app; auto | auto].
    + intros (Fa & Fb & Fab). inversion Fa as [|? ? FA FO]; subst. constructor.
      * rewrite Forall_forall in *. intros y Hy. apply in_app_or in Hy.
        destruct Hy as [Hy|Hy]; [auto | apply Fab; [now left|exact Hy]].
      * apply IH. repeat split; auto. intros x y Hx Hy. apply Fab; [now right|exact Hy].
Qed.

Lemma FOP_filter {A} (R : A -> A -> Prop) p l :
  ForallOrdPairs R l -> ForallOrdPairs R (filter p l).
Proof.
  induction 1 as [|x l FA FO IH]; cbn [filter]; [constructor|].
  destruct (p x); [|exact IH]. constructor; [|exact IH].
  rewrite Forall_forall in *. intros y Hy. apply filter_In in Hy. apply FA, Hy.
Qed.

Lemma FOP_map {A B} (R : B -> B -> Prop) (f : A -> B) l :
  ForallOrdPairs R (map f l) <-> ForallOrdPairs (fun x y => R (f x) (f y)) l.
Proof.
  induction l as [|x l IH]; cbn [map]; [split; constructor|].
  split; intros H; inversion H as [|? ? FA FO]; subst; constructor.
  - rewrite Forall_forall in *. intros y Hy. apply FA. now apply in_map.
  - now apply IH.
  - rewrite Forall_forall in *. intros y Hy. apply in_map_iff in Hy.
    destruct Hy as (z & <- & Hz). auto.
  - now apply IH.
Qed.

Lemma concat_map_filter {A} (p : A -> bool) (ll : list (list A)) :
  concat (map (filter p) ll) = filter p (concat ll).
Proof.
  induction ll as [|l ll IH]; [reflexivity|]. cbn [map concat]. rewrite filter_app, IH. reflexivity.
Qed.

Lemma filter_filter_comm {A} (p q : A -> bool) l : filter p (filter q l) = filter q (filter p l).
Proof.
  induction l as [|x l IH]; [reflexivity|]. cbn [filter].
  destruct (q x) eqn:Q, (p x) eqn:P; cbn [filter]; rewrite ?Q, ?P, IH; reflexivity.
Qed.

Lemma perm_filter_split {A} (p : A -> bool) l :
  Permutation l (filter p l ++ filter (fun x => negb (p x)) l).
Proof.
  induction l as [|x l IH]; [constructor|]. cbn [filter]. destruct (p x); cbn [negb app].
  - now constructor.
  - eapply perm_trans; [apply perm_skip; exact IH|]. apply Permutation_middle.
Qed.

(** * B. The memtable store *)

Lemma mt_insert_nil e : mt_insert e [] = [e].
Proof. reflexivity. Qed.

Lemma heap_get_ins h id e id' :
  heap_get (heap_ins h id e) id' =
  if id =? id' then mt_insert e (heap_get h id) else heap_get h id'.
Proof.
  induction h as [|[i l] h IH].
  - cbn [heap_ins heap_get]. destruct (id =? id') eqn:E; reflexivity.
  - cbn [heap_ins]. destruct (i =? id) eqn:E1.
    + apply N.eqb_eq in E1. subst i. cbn [heap_get]. rewrite N.eqb_refl.
      destruct (id =? id') eqn:E2; reflexivity.
    + cbn [heap_get]. rewrite E1. destruct (i =? id') eqn:E2.
      * apply N.eqb_eq in E2. subst i. rewrite N.eqb_sym in E1. rewrite E1. reflexivity.
      * exact IH.
Qed.

Lemma heap_get_ins_same h id e : heap_get (heap_ins h id e) id = mt_insert e (heap_get h id).
Proof. rewrite heap_get_ins, N.eqb_refl. reflexivity. Qed.

Lemma heap_get_ins_other h id e id' : id <> id' -> heap_get (heap_ins h id e) id' = heap_get h id'.
Proof. intros H. rewrite heap_get_ins. apply N.eqb_neq in H. rewrite H. reflexivity. Qed.

(** * C. Sortedness and [newest] *)

Lemma ssorted_eq l : ssorted l = sorted_b l.
Proof.
  induction l as [|e l IH]; [reflexivity|]. destruct l as [|e' l]; [reflexivity|].
  change (ikey_ltb e e' && ssorted (e' :: l) = ikey_ltb e e' && sorted_b (e' :: l)).
  rewrite IH. reflexivity.
Qed.

Lemma mt_insert_ssorted e l :
  ssorted l = true -> (forall x, In x l -> seq x < seq e) -> ssorted (mt_insert e l) = true.
Proof.
  induction l as [|y l IH]; intros HS H; cbn [mt_insert]; [reflexivity|].
  destruct (ikey_ltb e y) eqn:C1.
  - apply ssorted_cons. split; [|exact HS]. constructor; [exact C1|].
    apply ssorted_cons in HS. destruct HS as [FA _].
    eapply Forall_impl; [|exact FA]. intros z Hz. eapply ikey_ltb_trans; eauto.
  - destruct (ikey_ltb y e) eqn:C2.
    + apply ssorted_cons in HS. destruct HS as [FA HS].
      apply ssorted_cons. split.
      * rewrite Forall_forall in *. intros z Hz. apply In_mt_insert in Hz.
        destruct Hz as [->|Hz]; auto.
      * apply IH; auto. intros x Hx. apply H. now right.
    + exfalso. destruct (ikey_neither _ _ C1 C2) as [_ Es].
      specialize (H y (or_introl eq_refl)). lia.
Qed.

(** an entry newer than everything else decides, wherever a permutation puts it *)
Lemma newest_top_perm k S e l l' :
  Permutation l' (e :: l) -> uniq l' -> (forall x, In x l -> seq x < seq e) ->
  newest k S l' = if matches k S e then Some e else newest k S l.
Proof.
  intros P U H. rewrite (newest_perm k S l' (e :: l) U P). cbn [newest].
  destruct (matches k S e); [|reflexivity].
  destruct (newest k S l) as [r|] eqn:R; [|reflexivity].
  destruct (newest_some _ _ _ _ R) as [RI _]. specialize (H r RI).
  apply N.ltb_lt in H. rewrite H. reflexivity.
Qed.

Lemma newest_snoc_top k S e l :
  (forall x, In x l -> seq x < seq e) ->
  newest k S (l ++ [e]) = if matches k S e then Some e else newest k S l.
Proof.
  induction l as [|y l IH]; intros H; cbn [app newest].
  - destruct (matches k S e); reflexivity.
  - rewrite IH by (intros x Hx; apply H; now right).
    destruct (matches k S y) eqn:My; [|reflexivity].
    destruct (matches k S e) eqn:Me.
    + assert (seq e <? seq y = false) as -> by (apply N.ltb_ge; specialize (H y (or_introl eq_refl)); lia).
      reflexivity.
    + reflexivity.
Qed.

(** * D. What the compaction stream guarantees (beyond Proofs/Stream.v) *)

Lemma emit_dec_false_evict W evict h rest :
  is_weak_tomb h = false -> fst (emit_dec W evict h rest) = false -> evict = true.
Proof.
  intros NW. unfold emit_dec. destruct rest as [|p r].
  - cbn [fst]. intros H. apply negb_false_iff, andb_true_iff in H. apply H.
  - destruct (key_ltb (ukey h) (ukey p)).
    + cbn [fst]. intros H. apply negb_false_iff, andb_true_iff in H. apply H.
    + destruct (seq p <? W); [|discriminate].
      destruct (is_strong_tomb h && evict) eqn:SE.
      * intros _. apply andb_true_iff in SE. apply SE.
      * rewrite NW, andb_false_r. discriminate.
Qed.

(** the newest version of a key survives the stream, unless it is a tombstone that is
    evicted, and then NO version of the key survives (no weak tombstones, no filter) *)
Lemma top_strong W evict k S : forall l dr,
  ssorted l = true -> dr_ok dr l -> dr_nok k dr l ->
  (forall e, In e l -> ukey e = k -> seq e < S) ->
  (forall x, In x l -> ukey x = k -> is_weak_tomb x = false) ->
  newest k S (outs W evict no_filter dr l) = newest k S l
  \/ (evict = true /\ (exists t, newest k S l = Some t /\ is_tomb t = true)
      /\ forall h, In h (outs W evict no_filter dr l) -> ukey h <> k).
Proof.
  induction l as [|e rest IH]; intros dr HS OK ND HSn NW; [left; reflexivity|].
  pose proof (ssorted_tail _ _ HS) as HS'.
  assert (forall x, In x rest -> ukey x = k -> seq x < S) as HSn'
      by (intros x HI; apply HSn; now right).
  assert (forall x, In x rest -> ukey x = k -> is_weak_tomb x = false) as NW'
      by (intros x HI; apply NW; now right).
  rewrite outs_cons.
  destruct (draining evict dr e) eqn:D.
  - assert (ukey e <> k) as NE.
    { destruct dr as [|k'|]; [discriminate| |exact ND].
      apply draining_key in D. cbn in ND. congruence. }
    rewrite (newest_cons_nokey k S e rest NE).
    apply (IH (after_drop dr) HS' (dr_ok_tail _ _ _ OK) (dr_nok_after _ _ _ _ ND) HSn' NW').
  - rewrite apply_filter_no_filter. cbn [fst].
    destruct (emit_dec_inv W evict e e rest HS eq_refl) as (OK' & _ & DN).
    destruct (key_eq_dec (ukey e) k) as [E|NE].
    + assert (newest k S (e :: rest) = Some e) as R.
      { apply newest_head; [exact E | apply HSn; auto; now left |].
        intros x XI Xk. eapply ssorted_same_key_seq; eauto. congruence. }
      rewrite R.
      destruct (fst (emit_dec W evict e rest)) eqn:B; unfold olist; cbn [app].
      * left. apply newest_head; [exact E | apply HSn; auto; now left |].
        intros x XI Xk.
        destruct (subik_in _ _ _ (outs_subik W evict no_filter rest _) XI) as (y & YI & Yk & Ys).
        rewrite Ys. eapply ssorted_same_key_seq; eauto. congruence.
      * right.
        assert (is_weak_tomb e = false) as NWe by (apply NW; [now left|exact E]).
        pose proof (emit_dec_false_evict _ _ _ _ NWe B) as Hev.
        destruct (emit_dec_false W evict e e rest HS eq_refl B) as [TB Hno].
        split; [exact Hev|]. split; [exists e; auto|].
        destruct Hno as [[Hd _]|[Hgt|[_ Hw]]].
        -- intros x XI. rewrite Hd in XI, OK'. subst evict. rewrite <- E.
           eapply drain_no_key; eauto.
        -- intros x XI.
           destruct (subik_in _ _ _ (outs_subik W evict no_filter rest _) XI) as (y & YI & Yk & _).
           specialize (Hgt y YI). intros Xk. rewrite <- Yk, Xk, E in Hgt.
           now apply key_lt_irrefl in Hgt.
        -- congruence.
    + rewrite (newest_cons_nokey k S e rest NE).
      assert (dr_nok k (snd (emit_dec W evict e rest)) rest) as ND'.
      { destruct (emit_dec_dr W evict e rest) as [Hd|[Hd|Hd]]; rewrite Hd; cbn; auto.
        destruct (DN Hd) as (_ & p & r & -> & Ep & _). congruence. }
      destruct (IH (snd (emit_dec W evict e rest)) HS' OK' ND' HSn' NW') as [L|(Hev & Ht & Hno)].
      * left. rewrite <- L. unfold olist.
        destruct (fst (emit_dec W evict e rest)); cbn [app]; [|reflexivity].
        apply newest_cons_nokey. exact NE.
      * right. split; [exact Hev|]. split; [exact Ht|].
        intros x XI. apply in_app_or in XI. destruct XI as [XI|XI]; [|auto].
        unfold olist in XI. destruct (fst (emit_dec W evict e rest)); [|contradiction].
        destruct XI as [<-|[]]. exact NE.
Qed.

Definition no_weak (l : list entry) : Prop := forall e, In e l -> is_weak_tomb e = false.

(** the three facts about a stream run that the protocol proof uses *)
Lemma stream_facts W evict l :
  ssorted l = true -> no_weak l ->
  let out := fst (run_stream W evict no_filter l) in
  incl out l /\ ssorted out = true /\
  forall k S, (forall e, In e l -> ukey e = k -> seq e < S) ->
    newest k S out = newest k S l
    \/ (evict = true /\ (exists t, newest k S l = Some t /\ is_tomb t = true)
        /\ forall h, In h out -> ukey h <> k).
Proof.
  intros HS NW out.
  destruct (run_stream W evict no_filter l) as [o lg] eqn:R. subst out. cbn [fst].
  split; [|split].
  - intros x. eapply cstream_out_in; eauto.
  - eapply cstream_out_sorted; eauto.
  - intros k S HSn. apply run_stream_outs in R. destruct R as [-> _].
    apply top_strong; cbn; auto.
Qed.

(** merge of sources whose internal keys are pairwise distinct *)
Lemma merge_facts srcs :
  NoDup (map ik (concat srcs)) ->
  ssorted (merge_sorted srcs) = true /\ Permutation (merge_sorted srcs) (concat srcs).
Proof.
  intros ND. split; [now apply merge_sorted_sorted_nodup | apply merge_sorted_perm].
Qed.
