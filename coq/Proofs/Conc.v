(** Property C06: invariants of the interleaving model (Model/Conc.v) that hold for EVERY
    schedule.  Summary of the main theorems: section R at the end of the file.

    WHAT IS PROVED.  For every writer program (inserts and strong deletes), every set of
    reader / rotator / flusher / minor-compactor / major-compactor threads and every
    schedule, as long as no minor compaction strategy has violated [strategy_ok]
    (flag [c_bad]; a major compaction never does: [major_never_bad]):
    (1) the invariant [CInv] holds ([C06_CInv]): history well formed, hidden-set
        discipline, no acknowledged write lost, no memtable flushed twice or lost
        ([C06_inv_history], [C06_inv_hidden], [C06_inv_writes], [C06_inv_flusher]);
    (2) every read at a clean snapshot (no seqno below it drawn but not inserted; in
        particular every snapshot the WRITER has published: [C06_published_clean]) returns
        the Spec's value over the writes of the run ([C06_reads], [C06_reads_prog]);
    (3) no `expect` fires ([C06_no_stuck]);
    (4) after all threads have finished the latest superversion reads last-write-wins over
        the whole program, and two schedules agree ([C06_final], [C06_schedule_independent]).
    FALSE of the model (machine-checked witnesses): (2) without cleanness
    ([C06_reads_unclean_refuted]: [upgrade_version] publishes a seqno the writer has drawn
    but not inserted yet), and safety without [strategy_ok] ([ConcExample.bad_strategy],
    [ConcExample.same_dest_race]).

    [strategy_ok] (the [choice_ok] of the task, Model/Conc.v section 5): ids distinct,
    1 <= dest < 7, (D) inputs at levels <= dest, (P2) every other table above dest newer than
    the inputs per shared key, (P3) inputs newer than every other table at level >= dest,
    (P4) with tombstone eviction no shared key with other tables at level >= dest, (PW) two
    in-flight compactions with the SAME destination do not share a key between the inputs
    one has at that level and the inputs of the other.  [CompatV] is its Prop form against
    the CURRENT version; [compat_after] + [compat_merge_cond] show that it survives flushes
    and the installs of the other compactions, [merge_install] (= [with_merge_commutes])
    that it is all K3 needs.

    THE CONTENT-LEVEL ABSTRACTION and the concrete facts that discharge it:
    - a version is the list, per level, of its tables in lookup order.  For the concrete
      [with_merge] / [with_new_l0_run] of Model/Version.v the tables of the result are a
      permutation of (kept tables ++ new tables) level by level (Proofs/Version.v:
      [optimize_runs_perm], [vs_pre_levels_tables]); [optimize_runs] keeps the relative
      order of any two tables whose key ranges overlap ([optimize_runs_order]) and tables
      with disjoint key ranges share no key ([vs_no_overlap_newer]), so neither the recency
      order nor the first-hit lookup depends on the reshuffling ([optimize_runs_recency]).
      [with_merge_inv_iff]: [version_inv] is preserved iff [merge_choice_ok], whose
      [place_ok v ids new dest] is exactly [cv_above] / [cv_below] of [CompatV] for the
      OUTPUT tables, which is what [merge_install] derives from the condition on the inputs.
    - one output table per flush / merge stands for the run of key-disjoint tables the
      MultiWriter produces (same entries, same position).
    - [cget] = first container in lookup order with a visible version, [slab_get] inside a
      container: Proofs/Lookup.v [sv_get_raw_sound] shows the real path (key-range
      culling, seqno short cut, Bloom filter) computes the same thing under [check_inv_sv].
    - [cvfs] / [cmaint] are History.v's [version_for_snapshot] / [maintenance]
      ([cvfs_is_version_for_snapshot], [cmaint_is_maintenance]).
    - the compaction stream and the merger are the real models (Model/Stream.v); section D
      proves the one fact about them that Proofs/Stream.v does not state ([top_strong]).
    NOT modelled: [Choice::Move] / [Choice::Drop] (drop_range), [clear], ingestion, I/O
    errors (the un-hide paths), blob files, weak tombstones, several writers. *)
From LsmV Require Import Model.Conc Proofs.Newest Proofs.Lookup Proofs.Snapshot Proofs.Stream.
From Coq Require Import Permutation Sorting.Sorted Lia.
Open Scope N_scope.

Arguments N.add : simpl never.
Arguments N.sub : simpl never.
Arguments N.mul : simpl never.
Arguments N.ltb : simpl never.
Arguments N.leb : simpl never.
Arguments N.eqb : simpl never.
Arguments N.max : simpl never.
Arguments N.min : simpl never.

(** * A. Lists *)

Lemma set_nth_length {A} i (x : A) l : length (set_nth i x l) = length l.
Proof. revert i; induction l as [|y l IH]; intros [|i]; cbn; auto. Qed.

Lemma nth_set_nth_eq {A} i (x : A) l t :
  nth_error l i = Some t -> nth_error (set_nth i x l) i = Some x.
Proof. revert i; induction l as [|y l IH]; intros [|i]; cbn; try discriminate; auto. Qed.

Lemma nth_set_nth_neq {A} i j (x : A) l :
  i <> j -> nth_error (set_nth i x l) j = nth_error l j.
Proof.
  revert i j; induction l as [|y l IH]; intros [|i] [|j] H; cbn; auto; try congruence.
Qed.

Lemma nth_set_nth_inv {A} i j (x : A) l u :
  nth_error (set_nth i x l) j = Some u -> (j = i /\ u = x) \/ (j <> i /\ nth_error l j = Some u).
Proof.
  intros H. destruct (PeanoNat.Nat.eq_dec j i) as [->|NE].
  - left. split; [reflexivity|].
    destruct (nth_error l i) as [t|] eqn:E.
    + rewrite (nth_set_nth_eq _ _ _ _ E) in H. congruence.
    + exfalso. apply nth_error_None in E.
      assert (nth_error (set_nth i x l) i = None) as E'
          by (apply nth_error_None; rewrite set_nth_length; exact E).
      congruence.
  - right. split; [exact NE|]. rewrite nth_set_nth_neq in H; auto.
Qed.

Lemma mem_in_iff x l : mem_in x l = true <-> In x l.
Proof.
  unfold mem_in. rewrite existsb_exists. split.
  - intros (y & HI & E). apply N.eqb_eq in E. subst. exact HI.
  - intros HI. exists x. split; [exact HI|apply N.eqb_refl].
Qed.

Lemma mem_in_false x l : mem_in x l = false <-> ~ In x l.
Proof. rewrite <- mem_in_iff. destruct (mem_in x l); split; congruence. Qed.

Lemma FOP_app {A} (R : A -> A -> Prop) a b :
  ForallOrdPairs R (a ++ b) <->
  ForallOrdPairs R a /\ ForallOrdPairs R b /\ (forall x y, In x a -> In y b -> R x y).
Proof.
  induction a as [|z a IH]; cbn [app].
  - split; [intros H; repeat split; [constructor|exact H|intros x y []] | intros (_ & H & _); exact H].
  - split.
    + intros H. inversion H as [|? ? FA FO]; subst. apply IH in FO. destruct FO as (Fa & Fb & Fab).
      rewrite Forall_forall in FA. repeat split.
      * constructor; [|exact Fa]. rewrite Forall_forall. intros y Hy. apply FA, in_or_app; auto.
      * exact Fb.
      * intros x y [<-|Hx] Hy; [apply FA, in_or_app; auto | auto].
    + intros (Fa & Fb & Fab). inversion Fa as [|? ? FA FO]; subst. constructor.
      * rewrite Forall_forall in *. intros y Hy. apply in_app_or in Hy.
        destruct Hy as [Hy|Hy]; [auto | apply Fab; [now left|exact Hy]].
      * apply IH. repeat split; auto. intros x y Hx Hy. apply Fab; [now right|exact Hy].
Qed.

Lemma FOP_filter {A} (R : A -> A -> Prop) p l :
  ForallOrdPairs R l -> ForallOrdPairs R (filter p l).
Proof.
  induction 1 as [|x l FA FO IH]; cbn [filter]; [constructor|].
  destruct (p x); [|exact IH]. constructor; [|exact IH].
  rewrite Forall_forall in *. intros y Hy. apply filter_In in Hy. apply FA, Hy.
Qed.

Lemma FOP_map {A B} (R : B -> B -> Prop) (f : A -> B) l :
  ForallOrdPairs R (map f l) <-> ForallOrdPairs (fun x y => R (f x) (f y)) l.
Proof.
  induction l as [|x l IH]; cbn [map]; [split; constructor|].
  split; intros H; inversion H as [|? ? FA FO]; subst; constructor.
  - rewrite Forall_forall in *. intros y Hy. apply FA. now apply in_map.
  - now apply IH.
  - rewrite Forall_forall in *. intros y Hy. apply in_map_iff in Hy.
    destruct Hy as (z & <- & Hz). auto.
  - now apply IH.
Qed.

Lemma concat_map_filter {A} (p : A -> bool) (ll : list (list A)) :
  concat (map (filter p) ll) = filter p (concat ll).
Proof.
  induction ll as [|l ll IH]; [reflexivity|]. cbn [map concat]. rewrite filter_app, IH. reflexivity.
Qed.

Lemma filter_filter_comm {A} (p q : A -> bool) l : filter p (filter q l) = filter q (filter p l).
Proof.
  induction l as [|x l IH]; [reflexivity|]. cbn [filter].
  destruct (q x) eqn:Q, (p x) eqn:P; cbn [filter]; rewrite ?Q, ?P, IH; reflexivity.
Qed.

Lemma perm_filter_split {A} (p : A -> bool) l :
  Permutation l (filter p l ++ filter (fun x => negb (p x)) l).
Proof.
  induction l as [|x l IH]; [constructor|]. cbn [filter]. destruct (p x); cbn [negb app].
  - now constructor.
  - eapply perm_trans; [apply perm_skip; exact IH|]. apply Permutation_middle.
Qed.

(** * B. The memtable store *)

Lemma mt_insert_nil e : mt_insert e [] = [e].
Proof. reflexivity. Qed.

Lemma heap_get_ins h id e id' :
  heap_get (heap_ins h id e) id' =
  if id =? id' then mt_insert e (heap_get h id) else heap_get h id'.
Proof.
  induction h as [|[i l] h IH].
  - cbn [heap_ins heap_get]. destruct (id =? id') eqn:E; reflexivity.
  - cbn [heap_ins]. destruct (i =? id) eqn:E1.
    + apply N.eqb_eq in E1. subst i. cbn [heap_get]. rewrite N.eqb_refl.
      destruct (id =? id') eqn:E2; reflexivity.
    + cbn [heap_get]. rewrite E1. destruct (i =? id') eqn:E2.
      * apply N.eqb_eq in E2. subst i. rewrite N.eqb_sym in E1. rewrite E1. reflexivity.
      * exact IH.
Qed.

Lemma heap_get_ins_same h id e : heap_get (heap_ins h id e) id = mt_insert e (heap_get h id).
Proof. rewrite heap_get_ins, N.eqb_refl. reflexivity. Qed.

Lemma heap_get_ins_other h id e id' : id <> id' -> heap_get (heap_ins h id e) id' = heap_get h id'.
Proof. intros H. rewrite heap_get_ins. apply N.eqb_neq in H. rewrite H. reflexivity. Qed.

(** * C. Sortedness and [newest] *)

Lemma ssorted_eq l : ssorted l = sorted_b l.
Proof.
  induction l as [|e l IH]; [reflexivity|]. destruct l as [|e' l]; [reflexivity|].
  change (ikey_ltb e e' && ssorted (e' :: l) = ikey_ltb e e' && sorted_b (e' :: l)).
  rewrite IH. reflexivity.
Qed.

Lemma mt_insert_ssorted e l :
  ssorted l = true -> (forall x, In x l -> seq x < seq e) -> ssorted (mt_insert e l) = true.
Proof.
  induction l as [|y l IH]; intros HS H; cbn [mt_insert]; [reflexivity|].
  destruct (ikey_ltb e y) eqn:C1.
  - apply ssorted_cons. split; [|exact HS]. constructor; [exact C1|].
    apply ssorted_cons in HS. destruct HS as [FA _].
    eapply Forall_impl; [|exact FA]. intros z Hz. eapply ikey_ltb_trans; eauto.
  - destruct (ikey_ltb y e) eqn:C2.
    + apply ssorted_cons in HS. destruct HS as [FA HS].
      apply ssorted_cons. split.
      * rewrite Forall_forall in *. intros z Hz. apply In_mt_insert in Hz.
        destruct Hz as [->|Hz]; auto.
      * apply IH; auto. intros x Hx. apply H. now right.
    + exfalso. destruct (ikey_neither _ _ C1 C2) as [_ Es].
      specialize (H y (or_introl eq_refl)). lia.
Qed.

(** an entry newer than everything else decides, wherever a permutation puts it *)
Lemma newest_top_perm k S e l l' :
  Permutation l' (e :: l) -> uniq l' -> (forall x, In x l -> seq x < seq e) ->
  newest k S l' = if matches k S e then Some e else newest k S l.
Proof.
  intros P U H. rewrite (newest_perm k S l' (e :: l) U P). cbn [newest].
  destruct (matches k S e); [|reflexivity].
  destruct (newest k S l) as [r|] eqn:R; [|reflexivity].
  destruct (newest_some _ _ _ _ R) as [RI _]. specialize (H r RI).
  apply N.ltb_lt in H. rewrite H. reflexivity.
Qed.

Lemma newest_snoc_top k S e l :
  (forall x, In x l -> seq x < seq e) ->
  newest k S (l ++ [e]) = if matches k S e then Some e else newest k S l.
Proof.
  induction l as [|y l IH]; intros H; cbn [app newest].
  - destruct (matches k S e); reflexivity.
  - rewrite IH by (intros x Hx; apply H; now right).
    destruct (matches k S y) eqn:My; [|reflexivity].
    destruct (matches k S e) eqn:Me.
    + assert (seq e <? seq y = false) as -> by (apply N.ltb_ge; specialize (H y (or_introl eq_refl)); lia).
      reflexivity.
    + reflexivity.
Qed.

(** * D. What the compaction stream guarantees (beyond Proofs/Stream.v) *)

Lemma emit_dec_false_evict W evict h rest :
  is_weak_tomb h = false -> fst (emit_dec W evict h rest) = false -> evict = true.
Proof.
  intros NW. unfold emit_dec. destruct rest as [|p r].
  - cbn [fst]. intros H. apply negb_false_iff, andb_true_iff in H. apply H.
  - destruct (key_ltb (ukey h) (ukey p)).
    + cbn [fst]. intros H. apply negb_false_iff, andb_true_iff in H. apply H.
    + destruct (seq p <? W); [|discriminate].
      destruct (is_strong_tomb h && evict) eqn:SE.
      * intros _. apply andb_true_iff in SE. apply SE.
      * rewrite NW, andb_false_r. discriminate.
Qed.

(** the newest version of a key survives the stream, unless it is a tombstone that is
    evicted, and then NO version of the key survives (no weak tombstones, no filter) *)
Lemma top_strong W evict k S : forall l dr,
  ssorted l = true -> dr_ok dr l -> dr_nok k dr l ->
  (forall e, In e l -> ukey e = k -> seq e < S) ->
  (forall x, In x l -> ukey x = k -> is_weak_tomb x = false) ->
  newest k S (outs W evict no_filter dr l) = newest k S l
  \/ (evict = true /\ (exists t, newest k S l = Some t /\ is_tomb t = true)
      /\ forall h, In h (outs W evict no_filter dr l) -> ukey h <> k).
Proof.
  induction l as [|e rest IH]; intros dr HS OK ND HSn NW; [left; reflexivity|].
  pose proof (ssorted_tail _ _ HS) as HS'.
  assert (forall x, In x rest -> ukey x = k -> seq x < S) as HSn'
      by (intros x HI; apply HSn; now right).
  assert (forall x, In x rest -> ukey x = k -> is_weak_tomb x = false) as NW'
      by (intros x HI; apply NW; now right).
  rewrite outs_cons.
  destruct (draining evict dr e) eqn:D.
  - assert (ukey e <> k) as NE.
    { destruct dr as [|k'|]; [discriminate| |exact ND].
      apply draining_key in D. cbn in ND. congruence. }
    rewrite (newest_cons_nokey k S e rest NE).
    apply (IH (after_drop dr) HS' (dr_ok_tail _ _ _ OK) (dr_nok_after _ _ _ _ ND) HSn' NW').
  - rewrite apply_filter_no_filter. cbn [fst].
    destruct (emit_dec_inv W evict e e rest HS eq_refl) as (OK' & _ & DN).
    destruct (key_eq_dec (ukey e) k) as [E|NE].
    + assert (newest k S (e :: rest) = Some e) as R.
      { apply newest_head; [exact E | apply HSn; auto; now left |].
        intros x XI Xk. eapply ssorted_same_key_seq; eauto. congruence. }
      rewrite R.
      destruct (fst (emit_dec W evict e rest)) eqn:B; unfold olist; cbn [app].
      * left. apply newest_head; [exact E | apply HSn; auto; now left |].
        intros x XI Xk.
        destruct (subik_in _ _ _ (outs_subik W evict no_filter rest _) XI) as (y & YI & Yk & Ys).
        rewrite Ys. eapply ssorted_same_key_seq; eauto. congruence.
      * right.
        assert (is_weak_tomb e = false) as NWe by (apply NW; [now left|exact E]).
        pose proof (emit_dec_false_evict _ _ _ _ NWe B) as Hev.
        destruct (emit_dec_false W evict e e rest HS eq_refl B) as [TB Hno].
        split; [exact Hev|]. split; [exists e; auto|].
        destruct Hno as [[Hd _]|[Hgt|[_ Hw]]].
        -- intros x XI. rewrite Hd in XI, OK'. subst evict. rewrite <- E.
           eapply drain_no_key; eauto.
        -- intros x XI.
           destruct (subik_in _ _ _ (outs_subik W evict no_filter rest _) XI) as (y & YI & Yk & _).
           specialize (Hgt y YI). intros Xk. rewrite <- Yk, Xk, E in Hgt.
           now apply key_lt_irrefl in Hgt.
        -- congruence.
    + rewrite (newest_cons_nokey k S e rest NE).
      assert (dr_nok k (snd (emit_dec W evict e rest)) rest) as ND'.
      { destruct (emit_dec_dr W evict e rest) as [Hd|[Hd|Hd]]; rewrite Hd; cbn; auto.
        destruct (DN Hd) as (_ & p & r & -> & Ep & _). congruence. }
      destruct (IH (snd (emit_dec W evict e rest)) HS' OK' ND' HSn' NW') as [L|(Hev & Ht & Hno)].
      * left. rewrite <- L. unfold olist.
        destruct (fst (emit_dec W evict e rest)); cbn [app]; [|reflexivity].
        apply newest_cons_nokey. exact NE.
      * right. split; [exact Hev|]. split; [exact Ht|].
        intros x XI. apply in_app_or in XI. destruct XI as [XI|XI]; [|auto].
        unfold olist in XI. destruct (fst (emit_dec W evict e rest)); [|contradiction].
        destruct XI as [<-|[]]. exact NE.
Qed.

Definition no_weak (l : list entry) : Prop := forall e, In e l -> is_weak_tomb e = false.

(** the three facts about a stream run that the protocol proof uses *)
Lemma stream_facts W evict l :
  ssorted l = true -> no_weak l ->
  let out := fst (run_stream W evict no_filter l) in
  incl out l /\ ssorted out = true /\
  forall k S, (forall e, In e l -> ukey e = k -> seq e < S) ->
    newest k S out = newest k S l
    \/ (evict = true /\ (exists t, newest k S l = Some t /\ is_tomb t = true)
        /\ forall h, In h out -> ukey h <> k).
Proof.
  intros HS NW out.
  destruct (run_stream W evict no_filter l) as [o lg] eqn:R. subst out. cbn [fst].
  split; [|split].
  - intros x. eapply cstream_out_in; eauto.
  - eapply cstream_out_sorted; eauto.
  - intros k S HSn. apply run_stream_outs in R. destruct R as [-> _].
    apply top_strong; cbn; auto.
Qed.

(** merge of sources whose internal keys are pairwise distinct *)
Lemma merge_facts srcs :
  NoDup (map ik (concat srcs)) ->
  ssorted (merge_sorted srcs) = true /\ Permutation (merge_sorted srcs) (concat srcs).
Proof.
  intros ND. split; [now apply merge_sorted_sorted_nodup | apply merge_sorted_perm].
Qed.

(** * E. Recency-ordered container lists; replacing a group of containers by its merge *)

Definition newer (c c' : list entry) : Prop :=
  forall e e', In e c -> In e' c' -> ukey e = ukey e' -> seq e' < seq e.

Definition Rec (cs : list (list entry)) : Prop := ForallOrdPairs newer cs.

Definition AllS (cs : list (list entry)) : Prop := forall c, In c cs -> ssorted c = true.

Definition kdis (c c' : list entry) : Prop :=
  forall e e', In e c -> In e' c' -> ukey e <> ukey e'.

Lemma newer_iff c c' : newer_than c c' = true <-> newer c c'.
Proof. apply newer_than_spec. Qed.

Lemma kdisj_iff c c' : kdisj c c' = true <-> kdis c c'.
Proof.
  unfold kdisj, kdis. rewrite forallb_forall. split.
  - intros H e e' HI HI'. specialize (H e HI). rewrite forallb_forall in H.
    specialize (H e' HI'). apply negb_true_iff in H. now key_prop.
  - intros H e HI. rewrite forallb_forall. intros e' HI'. apply negb_true_iff.
    specialize (H e e' HI HI'). now key_prop.
Qed.

Lemma Rec_iff cs : recency_b cs = true <-> Rec cs.
Proof.
  rewrite recency_b_pairs. unfold Rec. split; intros H.
  - induction H as [|c l FA FO IH]; constructor; [|exact IH].
    eapply Forall_impl; [|exact FA]. intros c'. apply newer_iff.
  - induction H as [|c l FA FO IH]; constructor; [|exact IH].
    eapply Forall_impl; [|exact FA]. intros c'. apply newer_iff.
Qed.

Lemma newer_incl c0 c c0' c' : incl c0 c -> incl c0' c' -> newer c c' -> newer c0 c0'.
Proof. intros I1 I2 H e e' HI HI'. apply H; auto. Qed.

Lemma newer_nil_l c : newer [] c.
Proof. intros e e' []. Qed.

Lemma newer_nil_r c : newer c [].
Proof. intros e e' _ []. Qed.

Lemma AllS_all_sorted cs : AllS cs -> all_sorted cs.
Proof. intros H c HI. rewrite <- ssorted_eq. auto. Qed.

Lemma AllS_app a b : AllS (a ++ b) <-> AllS a /\ AllS b.
Proof.
  unfold AllS. split.
  - intros H. split; intros c HI; apply H, in_or_app; auto.
  - intros [Ha Hb] c HI. apply in_app_or in HI. destruct HI; auto.
Qed.

Lemma content_uniq' cs : AllS cs -> Rec cs -> uniq (concat cs).
Proof. intros HS HR. apply concat_uniq; [now apply AllS_all_sorted | now apply Rec_iff]. Qed.

Lemma Rec_cons c cs : Rec (c :: cs) <-> (forall c', In c' cs -> newer c c') /\ Rec cs.
Proof.
  unfold Rec. split.
  - intros H. inversion H as [|? ? FA FO]; subst. rewrite Forall_forall in FA. auto.
  - intros [H1 H2]. constructor; [rewrite Forall_forall; exact H1|exact H2].
Qed.

Lemma Rec_app a b :
  Rec (a ++ b) <-> Rec a /\ Rec b /\ (forall x y, In x a -> In y b -> newer x y).
Proof. apply FOP_app. Qed.

Lemma newer_concat_r c cs : (forall c', In c' cs -> newer c c') -> newer c (concat cs).
Proof.
  intros H e e' HI HI'. apply in_concat in HI'. destruct HI' as (c' & Hc' & He'). eapply H; eauto.
Qed.

Lemma newer_concat_l cs c : (forall c', In c' cs -> newer c' c) -> newer (concat cs) c.
Proof.
  intros H e e' HI HI'. apply in_concat in HI. destruct HI as (c' & Hc' & He'). eapply H; eauto.
Qed.

Lemma nodup_ik_concat cs : AllS cs -> Rec cs -> NoDup (map ik (concat cs)).
Proof.
  induction cs as [|c cs IH]; intros HS HR; [constructor|].
  cbn [concat]. rewrite map_app. apply Rec_cons in HR. destruct HR as [H1 H2].
  apply NoDup_app_intro.
  - apply ssorted_NoDup_ik. apply HS. now left.
  - apply IH; [|exact H2]. intros c' HI. apply HS. now right.
  - intros x HA HB. apply in_map_iff in HA, HB.
    destruct HA as (a & <- & HA), HB as (b & E & HB).
    unfold ik in E. injection E as Ek Es.
    pose proof (newer_concat_r c cs H1 a b HA HB (eq_sym Ek)). lia.
Qed.

Lemma Permutation_concat {A} (l l' : list (list A)) :
  Permutation l l' -> Permutation (concat l) (concat l').
Proof.
  induction 1 as [|x l l' P IH|x y l|l l' l'' P1 IH1 P2 IH2]; cbn [concat].
  - constructor.
  - now apply Permutation_app_head.
  - rewrite !app_assoc. apply Permutation_app_tail. apply Permutation_app_comm.
  - eapply perm_trans; eauto.
Qed.

Lemma NoDup_app_parts {A} (a b : list A) : NoDup (a ++ b) -> NoDup a /\ NoDup b.
Proof.
  induction a as [|x a IH]; cbn [app]; intros H; [split; [constructor|exact H]|].
  inversion H as [|? ? NI ND]; subst. destruct (IH ND) as [Ha Hb]. split; [|exact Hb].
  constructor; [|exact Ha]. intros HI. apply NI, in_or_app. now left.
Qed.

Lemma Rec_insert P o Q :
  Rec (P ++ Q) -> (forall p, In p P -> newer p o) -> (forall q, In q Q -> newer o q) ->
  Rec (P ++ o :: Q).
Proof.
  intros H HP HQ. apply Rec_app in H. destruct H as (RP & RQ & RPQ).
  apply Rec_app. split; [exact RP|]. split.
  - apply Rec_cons. split; [exact HQ|exact RQ].
  - intros x y Hx [<-|Hy]; auto.
Qed.

Lemma newest_above k S S' l :
  (forall e, In e l -> seq e < S) -> (forall e, In e l -> seq e < S') ->
  newest k S l = newest k S' l.
Proof.
  induction l as [|x l IH]; intros H H'; [reflexivity|]. cbn [newest].
  rewrite IH; [|intros e HI; apply H; now right|intros e HI; apply H'; now right].
  unfold matches. replace (seq x <? S) with true by (symmetry; apply N.ltb_lt, H; now left).
  replace (seq x <? S') with true by (symmetry; apply N.ltb_lt, H'; now left). reflexivity.
Qed.

(** [out] of the merged group [I] as a container list: dropped when empty (Run::new) *)
Definition olist_c (out : list entry) : list (list entry) :=
  match out with [] => [] | _ :: _ => [out] end.

Lemma concat_olist_c out : concat (olist_c out) = out.
Proof. destruct out; cbn; [reflexivity|]. now rewrite app_nil_r. Qed.

Lemma In_olist_c out c : In c (olist_c out) -> c = out.
Proof. destruct out; cbn; [intros []|intros [<-|[]]; reflexivity]. Qed.

(** THE KEY LEMMA ([with_merge_commutes], abstract form).  [cs]: the containers of a
    superversion in lookup order.  A group [I] of them is replaced by the output of the
    compaction stream over their merge, put between [Pre] and [Post], where every
    container of [Pre] is newer than the group and the group is newer than every container
    of [Post] (per shared key); when tombstones are evicted, [Post] shares no key with the
    group.  Then sortedness and the recency order are kept and no reader above all stored
    seqnos can tell the difference. *)
Lemma replace_merge W evict cs Pre I Post :
  AllS cs -> Rec cs ->
  Permutation cs (Pre ++ I ++ Post) ->
  Rec (Pre ++ Post) ->
  (forall p i, In p Pre -> In i I -> newer p i) ->
  (forall i q, In i I -> In q Post -> newer i q) ->
  (evict = true -> forall i q, In i I -> In q Post -> kdis i q) ->
  no_weak (concat I) ->
  let out := fst (run_stream W evict no_filter (merge_sorted I)) in
  let cs' := Pre ++ olist_c out ++ Post in
  AllS cs' /\ Rec cs' /\ incl out (concat I) /\
  forall k S, (forall e, In e (concat cs) -> seq e < S) ->
    visible (newest k S (concat cs')) = visible (newest k S (concat cs)).
Proof.
  intros HS HR HP HRPP HPI HIQ HEV NW out cs'.
  (* the group: pairwise distinct internal keys, so the merge is sorted *)
  pose proof (nodup_ik_concat cs HS HR) as ND.
  pose proof (Permutation_concat _ _ HP) as PC.
  rewrite !concat_app in PC.
  assert (NoDup (map ik (concat I))) as NDI.
  { eapply Permutation_NoDup in ND; [|apply Permutation_map; exact PC].
    rewrite !map_app in ND. apply NoDup_app_parts in ND. destruct ND as [_ ND].
    apply NoDup_app_parts in ND. apply ND. }
  destruct (merge_facts I NDI) as [MS MP].
  set (l := merge_sorted I) in *.
  assert (no_weak l) as NWl.
  { intros e HI. apply NW. eapply Permutation_in; eauto. }
  destruct (stream_facts W evict l MS NWl) as (OI & OS & OT). fold out in OI, OS, OT.
  assert (incl out (concat I)) as OI'.
  { intros e HI. eapply Permutation_in; [exact MP|]. auto. }
  assert (AllS Pre /\ AllS Post) as [SPre SPost].
  { split; intros c HI; apply HS; (eapply Permutation_in; [apply Permutation_sym; exact HP|]);
      apply in_or_app; [left|right; apply in_or_app; right]; exact HI. }
  assert (forall p, In p Pre -> newer p out) as NPO.
  { intros p Hp e e' He He' Ek. apply OI' in He'. apply in_concat in He'.
    destruct He' as (i & Hi & He'). eapply HPI; eauto. }
  assert (forall q, In q Post -> newer out q) as NOQ.
  { intros q Hq e e' He He' Ek. apply OI' in He. apply in_concat in He.
    destruct He as (i & Hi & He). eapply HIQ; eauto. }
  assert (AllS cs') as HS'.
  { unfold cs'. intros c HI. apply in_app_or in HI. destruct HI as [HI|HI]; [auto|].
    apply in_app_or in HI. destruct HI as [HI|HI]; [|auto].
    apply In_olist_c in HI. subst c. exact OS. }
  assert (Rec cs') as HR'.
  { unfold cs'. destruct out as [|o0 out0] eqn:EO; cbn [olist_c app]; [exact HRPP|].
    apply Rec_insert; auto. }
  split; [exact HS'|]. split; [exact HR'|]. split; [exact OI'|].
  intros k S HSn.
  (* both contents as  N ++ (X ++ EB)  with X = l resp. out *)
  set (N := concat Pre). set (EB := concat Post).
  assert (Permutation (concat cs) (N ++ (l ++ EB))) as PC'.
  { eapply perm_trans; [exact PC|]. apply Permutation_app_head. apply Permutation_app_tail.
    apply Permutation_sym. exact MP. }
  assert (concat cs' = N ++ (out ++ EB)) as EC'.
  { unfold cs'. rewrite !concat_app, concat_olist_c. reflexivity. }
  pose proof (content_uniq' cs HS HR) as U.
  pose proof (uniq_perm _ _ PC' U) as U1.
  pose proof (content_uniq' cs' HS' HR') as U2. rewrite EC' in U2.
  assert (forall e e', In e N -> In e' (l ++ EB) -> ukey e = k -> ukey e' = k -> seq e' < seq e) as NN.
  { intros e e' He He' Ek Ek'. apply in_concat in He. destruct He as (p & Hp & He).
    apply in_app_or in He'. destruct He' as [He'|He'].
    - apply (Permutation_in _ MP) in He'. apply in_concat in He'. destruct He' as (i & Hi & He').
      apply (HPI p i Hp Hi e e' He He'). congruence.
    - apply in_concat in He'. destruct He' as (q & Hq & He').
      apply Rec_app in HRPP. destruct HRPP as (_ & _ & X).
      apply (X p q Hp Hq e e' He He'). congruence. }
  assert (forall e e', In e l -> In e' EB -> ukey e = k -> ukey e' = k -> seq e' < seq e) as LB.
  { intros e e' He He' Ek Ek'.
    apply (Permutation_in _ MP) in He. apply in_concat in He. destruct He as (i & Hi & He).
    apply in_concat in He'. destruct He' as (q & Hq & He').
    apply (HIQ i q Hi Hq e e' He He'). congruence. }
  rewrite (newest_perm k S _ _ U PC'), EC'.
  rewrite (newest_app k S N (l ++ EB) U1 NN).
  rewrite (newest_app k S N (out ++ EB) U2).
  2:{ intros e e' He He'. apply NN; [exact He|]. apply in_app_or in He'.
      apply in_or_app. destruct He'; auto. }
  destruct (newest k S N) as [n|]; [reflexivity|].
  rewrite (newest_app k S l EB (uniq_app_r _ _ U1) LB).
  rewrite (newest_app k S out EB (uniq_app_r _ _ U2)).
  2:{ intros e e' He He'. apply LB; auto. }
  assert (forall e, In e l -> ukey e = k -> seq e < S) as HSl.
  { intros e He _. apply HSn. eapply Permutation_in; [apply Permutation_sym; exact PC'|].
    apply in_or_app. right. apply in_or_app. now left. }
  destruct (OT k S HSl) as [E|(Hev & (t & Ht & TB) & Hno)].
  - rewrite E. reflexivity.
  - rewrite Ht. rewrite (newest_nokey k S out Hno). cbn [visible]. rewrite TB.
    assert (newest k S EB = None) as ->; [|reflexivity].
    apply newest_nokey. intros h Hh Hk.
    destruct (newest_some _ _ _ _ Ht) as [Tl Tm]. apply matches_iff in Tm. destruct Tm as [Tk _].
    apply (Permutation_in _ MP) in Tl. apply in_concat in Tl. destruct Tl as (i & Hi & Tl).
    apply in_concat in Hh. destruct Hh as (q & Hq & Hh).
    apply (HEV Hev i q Hi Hq t h Tl Hh). congruence.
Qed.

(** * F. Versions at content level *)

Lemma tag_levels_ge i v p : In p (tag_levels i v) -> (i <= fst p)%nat.
Proof.
  revert i; induction v as [|l v IH]; intros i HI; [contradiction|].
  cbn [tag_levels] in HI. apply in_app_or in HI. destruct HI as [HI|HI].
  - apply in_map_iff in HI. destruct HI as (t & <- & _). cbn. lia.
  - apply IH in HI. lia.
Qed.

Lemma map_snd_tag i v : map snd (tag_levels i v) = concat v.
Proof.
  revert i; induction v as [|l v IH]; intros i; [reflexivity|].
  cbn [tag_levels concat]. rewrite map_app, IH, map_map. cbn [snd]. rewrite map_id. reflexivity.
Qed.

Lemma tag_levels_remove i ids v :
  tag_levels i (v_remove ids v) = filter (fun p => t_kept ids (snd p)) (tag_levels i v).
Proof.
  revert i; induction v as [|l v IH]; intros i; [reflexivity|].
  cbn [v_remove map tag_levels]. rewrite filter_app. f_equal; [|apply IH].
  clear. induction l as [|t l IH]; [reflexivity|]. cbn [filter map snd].
  destruct (t_kept ids t); cbn [map]; rewrite IH; reflexivity.
Qed.

Lemma v_remove_length ids v : length (v_remove ids v) = length v.
Proof. apply map_length. Qed.

Lemma v_insert_length d ts v : length (v_insert d ts v) = length v.
Proof. revert d; induction v as [|l v IH]; intros [|d]; cbn; auto. Qed.

(** inserting at the front of level [d] splits the (level-tagged) lookup order in two *)
Lemma tag_insert_split ts : forall v d i, (d < length v)%nat ->
  exists A B, tag_levels i v = A ++ B /\
    tag_levels i (v_insert d ts v) = A ++ map (pair (i + d)%nat) ts ++ B /\
    (forall p, In p A -> (fst p < i + d)%nat) /\ (forall p, In p B -> (i + d <= fst p)%nat).
Proof.
  induction v as [|l v IH]; intros d i Hd; [cbn in Hd; lia|].
  destruct d as [|d].
  - exists [], (tag_levels i (l :: v)). cbn [v_insert tag_levels app].
    rewrite PeanoNat.Nat.add_0_r, map_app, <- app_assoc. repeat split; auto.
    + intros p [].
    + intros p HI. apply (tag_levels_ge i (l :: v)). exact HI.
  - cbn in Hd. destruct (IH d (S i)) as (A & B & E1 & E2 & HA & HB); [lia|].
    exists (map (pair i) l ++ A), B. cbn [v_insert tag_levels].
    rewrite E1, E2, <- !app_assoc. replace (S i + d)%nat with (i + S d)%nat by lia.
    repeat split; auto.
    + intros p HI. apply in_app_or in HI. destruct HI as [HI|HI].
      * apply in_map_iff in HI. destruct HI as (t & <- & _). cbn. lia.
      * apply HA in HI. lia.
    + intros p HI. apply HB in HI. lia.
Qed.

Lemma filter_snd_map {A B} (p : B -> bool) (l : list (A * B)) :
  map snd (filter (fun x => p (snd x)) l) = filter p (map snd l).
Proof.
  induction l as [|x l IH]; [reflexivity|]. cbn [filter map].
  destruct (p (snd x)); cbn [map]; rewrite IH; reflexivity.
Qed.

Lemma sel_kept ids p : sel_in ids p = negb (t_kept ids (snd p)).
Proof. unfold sel_in, t_kept. now rewrite negb_involutive. Qed.

Lemma inp_ids_in inp x : In x (inp_ids inp) <-> exists p, In p inp /\ ct_id (snd p) = x.
Proof.
  unfold inp_ids. rewrite in_map_iff. split; intros (p & A & B); exists p; auto.
Qed.

Lemma chosen_in ids v p : In p (chosen ids v) <-> In p (tag_levels 0 v) /\ In (ct_id (snd p)) ids.
Proof. unfold chosen. rewrite filter_In. unfold sel_in. rewrite mem_in_iff. tauto. Qed.

Lemma filter_all_true {A} (p : A -> bool) l : (forall x, In x l -> p x = true) -> filter p l = l.
Proof.
  induction l as [|x l IH]; intros H; [reflexivity|]. cbn [filter].
  rewrite (H x (or_introl eq_refl)), IH; [reflexivity|]. intros y Hy. apply H. now right.
Qed.

Lemma filter_all_false {A} (p : A -> bool) l : (forall x, In x l -> p x = false) -> filter p l = [].
Proof.
  induction l as [|x l IH]; intros H; [reflexivity|]. cbn [filter].
  rewrite (H x (or_introl eq_refl)). apply IH. intros y Hy. apply H. now right.
Qed.

(** the tables chosen by one compaction are untouched by a [with_merge] that removes
    OTHER ids and inserts tables with fresh ids *)
Lemma chosen_stable ids v ids' ts d :
  (d < length v)%nat ->
  (forall x, In x ids -> ~ In x ids') ->
  (forall t, In t ts -> ~ In (ct_id t) ids) ->
  chosen ids (v_merge v ids' ts d) = chosen ids v.
Proof.
  intros Hd HD HT. unfold chosen, v_merge.
  destruct (tag_insert_split ts (v_remove ids' v) d 0%nat) as (A & B & E1 & E2 & _ & _).
  { now rewrite v_remove_length. }
  rewrite E2, !filter_app.
  rewrite (filter_all_false (sel_in ids) (map (pair (0 + d)%nat) ts)).
  2:{ intros p HI. apply in_map_iff in HI. destruct HI as (t & <- & Ht).
      unfold sel_in. cbn [snd]. apply mem_in_false. now apply HT. }
  cbn [app]. rewrite <- filter_app, <- E1, tag_levels_remove, filter_filter_comm.
  apply filter_all_true. intros p HI. apply filter_In in HI. destruct HI as [_ HI].
  unfold sel_in in HI. apply mem_in_iff in HI. unfold t_kept. apply negb_true_iff.
  apply mem_in_false. now apply HD.
Qed.

Lemma v_remove_nil v : v_remove [] v = v.
Proof.
  unfold v_remove. rewrite <- (map_id v) at 2. apply map_ext. intros l.
  apply filter_all_true. reflexivity.
Qed.

Lemma v_flush_merge v ts : v_flush v ts = v_merge v [] ts 0.
Proof. unfold v_flush, v_merge. now rewrite v_remove_nil. Qed.

(** membership in the tagged lookup order after a [with_merge] *)
Lemma tag_merge_in v ids ts d p :
  (d < length v)%nat ->
  (In p (tag_levels 0 (v_merge v ids ts d)) <->
   (In p (tag_levels 0 v) /\ t_kept ids (snd p) = true) \/ (fst p = d /\ In (snd p) ts)).
Proof.
  intros Hd. unfold v_merge.
  destruct (tag_insert_split ts (v_remove ids v) d 0%nat) as (A & B & E1 & E2 & _ & _).
  { now rewrite v_remove_length. }
  rewrite E2. rewrite tag_levels_remove in E1. cbn [Nat.add].
  assert (In p (A ++ B) <-> In p (tag_levels 0 v) /\ t_kept ids (snd p) = true) as X.
  { rewrite <- E1, filter_In. tauto. }
  rewrite !in_app_iff in *. rewrite in_map_iff. split.
  - intros [H|[(t & <- & Ht)|H]]; [left; apply X; auto | right; auto | left; apply X; auto].
  - intros [H|[H1 H2]].
    + apply X in H. tauto.
    + right; left. exists (snd p). split; [|exact H2]. destruct p; cbn in *; congruence.
Qed.

Lemma concat_merge_split v ids ts d :
  (d < length v)%nat ->
  exists A B, filter (fun p => t_kept ids (snd p)) (tag_levels 0 v) = A ++ B /\
    concat (v_merge v ids ts d) = map snd A ++ ts ++ map snd B /\
    (forall p, In p A -> (fst p < d)%nat) /\ (forall p, In p B -> (d <= fst p)%nat).
Proof.
  intros Hd. unfold v_merge.
  destruct (tag_insert_split ts (v_remove ids v) d 0%nat) as (A & B & E1 & E2 & HA & HB).
  { now rewrite v_remove_length. }
  exists A, B. rewrite <- tag_levels_remove. split; [exact E1|]. split; [|split; auto].
  rewrite <- (map_snd_tag 0), E2, !map_app, map_map. cbn [snd]. now rewrite map_id.
Qed.

(** ** the invariant of an in-flight compaction against a version, and its use at K3 *)

Definition tents (p : nat * ctable) : list entry := ct_ents (snd p).

Record CompatV (v : cversion) (d : nat) (inp : list (nat * ctable)) : Prop := {
  cv_chosen : inp = chosen (inp_ids inp) v;
  cv_nodup : NoDup (inp_ids inp);
  cv_dest : (1 <= d < LEVEL_COUNT)%nat;
  cv_down : forall p, In p inp -> (fst p <= d)%nat;
  cv_above : forall q p, In q (tag_levels 0 v) -> sel_in (inp_ids inp) q = false -> In p inp ->
             (fst q < d)%nat -> newer (tents q) (tents p);
  cv_below : forall q p, In q (tag_levels 0 v) -> sel_in (inp_ids inp) q = false -> In p inp ->
             (d <= fst q)%nat ->
             newer (tents p) (tents q) /\ (d = LAST_LEVEL -> kdis (tents p) (tents q)) }.

Lemma map_ents_mk_out oid out : map ct_ents (mk_out oid out) = olist_c out.
Proof. destruct out; reflexivity. Qed.

Lemma map_tents l : map ct_ents (map snd l) = map tents l.
Proof. rewrite map_map. reflexivity. Qed.

(** [with_merge_commutes]: the merge result of a compaction whose invariant [CompatV] holds
    against the CURRENT version can be installed into it *)
Lemma merge_install M v d inp W oid :
  let cs := M ++ map ct_ents (concat v) in
  AllS cs -> Rec cs -> no_weak (concat cs) -> length v = LEVEL_COUNT -> CompatV v d inp ->
  let out := fst (run_stream W (Nat.eqb d LAST_LEVEL) no_filter (merge_sorted (map tents inp))) in
  let cs' := M ++ map ct_ents (concat (v_merge v (inp_ids inp) (mk_out oid out) d)) in
  AllS cs' /\ Rec cs' /\ incl (concat cs') (concat cs) /\
  forall k S, (forall e, In e (concat cs) -> seq e < S) ->
    visible (newest k S (concat cs')) = visible (newest k S (concat cs)).
Proof.
  intros cs HS HR NW HL CV out cs'.
  set (ids := inp_ids inp) in *.
  assert (Hd : (d < length v)%nat) by (rewrite HL; apply CV).
  destruct (concat_merge_split v ids (mk_out oid out) d Hd) as (A & B & E1 & E2 & HA & HB).
  set (TL := tag_levels 0 v) in *.
  assert (filter (fun p => negb (t_kept ids (snd p))) TL = inp) as EI.
  { transitivity (chosen ids v); [|symmetry; apply CV]. unfold chosen. fold TL.
    apply filter_ext. intros p. now rewrite sel_kept. }
  assert (Permutation TL ((A ++ B) ++ inp)) as PT.
  { rewrite <- E1, <- EI. apply perm_filter_split. }
  assert (cs = M ++ map tents TL) as Ecs.
  { unfold cs. now rewrite <- (map_snd_tag 0), map_tents. }
  set (Pre := M ++ map tents A). set (Post := map tents B). set (I := map tents inp).
  assert (cs' = Pre ++ olist_c out ++ Post) as Ecs'.
  { unfold cs', Pre, Post. rewrite E2, !map_app, !map_tents, map_ents_mk_out, <- app_assoc.
    reflexivity. }
  assert (Permutation cs (Pre ++ I ++ Post)) as HP.
  { rewrite Ecs. unfold Pre, I, Post. rewrite <- app_assoc. apply Permutation_app_head.
    eapply perm_trans; [apply Permutation_map; exact PT|].
    rewrite !map_app, <- app_assoc. apply Permutation_app_head. apply Permutation_app_comm. }
  assert (forall q, In q (A ++ B) -> In q TL /\ sel_in ids q = false) as HAB.
  { intros q HI. rewrite <- E1 in HI. apply filter_In in HI. destruct HI as [H1 H2].
    split; [exact H1|]. rewrite sel_kept, H2. reflexivity. }
  rewrite Ecs in HR. apply Rec_app in HR. destruct HR as (RM & RT & RMT).
  assert (Rec (Pre ++ Post)) as HRPP.
  { unfold Pre, Post. rewrite <- app_assoc, <- map_app. apply Rec_app. split; [exact RM|]. split.
    - rewrite <- E1. unfold Rec in *. apply (proj2 (FOP_map newer tents _)). apply FOP_filter.
      apply (proj1 (FOP_map newer tents TL)). exact RT.
    - intros x y Hx Hy. apply RMT; [exact Hx|]. apply in_map_iff in Hy.
      destruct Hy as (q & <- & Hq). apply in_map. apply HAB, Hq. }
  assert (forall p i, In p Pre -> In i I -> newer p i) as HPI.
  { intros p i Hp Hi. unfold I in Hi. apply in_map_iff in Hi. destruct Hi as (x & <- & Hx).
    assert (In x TL) as HxT.
    { rewrite (cv_chosen _ _ _ CV) in Hx. apply chosen_in in Hx. apply Hx. }
    unfold Pre in Hp. apply in_app_or in Hp. destruct Hp as [Hp|Hp].
    - apply RMT; [exact Hp|]. now apply in_map.
    - apply in_map_iff in Hp. destruct Hp as (q & <- & Hq).
      destruct (HAB q (in_or_app _ _ _ (or_introl Hq))) as [Q1 Q2].
      eapply cv_above; eauto. }
  assert (forall i q, In i I -> In q Post -> newer i q /\ (d = LAST_LEVEL -> kdis i q)) as HIQ.
  { intros i q Hi Hq. unfold I in Hi. apply in_map_iff in Hi. destruct Hi as (x & <- & Hx).
    unfold Post in Hq. apply in_map_iff in Hq. destruct Hq as (y & <- & Hy).
    destruct (HAB y (in_or_app _ _ _ (or_intror Hy))) as [Q1 Q2].
    eapply cv_below; eauto. }
  assert (no_weak (concat I)) as NWI.
  { intros e HI. apply NW. eapply Permutation_in; [apply Permutation_sym, Permutation_concat, HP|].
    rewrite !concat_app. apply in_or_app. right. apply in_or_app. now left. }
  assert (Rec cs) as HR by (rewrite Ecs; apply Rec_app; repeat split; assumption).
  pose proof (replace_merge W (Nat.eqb d LAST_LEVEL) cs Pre I Post HS HR HP HRPP HPI
              (fun i q Hi Hq => proj1 (HIQ i q Hi Hq))
              (fun Hev i q Hi Hq => proj2 (HIQ i q Hi Hq) (proj1 (PeanoNat.Nat.eqb_eq _ _) Hev))
              NWI) as X.
  cbv zeta in X.
  change (fst (run_stream W (Nat.eqb d LAST_LEVEL) no_filter (merge_sorted I))) with out in X.
  rewrite <- Ecs' in X. destruct X as (S' & R' & OI & VW).
  split; [exact S'|]. split; [exact R'|]. split; [|exact VW].
  rewrite Ecs'. intros e HI. rewrite !concat_app, concat_olist_c in HI.
  eapply Permutation_in; [apply Permutation_sym, Permutation_concat, HP|].
  rewrite !concat_app. apply in_app_or in HI. apply in_or_app. destruct HI as [HI|HI]; [now left|].
  right. apply in_app_or in HI. apply in_or_app. destruct HI as [HI|HI]; [left; now apply OI|now right].
Qed.

(** flush: the captured sealed memtables (a group of memtable containers) are replaced by
    their merge; no eviction *)
Lemma flush_install W Pre I' I Post :
  let cs := Pre ++ I' ++ Post in
  Permutation I' I -> AllS cs -> Rec cs -> no_weak (concat cs) ->
  let out := fst (run_stream W false no_filter (merge_sorted I)) in
  let cs' := Pre ++ olist_c out ++ Post in
  AllS cs' /\ Rec cs' /\ incl (concat cs') (concat cs) /\
  forall k S, (forall e, In e (concat cs) -> seq e < S) ->
    visible (newest k S (concat cs')) = visible (newest k S (concat cs)).
Proof.
  intros cs PI HS HR NW out cs'.
  assert (Permutation cs (Pre ++ I ++ Post)) as HP.
  { unfold cs. apply Permutation_app_head. apply Permutation_app_tail. exact PI. }
  pose proof HR as HR0. unfold cs in HR0. apply Rec_app in HR0. destruct HR0 as (RP & RIQ & RPIQ).
  apply Rec_app in RIQ. destruct RIQ as (RI & RQ & RIQ).
  assert (Rec (Pre ++ Post)) as HRPP.
  { apply Rec_app. repeat split; auto. intros x y Hx Hy. apply RPIQ; auto. apply in_or_app. now right. }
  assert (forall p i, In p Pre -> In i I -> newer p i) as HPI.
  { intros p i Hp Hi. apply RPIQ; auto. apply in_or_app. left.
    eapply Permutation_in; [apply Permutation_sym; exact PI|exact Hi]. }
  assert (forall i q, In i I -> In q Post -> newer i q) as HIQ.
  { intros i q Hi Hq. apply RIQ; auto. eapply Permutation_in; [apply Permutation_sym; exact PI|exact Hi]. }
  assert (no_weak (concat I)) as NWI.
  { intros e HI. apply NW. unfold cs. rewrite !concat_app. apply in_or_app. right.
    apply in_or_app. left. eapply Permutation_in; [apply Permutation_concat, Permutation_sym, PI|exact HI]. }
  pose proof (replace_merge W false cs Pre I Post HS HR HP HRPP HPI HIQ
                ltac:(discriminate) NWI) as X.
  cbv zeta in X. fold out in X. fold cs' in X. destruct X as (S' & R' & OI & VW).
  split; [exact S'|]. split; [exact R'|]. split; [|exact VW].
  unfold cs', cs. rewrite !concat_app, concat_olist_c. intros e HI.
  apply in_app_or in HI. apply in_or_app. destruct HI as [HI|HI]; [now left|]. right.
  apply in_app_or in HI. apply in_or_app. destruct HI as [HI|HI]; [left|now right].
  eapply Permutation_in; [apply Permutation_concat, Permutation_sym, PI|]. now apply OI.
Qed.

(** * G. The version history *)

Lemma clatest_snoc p l : clatest (p ++ [l]) = Some l.
Proof. unfold clatest. rewrite rev_app_distr. reflexivity. Qed.

Lemma clatest_inv h l : clatest h = Some l -> h = removelast h ++ [l].
Proof.
  unfold clatest. intros H. destruct (rev h) as [|x t] eqn:E; [discriminate|].
  cbn [hd_error] in H. inversion H; subst x.
  assert (Eh : h = rev t ++ [l]) by (rewrite <- (rev_involutive h), E; reflexivity).
  rewrite Eh at 1. rewrite Eh at 1. rewrite removelast_last. reflexivity.
Qed.

Lemma clatest_In h l : clatest h = Some l -> In l h.
Proof. intros H. rewrite (clatest_inv _ _ H). apply in_or_app. right. now left. Qed.

Lemma clatest_app_nonempty p m : m <> [] -> clatest (p ++ m) = clatest m.
Proof.
  intros H. unfold clatest. rewrite rev_app_distr.
  destruct (rev m) eqn:E; [|reflexivity].
  exfalso. apply H. rewrite <- (rev_involutive m), E. reflexivity.
Qed.

Lemma creplace_eq h l sv : clatest h = Some l -> creplace h sv = removelast h ++ [sv].
Proof. intros H. unfold creplace. destruct h; [discriminate|reflexivity]. Qed.

Lemma cvfs_pos h S : S <> 0 -> cvfs h S = find (fun sv => cs_seq sv <? S) (rev h).
Proof. intros H. unfold cvfs. apply N.eqb_neq in H. rewrite H. reflexivity. Qed.

Lemma cvfs_zero h : cvfs h 0 = hd_error h.
Proof. reflexivity. Qed.

Lemma cvfs_In h S sv : cvfs h S = Some sv -> In sv h.
Proof.
  unfold cvfs. destruct (S =? 0).
  - destruct h; [discriminate|]. intros H. inversion H; subst. now left.
  - intros H. apply find_some in H. apply in_rev. apply H.
Qed.

Lemma cvfs_after_append h sv' S sv :
  S <= cs_seq sv' -> cvfs h S = Some sv -> cvfs (h ++ [sv']) S = Some sv.
Proof.
  intros H E. destruct (N.eq_dec S 0) as [->|HS].
  - rewrite cvfs_zero in *. destruct h; [discriminate|exact E].
  - rewrite cvfs_pos in * by exact HS. rewrite rev_app_distr. cbn [rev app find].
    replace (cs_seq sv' <? S) with false; [exact E|]. symmetry. apply N.ltb_ge. exact H.
Qed.

Lemma cmaint_shape h W :
  cmaint h W = h \/
  exists pre x post, h = pre ++ x :: post /\ cmaint h W = x :: post /\
                     cs_seq x < W /\ forall y, In y post -> W <= cs_seq y.
Proof.
  unfold cmaint. destruct (W =? 0); [left; reflexivity|].
  destruct (Nat.ltb (length h - 1) 1); [left; reflexivity|].
  destruct (rposition (fun sv => cs_seq sv <? W) h) as [hi|] eqn:R; [|left; reflexivity].
  right. destruct (rposition_spec _ _ _ R) as (pre & x & post & E & L & Fx & Fp).
  exists pre, x, post. subst h hi. rewrite skipn_app_exact.
  repeat split; auto.
  - apply N.ltb_lt. exact Fx.
  - intros y Hy. apply N.ltb_ge. apply Fp. exact Hy.
Qed.

Lemma cmaint_suffix h W : exists pre, h = pre ++ cmaint h W.
Proof.
  destruct (cmaint_shape h W) as [E|(pre & x & post & E & M & _)].
  - exists []. now rewrite E.
  - exists pre. now rewrite M.
Qed.

Lemma cmaint_nonempty h W : h <> [] -> cmaint h W <> [].
Proof.
  intros H. destruct (cmaint_shape h W) as [E|(pre & x & post & _ & M & _)].
  - now rewrite E.
  - rewrite M. discriminate.
Qed.

Lemma cmaint_latest h W : clatest (cmaint h W) = clatest h.
Proof.
  destruct h as [|a h']; [unfold cmaint; destruct (W =? 0); reflexivity|].
  destruct (cmaint_suffix (a :: h') W) as [pre E].
  rewrite E at 2. symmetry. apply clatest_app_nonempty. apply cmaint_nonempty. discriminate.
Qed.

Lemma cmaint_incl h W : incl (cmaint h W) h.
Proof.
  destruct (cmaint_suffix h W) as [pre E]. intros x HI. rewrite E. apply in_or_app. now right.
Qed.

Lemma cmaint_keeps h W S sv :
  W <= S -> cvfs h S = Some sv -> cvfs (cmaint h W) S = Some sv.
Proof.
  intros HW E. destruct (N.eq_dec S 0) as [->|HS].
  - assert (W = 0) by lia. subst W. exact E.
  - destruct (cmaint_shape h W) as [->|(pre & x & post & Eh & M & Hx & _)]; [exact E|].
    rewrite M. rewrite cvfs_pos in * by exact HS. rewrite Eh in E.
    change (pre ++ x :: post) with (pre ++ (x :: post)) in E.
    rewrite rev_app_distr, find_app in E.
    destruct (find (fun sv0 => cs_seq sv0 <? S) (rev (x :: post))) as [r|] eqn:F; [exact E|].
    exfalso. eapply find_none in F; [|apply in_rev; rewrite rev_involutive; left; reflexivity].
    cbn beta in F. apply N.ltb_ge in F. lia.
Qed.

Lemma SS_app_inv {A} (R : A -> A -> Prop) a b :
  StronglySorted R (a ++ b) -> StronglySorted R a /\ StronglySorted R b.
Proof.
  induction a as [|z a IH]; cbn [app]; intros H; [split; [constructor|exact H]|].
  inversion H as [|? ? HS HF]; subst. destruct (IH HS) as (Sa & Sb). split; [|exact Sb].
  constructor; [exact Sa|]. rewrite Forall_forall in *. intros y Hy. apply HF, in_or_app. now left.
Qed.

Lemma SS_snoc {A} (R : A -> A -> Prop) l x :
  StronglySorted R l -> (forall y, In y l -> R y x) -> StronglySorted R (l ++ [x]).
Proof.
  induction l as [|z l IH]; intros HS H; cbn [app].
  - constructor; [constructor|constructor].
  - inversion HS as [|? ? HS' HF]; subst. constructor.
    + apply IH; [exact HS'|]. intros y Hy. apply H. now right.
    + rewrite Forall_forall in *. intros y Hy. apply in_app_or in Hy.
      destruct Hy as [Hy|[<-|[]]]; [auto|]. apply H. now left.
Qed.

Lemma cmaint_sorted h W :
  StronglySorted N.le (map cs_seq h) -> StronglySorted N.le (map cs_seq (cmaint h W)).
Proof.
  intros H. destruct (cmaint_suffix h W) as [pre E]. rewrite E, map_app in H.
  apply SS_app_inv in H. apply H.
Qed.

(** the snapshot [vis] (and everything above the latest seqno) resolves to the latest *)
Lemma cvfs_latest h l S :
  clatest h = Some l -> cs_seq l < S -> cvfs h S = Some l.
Proof.
  intros HL HS. rewrite cvfs_pos by lia. unfold clatest in HL.
  destruct (rev h) as [|x t]; [discriminate|]. cbn [hd_error] in HL. inversion HL; subst x.
  cbn [find]. apply N.ltb_lt in HS. rewrite HS. reflexivity.
Qed.

(** replacing the latest superversion in place by one with the same seqno *)
Lemma cvfs_replace p l l' S sv :
  cs_seq l' = cs_seq l -> cvfs (p ++ [l]) S = Some sv ->
  (sv = l /\ cvfs (p ++ [l']) S = Some l') \/ (In sv p /\ cvfs (p ++ [l']) S = Some sv).
Proof.
  intros Es E. destruct (N.eq_dec S 0) as [->|HS].
  - rewrite cvfs_zero in *. destruct p as [|x p]; cbn [app hd_error] in *.
    + left. inversion E. auto.
    + right. inversion E; subst. split; [now left|reflexivity].
  - rewrite cvfs_pos in * by exact HS. rewrite rev_app_distr in *. cbn [rev app find] in *.
    rewrite Es. destruct (cs_seq l <? S).
    + left. inversion E. auto.
    + right. split; [|exact E]. apply find_some in E. apply in_rev. apply E.
Qed.

(** * H. The invariant *)

(** the smallest seqno a future insert can carry *)
Definition wnext (sh : shr) : N :=
  match s_wst sh with WDrawn e => seq e | _ => s_ctr sh end.

(** (a) structure of one superversion: containers sorted, recency order *)
Definition SvWf (h : heap) (sv : csv) : Prop :=
  AllS (containers h sv) /\ Rec (containers h sv).

(** memtable ids: distinct, drawn from the counter, and the memtable that currently
    receives writes ([a]) is not sealed in this superversion *)
Definition SvIds (nmid a : N) (sv : csv) : Prop :=
  NoDup (cs_active sv :: cs_sealed sv) /\
  (forall id, In id (cs_active sv :: cs_sealed sv) -> id < nmid) /\
  ~ In a (cs_sealed sv).

Definition SvSub (log : list entry) (sv : csv) : Prop :=
  forall t, In t (concat (cs_ver sv)) -> incl (ct_ents t) log.

Definition SvGood (sh : shr) (a : N) (sv : csv) : Prop :=
  SvWf (s_heap sh) sv /\ SvIds (s_nmid sh) a sv /\ SvSub (s_log sh) sv.

(** what a reader of [sv] at snapshot [S] sees = what the Spec says for the writes so far *)
Definition View (h : heap) (log : list entry) (sv : csv) (S : N) : Prop :=
  forall k, visible (newest k S (content h sv)) = visible (newest k S log).

Record DInvL (sh : shr) (l : csv) : Prop := {
  dl_latest : clatest (s_hist sh) = Some l;
  dl_sorted : StronglySorted N.le (map cs_seq (s_hist sh));
  dl_seq_le : forall sv, In sv (s_hist sh) -> cs_seq sv <= s_ctr sh;
  dl_vis_le : s_vis sh <= s_ctr sh;
  dl_lat_vis : cs_seq l < s_vis sh \/ (s_vis sh = 0 /\ s_hist sh = [l] /\ cs_seq l = 0);
  dl_good : forall sv, In sv (s_hist sh) -> SvGood sh (cs_active l) sv;
  dl_len : length (cs_ver l) = LEVEL_COUNT;
  dl_heap_sub : forall id, incl (heap_get (s_heap sh) id) (s_log sh);
  dl_heap_fresh : forall id, s_nmid sh <= id -> heap_get (s_heap sh) id = [];
  dl_log_sorted : StronglySorted (fun a b => seq a < seq b) (s_log sh);
  dl_log_lt : forall e, In e (s_log sh) -> seq e < wnext sh;
  dl_log_noweak : no_weak (s_log sh);
  dl_wst : match s_wst sh with
           | WDrawn e => seq e < s_ctr sh /\ is_weak_tomb e = false
           | WIns e => seq e < s_ctr sh
           | WIdle => True
           end;
  dl_view : forall S, cs_seq l < S -> View (s_heap sh) (s_log sh) l S;
  dl_tids : NoDup (map ct_id (concat (cs_ver l))) /\
            forall t, In t (concat (cs_ver l)) -> ct_id t < s_ntid sh;
  dl_wpub : s_wpub sh <= s_vis sh /\ s_wpub sh <= wnext sh }.

(** table ids drawn for outputs that are not installed yet *)
Definition pend_ids (t : thread) : list N :=
  match t with
  | TFlusher _ (FBuilt _ _ out) => map ct_id out
  | TCompactor _ (KChosen _ _ _ oid _) => [oid]
  | TCompactor _ (KMerged _ _ _ _ out) => map ct_id out
  | _ => []
  end.

(** the GC watermark a flusher / compactor carries *)
Definition gcW (t : thread) : option N :=
  match t with
  | TFlusher _ (FCapt W _) | TFlusher _ (FBuilt W _ _) => Some W
  | TCompactor _ (KChosen W _ _ _ _) | TCompactor _ (KMerged W _ _ _ _) => Some W
  | _ => None
  end.

Definition SnapOk (sh : shr) (sn : N) (c : bool) : Prop :=
  sn <= s_vis sh /\
  exists sv, cvfs (s_hist sh) sn = Some sv /\
             (c = true -> sn <= wnext sh /\ View (s_heap sh) (s_log sh) sv sn).

Definition FreshIds (sh : shr) (l : csv) (t : thread) : Prop :=
  forall x, In x (pend_ids t) -> x < s_ntid sh /\ ~ In x (map ct_id (concat (cs_ver l))).

Definition GcOk (sh : shr) (t : thread) : Prop := forall W, gcW t = Some W -> W <= s_vis sh.

Definition flush_out (h : heap) (W : N) (ids : list N) (oid : N) : list ctable :=
  mk_out oid (fst (run_stream W false no_filter (merge_sorted (map (heap_get h) ids)))).

Definition merge_out (W : N) (d : nat) (inp : list (nat * ctable)) (oid : N) : list ctable :=
  mk_out oid (fst (run_stream W (Nat.eqb d LAST_LEVEL) no_filter (merge_sorted (map tents inp)))).

(** per-thread invariant; (b) = the KChosen / KMerged clauses, (d) = the FCapt / FBuilt
    clauses *)
Definition TInvS (sh : shr) (l : csv) (t : thread) : Prop :=
  match t with
  | TReader _ (RSnap sn c) => SnapOk sh sn c
  | TReader _ (RPin sn c sv) =>
      SnapOk sh sn c /\ SvGood sh (cs_active l) sv /\
      (c = true -> View (s_heap sh) (s_log sh) sv sn)
  | TFlusher _ (FCapt W ids) => exists rest, cs_sealed l = ids ++ rest
  | TFlusher _ (FBuilt W ids out) =>
      (exists rest, cs_sealed l = ids ++ rest) /\
      exists oid, out = flush_out (s_heap sh) W ids oid
  | TCompactor _ (KChosen W maj d oid inp) =>
      CompatV (cs_ver l) d inp /\ incl (inp_ids inp) (s_hidden sh)
  | TCompactor _ (KMerged W maj d inp out) =>
      CompatV (cs_ver l) d inp /\ incl (inp_ids inp) (s_hidden sh) /\
      exists oid, out = merge_out W d inp oid
  | _ => True
  end.

Definition TInv (sh : shr) (l : csv) (t : thread) : Prop :=
  FreshIds sh l t /\ GcOk sh t /\ TInvS sh l t.

(** relation between two different threads *)
Definition PR (t u : thread) : Prop :=
  (busy_flusher t = true -> busy_flusher u = false) /\
  (forall W sn, gcW t = Some W -> live_snap u = Some sn -> W <= sn) /\
  (forall x, In x (pend_ids t) -> ~ In x (pend_ids u)) /\
  (forall mt dt it mu du iu,
     inflight t = Some (mt, dt, it) -> inflight u = Some (mu, du, iu) ->
     mt = false /\ (forall x, In x (inp_ids it) -> ~ In x (inp_ids iu)) /\
     (dt = du -> forall p q, In p it -> fst p = dt -> In q iu -> kdis (tents p) (tents q))).

Definition Pairwise (ths : list thread) : Prop :=
  forall i j t u, i <> j -> nth_error ths i = Some t -> nth_error ths j = Some u -> PR t u.

(** every hidden id belongs to an in-flight compaction *)
Definition HidOk (sh : shr) (ths : list thread) : Prop :=
  forall x, In x (s_hidden sh) ->
  exists i t m d inp, nth_error ths i = Some t /\ inflight t = Some (m, d, inp) /\ In x (inp_ids inp).

(** recorded reads at clean snapshots already equal the Spec over the writes so far, and no
    later insert can change that *)
Definition ObsInv (sh : shr) (os : list obs) : Prop :=
  forall o, In o os -> o_clean o = true ->
  o_S o <= wnext sh /\ o_res o = spec_get (s_log sh) (o_key o) (o_S o).

Definition CInvG (st : cstate) : Prop :=
  c_panic st = false /\
  exists l, DInvL (c_sh st) l /\
    (forall i t, nth_error (c_thr st) i = Some t -> TInv (c_sh st) l t) /\
    Pairwise (c_thr st) /\ HidOk (c_sh st) (c_thr st) /\ ObsInv (c_sh st) (c_obs st).

(** the invariant; vacuous once a strategy has violated its obligation *)
Definition CInv (st : cstate) : Prop := c_bad st = true \/ CInvG st.

(** * I. Effect of an insert on the superversions that share the memtable *)

Lemma map_heap_ins_other h a e ids :
  ~ In a ids -> map (heap_get (heap_ins h a e)) ids = map (heap_get h) ids.
Proof.
  intros H. apply map_ext_in. intros id HI. apply heap_get_ins_other. intros ->. contradiction.
Qed.

Lemma containers_ins h a e sv :
  ~ In a (cs_sealed sv) ->
  containers (heap_ins h a e) sv =
  (if a =? cs_active sv then mt_insert e (heap_get h a) else heap_get h (cs_active sv))
  :: map (heap_get h) (rev (cs_sealed sv)) ++ map ct_ents (concat (cs_ver sv)).
Proof.
  intros H. unfold containers. rewrite heap_get_ins, map_heap_ins_other; [reflexivity|].
  intros HI. apply H. now apply in_rev.
Qed.

Lemma containers_tail_sub h log sv c :
  (forall id, incl (heap_get h id) log) -> SvSub log sv ->
  In c (containers h sv) -> incl c log.
Proof.
  intros HH HT HI. unfold containers in HI. destruct HI as [<-|HI]; [apply HH|].
  apply in_app_or in HI. destruct HI as [HI|HI].
  - apply in_map_iff in HI. destruct HI as (id & <- & _). apply HH.
  - apply in_map_iff in HI. destruct HI as (t & <- & Ht). now apply HT.
Qed.

Lemma content_sub h log sv :
  (forall id, incl (heap_get h id) log) -> SvSub log sv -> incl (content h sv) log.
Proof.
  intros HH HT e HI. unfold content in HI. apply in_concat in HI. destruct HI as (c & Hc & He).
  eapply containers_tail_sub; eauto.
Qed.

Lemma svwf_ins h log a e sv :
  (forall id, incl (heap_get h id) log) -> SvSub log sv ->
  (forall x, In x log -> seq x < seq e) -> ~ In a (cs_sealed sv) ->
  SvWf h sv -> SvWf (heap_ins h a e) sv.
Proof.
  intros HH HT HL NA [HS HR]. unfold SvWf. rewrite (containers_ins h a e sv NA).
  destruct (a =? cs_active sv) eqn:E; [|exact (conj HS HR)].
  apply N.eqb_eq in E. subst a. unfold containers in HS, HR.
  set (rest := map (heap_get h) (rev (cs_sealed sv)) ++ map ct_ents (concat (cs_ver sv))) in *.
  split.
  - intros c [<-|HI]; [|apply HS; now right].
    apply mt_insert_ssorted; [apply HS; now left|]. intros x Hx. apply HL. eapply HH; eauto.
  - apply Rec_cons in HR. destruct HR as [H1 H2]. apply Rec_cons. split; [|exact H2].
    intros c' Hc' x x' Hx Hx' Ek. apply In_mt_insert in Hx. destruct Hx as [->|Hx].
    + apply HL. eapply (containers_tail_sub h log sv c'); eauto. right. exact Hc'.
    + eapply H1; eauto.
Qed.

Lemma content_ins_below h a e sv S :
  ~ In a (cs_sealed sv) -> S <= seq e ->
  below S (content (heap_ins h a e) sv) = below S (content h sv).
Proof.
  intros NA HS. unfold content. rewrite (containers_ins h a e sv NA). unfold containers.
  cbn [concat]. rewrite !below_app. f_equal.
  destruct (a =? cs_active sv) eqn:E; [|reflexivity].
  apply N.eqb_eq in E. subst a. now apply below_mt_insert.
Qed.

Lemma content_ins_perm h a e sv :
  a = cs_active sv -> ~ In a (cs_sealed sv) ->
  (forall x, In x (heap_get h a) -> seq x < seq e) ->
  Permutation (content (heap_ins h a e) sv) (e :: content h sv).
Proof.
  intros -> NA HL. unfold content. rewrite (containers_ins h _ e sv NA), N.eqb_refl.
  unfold containers. cbn [concat].
  change (e :: heap_get h (cs_active sv) ++ ?r) with ((e :: heap_get h (cs_active sv)) ++ r).
  apply Permutation_app_tail. now apply mt_insert_perm.
Qed.

Lemma content_ins_other h a e sv :
  a <> cs_active sv -> ~ In a (cs_sealed sv) -> content (heap_ins h a e) sv = content h sv.
Proof.
  intros NE NA. unfold content. rewrite (containers_ins h a e sv NA).
  apply N.eqb_neq in NE. rewrite NE. reflexivity.
Qed.

Lemma newest_zero k l : newest k 0 l = None.
Proof. apply newest_none. intros e _. unfold matches. destruct (seq e <? 0) eqn:E; [apply N.ltb_lt in E; lia|]. apply andb_false_r. Qed.

(** an insert at or above the snapshot is invisible on both sides *)
Lemma view_ins_low h log a e sv S :
  ~ In a (cs_sealed sv) -> S <= seq e ->
  View h log sv S -> View (heap_ins h a e) (log ++ [e]) sv S.
Proof.
  intros NA HS HV k.
  rewrite (newest_below k S (content _ sv)), (content_ins_below h a e sv S NA HS), <- newest_below.
  rewrite newest_ignores_newer; [apply HV|]. intros x [<-|[]]. exact HS.
Qed.

(** ... and an insert below the snapshot into the ACTIVE memtable of [sv] is seen on both sides *)
Lemma view_ins_active h log a e sv S :
  a = cs_active sv -> ~ In a (cs_sealed sv) ->
  (forall id, incl (heap_get h id) log) -> SvSub log sv ->
  (forall x, In x log -> seq x < seq e) ->
  SvWf (heap_ins h a e) sv ->
  View h log sv S -> View (heap_ins h a e) (log ++ [e]) sv S.
Proof.
  intros EA NA HH HT HL [HS' HR'] HV k.
  destruct (N.le_gt_cases S (seq e)) as [LE|GT].
  { apply view_ins_low; auto. }
  assert (forall x, In x (content h sv) -> seq x < seq e) as HC.
  { intros x Hx. apply HL. eapply content_sub; eauto. }
  rewrite (newest_top_perm k S e (content h sv) (content (heap_ins h a e) sv)).
  - rewrite newest_snoc_top by exact HL.
    destruct (matches k S e); [reflexivity|apply HV].
  - apply content_ins_perm; auto. intros x Hx. apply HL. eapply HH; eauto.
  - unfold content. now apply content_uniq'.
  - exact HC.
Qed.

Lemma spec_get_ins_low log e k S :
  S <= seq e -> spec_get (log ++ [e]) k S = spec_get log k S.
Proof.
  intros H. unfold spec_get. rewrite newest_ignores_newer; [reflexivity|].
  intros x [<-|[]]. exact H.
Qed.

(** the read path computes the Spec's [newest] over the content *)
Lemma lookup_first_spec cs k S :
  AllS cs -> Rec cs -> lookup_first cs k S = newest k S (concat cs).
Proof.
  intros HS HR. rewrite newest_concat; [|now apply AllS_all_sorted|now apply Rec_iff].
  clear HR. induction cs as [|c cs IH]; [reflexivity|]. cbn [lookup_first first_hit].
  rewrite slab_get_newest by (rewrite <- ssorted_eq; apply HS; now left).
  rewrite IH; [reflexivity|]. intros c' HI. apply HS. now right.
Qed.

Lemma cget_spec h sv k S : SvWf h sv -> cget h sv k S = visible (newest k S (content h sv)).
Proof. intros [HS HR]. unfold cget, content. now rewrite lookup_first_spec. Qed.

(** * J. Frame lemmas: how the per-thread invariant of a thread that does NOT move reacts
      to the changes other threads make to the shared state *)

(** counters grow, the hidden set grows, nothing else changes *)
Lemma frame_mono sh sh' l u :
  s_hist sh' = s_hist sh -> s_heap sh' = s_heap sh -> s_log sh' = s_log sh ->
  s_nmid sh' = s_nmid sh -> s_vis sh <= s_vis sh' -> s_ntid sh <= s_ntid sh' ->
  wnext sh <= wnext sh' -> incl (s_hidden sh) (s_hidden sh') ->
  TInv sh l u -> TInv sh' l u.
Proof.
  intros Eh Ehp El En Hv Ht Hw Hh (F & G & T).
  split; [|split].
  - intros x Hx. destruct (F x Hx). split; [lia|assumption].
  - intros W HW. specialize (G W HW). lia.
  - assert (forall sn c, SnapOk sh sn c -> SnapOk sh' sn c) as SO.
    { intros sn c (A & sv & B & C). split; [lia|]. exists sv. rewrite Eh. split; [exact B|].
      intros Hc. destruct (C Hc) as [C1 C2]. rewrite Ehp, El. split; [lia|exact C2]. }
    assert (forall a sv, SvGood sh a sv -> SvGood sh' a sv) as SG.
    { intros a sv (A & B & C). unfold SvGood. rewrite Ehp, En, El. auto. }
    destruct u as [keys [|sn c|sn c sv|]|n|prog [|W ids|W ids out]|prog [|W maj d oid inp|W maj d inp out]];
      cbn [TInvS] in *; auto.
    + destruct T as (A & B & C). split; [auto|]. split; [auto|]. rewrite Ehp, El. exact C.
    + rewrite Ehp. exact T.
    + destruct T as (A & B). split; [exact A|]. eapply incl_tran; eauto.
    + destruct T as (A & B & C). split; [exact A|]. split; [eapply incl_tran; eauto|exact C].
Qed.

(** the writer's insert [W2] *)
Lemma frame_insert sh sh' l e u :
  DInvL sh l -> s_wst sh = WDrawn e ->
  s_hist sh' = s_hist sh -> s_heap sh' = heap_ins (s_heap sh) (cs_active l) e ->
  s_log sh' = s_log sh ++ [e] -> s_nmid sh' = s_nmid sh -> s_vis sh' = s_vis sh ->
  s_ntid sh' = s_ntid sh -> s_hidden sh' = s_hidden sh -> seq e <= wnext sh' ->
  TInv sh l u -> TInv sh' l u.
Proof.
  intros D Ew Eh Ehp El En Ev Et Ehd Hw (F & G & T).
  assert (wnext sh = seq e) as WN by (unfold wnext; now rewrite Ew).
  assert (forall x, In x (s_log sh) -> seq x < seq e) as HL.
  { intros x Hx. rewrite <- WN. now apply (dl_log_lt _ _ D). }
  pose proof (dl_heap_sub _ _ D) as HH.
  split; [|split].
  - intros x Hx. destruct (F x Hx). rewrite Et. auto.
  - intros W HW. specialize (G W HW). lia.
  - assert (forall a sv, a = cs_active l -> SvGood sh a sv -> SvGood sh' a sv) as SG.
    { intros a sv -> (A & B & C). unfold SvGood. rewrite Ehp, En, El. split; [|split; [exact B|]].
      - eapply svwf_ins; eauto. apply B.
      - intros t Ht x Hx. apply in_or_app. left. eapply C; eauto. }
    assert (forall sn c, SnapOk sh sn c -> SnapOk sh' sn c) as SO.
    { intros sn c (A & sv & B & C). split; [lia|]. exists sv. rewrite Eh. split; [exact B|].
      intros Hc. destruct (C Hc) as [C1 C2]. rewrite Ehp, El. split; [lia|].
      apply view_ins_low; [|lia|exact C2].
      apply cvfs_In in B. destruct (dl_good _ _ D sv B) as (_ & (_ & _ & X) & _). exact X. }
    destruct u as [keys [|sn c|sn c sv|]|n|prog [|W ids|W ids out]|prog [|W maj d oid inp|W maj d inp out]];
      cbn [TInvS] in *; auto.
    + destruct T as (A & B & C). split; [auto|]. split; [auto|]. intros Hc. rewrite Ehp, El.
      destruct A as (_ & sv' & _ & A). destruct (A Hc) as [A1 _].
      apply view_ins_low; [apply B|lia|auto].
    + destruct T as ((rest & A) & oid & B). split; [eauto|]. exists oid. rewrite B, Ehp.
      unfold flush_out. rewrite map_heap_ins_other; [reflexivity|].
      destruct (dl_good _ _ D l (clatest_In _ _ (dl_latest _ _ D))) as (_ & (_ & _ & X) & _).
      intros HI. apply X. rewrite A. apply in_or_app. now left.
    + rewrite Ehd. exact T.
    + rewrite Ehd. exact T.
Qed.

(** rotation: the latest superversion is replaced in place *)
Definition rotated (l : csv) (nmid : N) : csv :=
  mkCSV (cs_seq l) nmid (cs_sealed l ++ [cs_active l]) (cs_ver l).

Lemma containers_rotated h l nmid :
  heap_get h nmid = [] -> containers h (rotated l nmid) = [] :: containers h l.
Proof.
  intros H. unfold containers, rotated. cbn [cs_active cs_sealed cs_ver].
  rewrite H, rev_app_distr. reflexivity.
Qed.

Lemma content_rotated h l nmid : heap_get h nmid = [] -> content h (rotated l nmid) = content h l.
Proof. intros H. unfold content. rewrite containers_rotated by exact H. reflexivity. Qed.

Lemma svids_bump nmid a sv : SvIds nmid a sv -> SvIds (nmid + 1) nmid sv.
Proof.
  intros (A & B & C). split; [exact A|]. split.
  - intros id HI. specialize (B id HI). lia.
  - intros HI. specialize (B nmid (or_intror HI)). lia.
Qed.

Lemma frame_rotate sh sh' l u :
  DInvL sh l ->
  s_hist sh' = removelast (s_hist sh) ++ [rotated l (s_nmid sh)] ->
  s_heap sh' = s_heap sh -> s_log sh' = s_log sh -> s_nmid sh' = s_nmid sh + 1 ->
  s_vis sh' = s_vis sh -> s_ntid sh' = s_ntid sh -> s_hidden sh' = s_hidden sh ->
  wnext sh' = wnext sh ->
  TInv sh l u -> TInv sh' (rotated l (s_nmid sh)) u.
Proof.
  intros D Eh Ehp El En Ev Et Ehd Ew (F & G & T).
  pose proof (dl_heap_fresh _ _ D (s_nmid sh) (N.le_refl _)) as HF.
  split; [|split].
  - intros x Hx. destruct (F x Hx). rewrite Et. auto.
  - intros W HW. specialize (G W HW). lia.
  - assert (forall a sv, SvGood sh a sv -> SvGood sh' (s_nmid sh) sv) as SG.
    { intros a sv (A & B & C). unfold SvGood. rewrite Ehp, En, El.
      split; [exact A|]. split; [eapply svids_bump; eauto|exact C]. }
    assert (forall sn c, SnapOk sh sn c -> SnapOk sh' sn c) as SO.
    { intros sn c (A & sv & B & C). split; [lia|]. rewrite Eh, Ehp, El, Ew.
      rewrite (clatest_inv _ _ (dl_latest _ _ D)) in B.
      destruct (cvfs_replace _ l (rotated l (s_nmid sh)) sn sv eq_refl B) as [[-> B']|[_ B']].
      - exists (rotated l (s_nmid sh)). split; [exact B'|]. intros Hc. destruct (C Hc) as [C1 C2].
        split; [exact C1|]. intros k. rewrite content_rotated by exact HF. apply C2.
      - exists sv. auto. }
    destruct u as [keys [|sn c|sn c sv|]|n|prog [|W ids|W ids out]|prog [|W maj d oid inp|W maj d inp out]];
      cbn [TInvS rotated cs_active cs_sealed cs_ver] in *; auto.
    + destruct T as (A & B & C). split; [auto|]. split; [eauto|]. rewrite Ehp, El. exact C.
    + destruct T as (rest & A). exists (rest ++ [cs_active l]). rewrite A, app_assoc. reflexivity.
    + destruct T as ((rest & A) & B). split.
      * exists (rest ++ [cs_active l]). rewrite A, app_assoc. reflexivity.
      * rewrite Ehp. exact B.
    + rewrite Ehd. exact T.
    + rewrite Ehd. exact T.
Qed.

(** installing a new superversion ([upgrade_version] + [maintenance]) *)
Lemma snapok_install sh sh' l l' W sn c :
  DInvL sh l ->
  s_hist sh' = cmaint (s_hist sh ++ [l']) W -> cs_seq l' = s_ctr sh ->
  s_heap sh' = s_heap sh -> s_log sh' = s_log sh ->
  s_vis sh <= s_vis sh' -> wnext sh <= wnext sh' -> W <= sn ->
  SnapOk sh sn c -> SnapOk sh' sn c.
Proof.
  intros D Eh Es Ehp El Hv Hw HW (A & sv & B & C). split; [lia|]. exists sv. split.
  - rewrite Eh. apply cmaint_keeps; [exact HW|]. apply cvfs_after_append; [|exact B].
    rewrite Es. pose proof (dl_vis_le _ _ D). lia.
  - intros Hc. destruct (C Hc) as [C1 C2]. rewrite Ehp, El. split; [lia|exact C2].
Qed.

Lemma svgood_same sh sh' a sv :
  s_heap sh' = s_heap sh -> s_log sh' = s_log sh -> s_nmid sh' = s_nmid sh ->
  SvGood sh a sv -> SvGood sh' a sv.
Proof. intros Ehp El En (A & B & C). unfold SvGood. rewrite Ehp, El, En. auto. Qed.

(** (b) an in-flight compaction survives the installation of OTHER tables: a [with_merge]
    (or [with_new_l0_run], the case [ids' = []], [d' = 0]) that removes other ids and whose
    new tables sit correctly relative to the inputs *)
Lemma compat_after v d inp ids' ts d' :
  CompatV v d inp -> (d' < length v)%nat ->
  (forall x, In x (inp_ids inp) -> ~ In x ids') ->
  (forall t, In t ts -> ~ In (ct_id t) (inp_ids inp)) ->
  (forall t p, In t ts -> In p inp ->
     ((d' < d)%nat -> newer (ct_ents t) (tents p)) /\
     ((d <= d')%nat -> newer (tents p) (ct_ents t) /\ (d = LAST_LEVEL -> kdis (tents p) (ct_ents t)))) ->
  CompatV (v_merge v ids' ts d') d inp.
Proof.
  intros CV Hd HD HT HN. constructor.
  - rewrite chosen_stable by assumption. apply CV.
  - apply CV.
  - apply CV.
  - apply CV.
  - intros q p Hq Hs Hp Hlt. apply tag_merge_in in Hq; [|exact Hd].
    destruct Hq as [[Hq _]|[Eq Hq]].
    + eapply cv_above; eauto.
    + destruct (HN (snd q) p Hq Hp) as [X _]. apply X. lia.
  - intros q p Hq Hs Hp Hle. apply tag_merge_in in Hq; [|exact Hd].
    destruct Hq as [[Hq _]|[Eq Hq]].
    + eapply cv_below; eauto.
    + destruct (HN (snd q) p Hq Hp) as [_ X]. apply X. lia.
Qed.

Lemma newer_kdis c c' : newer c c' -> newer c' c -> kdis c c'.
Proof.
  intros H1 H2 e e' He He' Ek. pose proof (H1 e e' He He' Ek).
  pose proof (H2 e' e He' He (eq_sym Ek)). lia.
Qed.

Lemma kdis_newer c c' : kdis c c' -> newer c c'.
Proof. intros H e e' He He' Ek. exfalso. eapply H; eauto. Qed.

Lemma kdis_sym c c' : kdis c c' -> kdis c' c.
Proof. intros H e e' He He' Ek. eapply H; eauto. Qed.

(** two in-flight compactions that are both compatible with the version, have disjoint
    inputs and respect the same-destination rule: the output of one sits correctly
    relative to the inputs of the other *)
Lemma compat_merge_cond v dA inpA dB inpB b p :
  CompatV v dA inpA -> CompatV v dB inpB ->
  (forall x, In x (inp_ids inpA) -> ~ In x (inp_ids inpB)) ->
  (dB = dA -> forall p q, In p inpB -> fst p = dB -> In q inpA -> kdis (tents p) (tents q)) ->
  In b inpA -> In p inpB ->
  ((dA < dB)%nat -> newer (tents b) (tents p)) /\
  ((dB <= dA)%nat -> newer (tents p) (tents b) /\ (dB = LAST_LEVEL -> kdis (tents p) (tents b))).
Proof.
  intros CA CB HD PW Hb Hp.
  assert (In b (tag_levels 0 v) /\ sel_in (inp_ids inpB) b = false) as [Tb Sb].
  { pose proof Hb as Hb'. rewrite (cv_chosen _ _ _ CA) in Hb'. apply chosen_in in Hb'.
    split; [apply Hb'|]. unfold sel_in. apply mem_in_false. apply HD.
    apply inp_ids_in. eauto. }
  assert (In p (tag_levels 0 v) /\ sel_in (inp_ids inpA) p = false) as [Tp Sp].
  { pose proof Hp as Hp'. rewrite (cv_chosen _ _ _ CB) in Hp'. apply chosen_in in Hp'.
    split; [apply Hp'|]. unfold sel_in. apply mem_in_false. intros HI.
    apply (HD _ HI). apply inp_ids_in. eauto. }
  pose proof (cv_down _ _ _ CA b Hb) as Lb. pose proof (cv_down _ _ _ CB p Hp) as Lp.
  split.
  - intros Hlt. eapply (cv_above _ _ _ CB b p); eauto. lia.
  - intros Hle. destruct (Compare_dec.le_lt_dec dB (fst b)) as [G|G].
    + apply (cv_below _ _ _ CB b p); auto.
    + pose proof (cv_above _ _ _ CB b p Tb Sb Hp G) as N1.
      destruct (Compare_dec.le_lt_dec dA (fst p)) as [G2|G2].
      * assert (dB = dA) by lia. assert (fst p = dB) by lia.
        pose proof (PW H p b Hp H0 Hb) as K. split; [now apply kdis_newer|auto].
      * pose proof (cv_above _ _ _ CA p b Tp Sp Hb G2) as N2. split; [exact N2|].
        intros _. apply newer_kdis; assumption.
Qed.

(** * K. Soundness of the decidable checks *)

Lemma NoDup_map_filter {A B} (f : A -> B) (p : A -> bool) l :
  NoDup (map f l) -> NoDup (map f (filter p l)).
Proof.
  induction l as [|x l IH]; cbn [map filter]; intros H; [constructor|].
  inversion H as [|? ? NI ND]; subst. destruct (p x); cbn [map]; [|auto].
  constructor; [|auto]. intros HI. apply NI. apply in_map_iff in HI.
  destruct HI as (y & E & Hy). apply filter_In in Hy. rewrite <- E. apply in_map. apply Hy.
Qed.

Lemma sel_chosen ids v p :
  In p (tag_levels 0 v) -> sel_in (inp_ids (chosen ids v)) p = sel_in ids p.
Proof.
  intros HI. unfold sel_in. destruct (mem_in (ct_id (snd p)) ids) eqn:E.
  - apply mem_in_iff. apply inp_ids_in. exists p. split; [|reflexivity].
    apply chosen_in. split; [exact HI|]. now apply mem_in_iff.
  - apply mem_in_false. intros H. apply inp_ids_in in H. destruct H as (p' & Hp' & Eid).
    apply chosen_in in Hp'. destruct Hp' as [_ Hp']. rewrite Eid in Hp'.
    apply mem_in_iff in Hp'. congruence.
Qed.

Lemma chosen_self ids v : chosen ids v = chosen (inp_ids (chosen ids v)) v.
Proof.
  unfold chosen at 1 3. apply filter_ext_in. intros p HI. symmetry. now apply sel_chosen.
Qed.

Lemma inp_ids_chosen ids v :
  inp_ids (chosen ids v) = map ct_id (filter (fun t => mem_in (ct_id t) ids) (concat v)).
Proof.
  unfold inp_ids, chosen, sel_in. rewrite <- (map_map snd ct_id).
  rewrite (filter_snd_map (fun t => mem_in (ct_id t) ids)), map_snd_tag. reflexivity.
Qed.

Lemma strategy_ok_compat ths v ids dest :
  NoDup (map ct_id (concat v)) -> strategy_ok ths v ids dest = true ->
  CompatV v dest (chosen ids v).
Proof.
  intros ND H. unfold strategy_ok in H. cbv zeta in H.
  apply andb_true_iff in H. destruct H as [H _].
  apply andb_true_iff in H. destruct H as [H Hoth].
  apply andb_true_iff in H. destruct H as [H Hdown].
  apply andb_true_iff in H. destruct H as [H Hdest2].
  apply andb_true_iff in H. destruct H as [_ Hdest1].
  apply PeanoNat.Nat.leb_le in Hdest1. apply PeanoNat.Nat.ltb_lt in Hdest2.
  rewrite forallb_forall in Hdown, Hoth.
  constructor.
  - apply chosen_self.
  - rewrite inp_ids_chosen. now apply NoDup_map_filter.
  - split; assumption.
  - intros p Hp. apply PeanoNat.Nat.leb_le. now apply Hdown.
  - intros q p Hq Hs Hp Hlt. rewrite sel_chosen in Hs by exact Hq.
    assert (In q (unchosen ids v)) as Hu.
    { unfold unchosen. apply filter_In. split; [exact Hq|]. now rewrite Hs. }
    specialize (Hoth q Hu). apply PeanoNat.Nat.ltb_lt in Hlt. rewrite Hlt in Hoth.
    rewrite forallb_forall in Hoth. specialize (Hoth p Hp). now apply newer_iff.
  - intros q p Hq Hs Hp Hle. rewrite sel_chosen in Hs by exact Hq.
    assert (In q (unchosen ids v)) as Hu.
    { unfold unchosen. apply filter_In. split; [exact Hq|]. now rewrite Hs. }
    specialize (Hoth q Hu).
    assert (Nat.ltb (fst q) dest = false) as E by (apply PeanoNat.Nat.ltb_ge; exact Hle).
    rewrite E in Hoth. apply andb_true_iff in Hoth. destruct Hoth as [O1 O2].
    rewrite forallb_forall in O1. split; [apply newer_iff; now apply O1|].
    intros Ed. apply orb_true_iff in O2. destruct O2 as [O2|O2].
    + apply negb_true_iff, PeanoNat.Nat.eqb_neq in O2. contradiction.
    + rewrite forallb_forall in O2. apply kdisj_iff. now apply O2.
Qed.

Lemma strategy_ok_pw ths v ids dest u :
  strategy_ok ths v ids dest = true -> In u ths -> pw_ok dest (chosen ids v) u = true.
Proof.
  intros H HI. unfold strategy_ok in H. cbv zeta in H.
  apply andb_true_iff in H. destruct H as [_ H]. rewrite forallb_forall in H. now apply H.
Qed.

Lemma pw_ok_sound dest inp u m d' inp' :
  pw_ok dest inp u = true -> inflight u = Some (m, d', inp') -> d' = dest ->
  (forall p q, In p inp -> fst p = dest -> In q inp' -> kdis (tents p) (tents q)) /\
  (forall q p, In q inp' -> fst q = dest -> In p inp -> kdis (tents q) (tents p)).
Proof.
  intros H E Ed. unfold pw_ok in H. rewrite E in H. subst d'.
  rewrite PeanoNat.Nat.eqb_refl in H. cbn [negb orb] in H.
  apply andb_true_iff in H. destruct H as [H1 H2]. rewrite forallb_forall in H1, H2. split.
  - intros p q Hp Ep Hq. specialize (H1 p Hp). rewrite Ep, PeanoNat.Nat.eqb_refl in H1.
    cbn [negb orb] in H1. rewrite forallb_forall in H1. apply kdisj_iff. now apply H1.
  - intros q p Hq Eq Hp. specialize (H2 q Hq). rewrite Eq, PeanoNat.Nat.eqb_refl in H2.
    cbn [negb orb] in H2. rewrite forallb_forall in H2. apply kdisj_iff. now apply H2.
Qed.

Lemma rust_checks_sound hidden v ids :
  rust_checks hidden v ids = true -> forall x, In x ids -> ~ In x hidden.
Proof.
  intros H x Hx. unfold rust_checks in H. apply andb_true_iff in H. destruct H as [H _].
  rewrite forallb_forall in H. specialize (H x Hx). apply negb_true_iff in H.
  now apply mem_in_false.
Qed.

Lemma safe_wm_le_vis vis ths : safe_wm vis ths <= vis.
Proof.
  induction ths as [|t ths IH]; cbn [safe_wm fold_right]; [lia|].
  fold (safe_wm vis ths). destruct (live_snap t); lia.
Qed.

Lemma safe_wm_le_live vis ths u sn : In u ths -> live_snap u = Some sn -> safe_wm vis ths <= sn.
Proof.
  induction ths as [|t ths IH]; intros HI E; [contradiction|].
  cbn [safe_wm fold_right]. fold (safe_wm vis ths). destruct HI as [->|HI].
  - rewrite E. lia.
  - specialize (IH HI E). destruct (live_snap t); lia.
Qed.

(** * L. Preservation, step by step *)

Lemma assemble (thr : list thread) i t sh' t' l' wprog obs' b :
  nth_error thr i = Some t ->
  DInvL sh' l' ->
  TInv sh' l' t' ->
  (forall j u, j <> i -> nth_error thr j = Some u -> TInv sh' l' u /\ PR t' u /\ PR u t') ->
  Pairwise thr ->
  HidOk sh' (set_nth i t' thr) ->
  ObsInv sh' obs' ->
  CInvG (mkC sh' wprog (set_nth i t' thr) obs' b false).
Proof.
  intros Hn D T F P H O. split; [reflexivity|]. exists l'. cbn [c_sh c_thr c_obs].
  split; [exact D|]. split; [|split; [|split; [exact H|exact O]]].
  - intros j u Hj. apply nth_set_nth_inv in Hj. destruct Hj as [[-> ->]|[NE Hj]]; [exact T|].
    apply (proj1 (F j u NE Hj)).
  - intros j k u w NE Hj Hk.
    apply nth_set_nth_inv in Hj. apply nth_set_nth_inv in Hk.
    destruct Hj as [[-> ->]|[NEj Hj]], Hk as [[-> ->]|[NEk Hk]].
    + congruence.
    + apply (proj1 (proj2 (F k w NEk Hk))).
    + apply (proj2 (proj2 (F j u NEj Hj))).
    + exact (P j k u w NE Hj Hk).
Qed.

Lemma hidok_same sh sh' thr i t t' :
  nth_error thr i = Some t -> s_hidden sh' = s_hidden sh -> inflight t' = inflight t ->
  HidOk sh thr -> HidOk sh' (set_nth i t' thr).
Proof.
  intros Hn Eh Ei H x Hx. rewrite Eh in Hx. destruct (H x Hx) as (j & u & m & d & inp & A & B & C).
  destruct (PeanoNat.Nat.eq_dec j i) as [->|NE].
  - exists i, t', m, d, inp. rewrite (nth_set_nth_eq _ _ _ _ Hn). rewrite Ei.
    assert (u = t) by congruence. subst u. auto.
  - exists j, u, m, d, inp. rewrite nth_set_nth_neq by congruence. auto.
Qed.

Lemma pr_local t t' u :
  busy_flusher t' = busy_flusher t -> gcW t' = gcW t -> live_snap t' = live_snap t ->
  (forall x, In x (pend_ids t') -> In x (pend_ids t)) -> inflight t' = inflight t ->
  PR t u -> PR u t -> PR t' u /\ PR u t'.
Proof.
  intros Eb Eg El Ep Ei (A1 & A2 & A3 & A4) (B1 & B2 & B3 & B4). split.
  - split; [rewrite Eb; exact A1|]. split; [rewrite Eg; exact A2|]. split; [auto|].
    rewrite Ei. exact A4.
  - split; [rewrite Eb; exact B1|]. split; [rewrite El; exact B2|].
    split; [intros x Hx Hx'; apply (B3 x Hx); auto|]. rewrite Ei. exact B4.
Qed.

(** ** the writer *)

Lemma obsinv_mono sh sh' os :
  s_log sh' = s_log sh -> wnext sh <= wnext sh' -> ObsInv sh os -> ObsInv sh' os.
Proof.
  intros El Hw H o Ho Hc. destruct (H o Ho Hc) as [A B]. rewrite El. split; [lia|exact B].
Qed.

Lemma wstep_inv st sh' prog' p :
  CInvG st -> wstep (c_sh st) (c_wprog st) = Some (sh', prog', p) ->
  p = false /\ CInvG (mkC sh' prog' (c_thr st) (c_obs st) (c_bad st) p).
Proof.
  intros (HP & l & D & T & PW & HO & OI) E. unfold wstep in E.
  destruct (c_sh st) as [hist heap ctr vis ntid nmid hidden ws log wpub] eqn:Esh.
  cbn [s_wst s_hist s_heap s_ctr s_vis s_ntid s_nmid s_hidden s_log s_wpub] in E.
  destruct ws as [|e|e].
  - (* W1 *)
    destruct (c_wprog st) as [|o rest]; [discriminate|]. inversion E; subst sh' prog' p. clear E.
    split; [reflexivity|]. split; [reflexivity|]. exists l. cbn [c_sh c_thr c_obs].
    set (sh := mkS hist heap ctr vis ntid nmid hidden WIdle log wpub) in *.
    set (sh' := mkS hist heap (ctr + 1) vis ntid nmid hidden (WDrawn (wop_entry o ctr)) log wpub).
    assert (seq (wop_entry o ctr) = ctr) as Es by (destruct o; reflexivity).
    assert (wnext sh' = wnext sh) as Ew by (unfold wnext; cbn; exact Es).
    split; [|split; [|split; [exact PW|split; [exact HO|]]]].
    + clear Ew. destruct D. subst sh sh'. unfold wnext in *.
      constructor; unfold wnext;
        cbn [s_hist s_heap s_ctr s_vis s_ntid s_nmid s_hidden s_wst s_log s_wpub] in *; auto.
      * intros sv Hsv. specialize (dl_seq_le0 sv Hsv). lia.
      * lia.
      * rewrite Es. exact dl_log_lt0.
      * split; [rewrite Es; lia|destruct o; reflexivity].
      * rewrite Es. exact dl_wpub0.
    + intros i t Hi.
      apply (frame_mono sh sh' l t); [reflexivity|reflexivity|reflexivity|reflexivity|cbn; lia|cbn; lia
                                     |rewrite Ew; lia|apply incl_refl|eapply T; eauto].
    + apply (obsinv_mono sh sh'); [reflexivity|rewrite Ew; lia|exact OI].
  - (* W2 *)
    pose proof (dl_latest _ _ D) as HL. cbn [s_hist] in HL. rewrite HL in E.
    inversion E; subst sh' prog' p. clear E.
    split; [reflexivity|]. split; [reflexivity|]. exists l. cbn [c_sh c_thr c_obs].
    set (sh := mkS hist heap ctr vis ntid nmid hidden (WDrawn e) log wpub) in *.
    set (sh' := mkS hist (heap_ins heap (cs_active l) e) ctr vis ntid nmid hidden (WIns e) (log ++ [e]) wpub).
    assert (wnext sh = seq e) as WN by reflexivity.
    assert (forall x, In x log -> seq x < seq e) as HLt.
    { intros x Hx. rewrite <- WN. now apply (dl_log_lt _ _ D). }
    destruct (dl_wst _ _ D) as [We Wn]. cbn [s_ctr sh] in We.
    pose proof (dl_heap_sub _ _ D) as HH. cbn [s_heap s_log sh] in HH.
    destruct (dl_good _ _ D l (clatest_In _ _ HL)) as (LW & (LI1 & LI2 & LI3) & LS).
    cbn [s_heap s_nmid s_log sh] in LW, LI1, LI2, LI3, LS.
    assert (forall sv, In sv hist -> SvGood sh' (cs_active l) sv) as SG.
    { intros sv Hsv. destruct (dl_good _ _ D sv Hsv) as (A & B & C). unfold SvGood.
      cbn [sh' s_heap s_nmid s_log]. split; [|split; [exact B|]].
      - eapply svwf_ins; eauto. apply B.
      - intros t Ht x Hx. apply in_or_app. left. eapply C; eauto. }
    split; [|split; [|split; [exact PW|split; [exact HO|]]]].
    + pose proof (SG l (clatest_In _ _ HL)) as SGl.
      destruct D. subst sh sh'. unfold wnext in *.
      constructor; unfold wnext;
        cbn [s_hist s_heap s_ctr s_vis s_ntid s_nmid s_hidden s_wst s_log s_wpub] in *; auto.
      * intros id x Hx. rewrite heap_get_ins in Hx. destruct (cs_active l =? id).
        -- apply In_mt_insert in Hx. apply in_or_app. destruct Hx as [->|Hx]; [right; now left|left].
           eapply dl_heap_sub0; eauto.
        -- apply in_or_app. left. eapply dl_heap_sub0; eauto.
      * intros id Hid. rewrite heap_get_ins_other; [auto|]. intros <-.
        specialize (LI2 (cs_active l) (or_introl eq_refl)). lia.
      * apply SS_snoc; auto.
      * intros x Hx. apply in_app_or in Hx. destruct Hx as [Hx|[<-|[]]]; [|lia].
        specialize (HLt x Hx). lia.
      * intros x Hx. apply in_app_or in Hx. destruct Hx as [Hx|[<-|[]]]; [auto|exact Wn].
      * intros S HS. apply view_ins_active; auto. apply SGl.
      * lia.
    + intros i t Hi.
      apply (frame_insert sh sh' l e t D); try reflexivity; [unfold wnext; cbn; lia|eapply T; eauto].
    + intros o Ho Hc. destruct (OI o Ho Hc) as [A B]. cbn [s_log sh sh'] in *.
      rewrite WN in A. split; [unfold wnext; cbn; lia|].
      rewrite spec_get_ins_low; [exact B|exact A].
  - (* W3 *)
    inversion E; subst sh' prog' p. clear E.
    split; [reflexivity|]. split; [reflexivity|]. exists l. cbn [c_sh c_thr c_obs].
    set (sh := mkS hist heap ctr vis ntid nmid hidden (WIns e) log wpub) in *.
    set (sh' := mkS hist heap ctr (N.max vis (seq e + 1)) ntid nmid hidden WIdle log (N.max wpub (seq e + 1))).
    assert (wnext sh' = wnext sh) as Ew by reflexivity.
    pose proof (dl_wst _ _ D) as We. cbn [s_wst s_ctr sh] in We.
    split; [|split; [|split; [exact PW|split; [exact HO|]]]].
    + clear Ew. destruct D. subst sh sh'. unfold wnext in *.
      constructor; unfold wnext;
        cbn [s_hist s_heap s_ctr s_vis s_ntid s_nmid s_hidden s_wst s_log s_wpub] in *; auto.
      * lia.
      * destruct dl_lat_vis0 as [A|(A & B & C)]; left; lia.
      * lia.
    + intros i t Hi.
      apply (frame_mono sh sh' l t); [reflexivity|reflexivity|reflexivity|reflexivity|cbn; lia|cbn; lia
                                     |rewrite Ew; lia|apply incl_refl|eapply T; eauto].
    + apply (obsinv_mono sh sh'); [reflexivity|rewrite Ew; lia|exact OI].
Qed.

(** ** readers *)

Lemma pr_passive t' u :
  busy_flusher t' = false -> gcW t' = None -> pend_ids t' = [] -> inflight t' = None ->
  (forall W sn, gcW u = Some W -> live_snap t' = Some sn -> W <= sn) ->
  PR t' u /\ PR u t'.
Proof.
  intros Eb Eg Ep Ei H. split.
  - split; [rewrite Eb; discriminate|]. split; [rewrite Eg; discriminate|].
    split; [rewrite Ep; intros x []|]. rewrite Ei. discriminate.
  - split; [intros _; exact Eb|]. split; [exact H|]. split; [rewrite Ep; intros x _ []|].
    rewrite Ei. discriminate.
Qed.

Lemma view_zero h log sv : View h log sv 0.
Proof. intros k. now rewrite !newest_zero. Qed.

Lemma tinv_passive sh l t :
  pend_ids t = [] -> gcW t = None -> TInvS sh l t -> TInv sh l t.
Proof.
  intros Ep Eg H. split; [|split; [|exact H]].
  - intros x Hx. rewrite Ep in Hx. contradiction.
  - intros W HW. rewrite Eg in HW. discriminate.
Qed.

Lemma rstep_inv st i keys s sh' t' os b p :
  CInvG st -> nth_error (c_thr st) i = Some (TReader keys s) ->
  rstep i (c_sh st) keys s = Some (sh', t', os, b, p) ->
  p = false /\ b = false /\
  CInvG (mkC sh' (c_wprog st) (set_nth i t' (c_thr st)) (c_obs st ++ os) (c_bad st || b) p).
Proof.
  intros (HP & l & D & T & PW & HO & OI) Hn E.
  pose proof (T i _ Hn) as (_ & _ & Ti). unfold rstep in E.
  assert (forall t'', (exists k' s', t'' = TReader k' s') ->
            (forall sn, live_snap t'' = Some sn -> sn <= s_vis (c_sh st) /\ 
               (live_snap (TReader keys s) = Some sn \/ sn = s_vis (c_sh st))) ->
            forall j u, j <> i -> nth_error (c_thr st) j = Some u ->
            TInv (c_sh st) l u /\ PR t'' u /\ PR u t'') as FR.
  { intros t'' (k' & s' & ->) HL j u NE Hj. split; [eapply T; eauto|].
    apply pr_passive; try reflexivity.
    intros W sn HW Hs. destruct (HL sn Hs) as [_ [Hold| ->]].
    - destruct (PW j i u _ NE Hj Hn) as (_ & X & _). eapply X; eauto.
    - destruct (T j u Hj) as (_ & G & _). now apply G. }
  destruct s as [|sn cl|sn cl sv|].
  - (* RA *)
    inversion E; subst sh' t' os b p. clear E. split; [reflexivity|]. split; [reflexivity|].
    rewrite app_nil_r.
    eapply assemble; eauto.
    + apply tinv_passive; [reflexivity|reflexivity|]. cbn [TInvS]. split; [lia|].
      exists l. pose proof (dl_lat_vis _ _ D) as LV. split.
      * destruct LV as [LV|(V0 & Hh & _)].
        -- apply cvfs_latest; [apply D|exact LV].
        -- rewrite V0, cvfs_zero, Hh. reflexivity.
      * intros Hc. split.
        -- unfold snap_clean, wnext in *. destruct (s_wst (c_sh st)) eqn:Ew.
           ++ apply (dl_vis_le _ _ D).
           ++ now apply N.leb_le.
           ++ apply (dl_vis_le _ _ D).
        -- destruct LV as [LV|(V0 & _)]; [now apply (dl_view _ _ D)|]. rewrite V0. apply view_zero.
    + apply FR; [eauto|]. intros sn Hs. cbn in Hs. inversion Hs; subst. split; [lia|now right].
    + eapply hidok_same; eauto.
  - destruct keys as [|k keys'].
    + (* RD *)
      inversion E; subst sh' t' os b p. clear E. split; [reflexivity|]. split; [reflexivity|].
      rewrite app_nil_r. eapply assemble; eauto.
      * apply tinv_passive; [reflexivity|reflexivity|exact I].
      * apply FR; [eauto|]. intros sn' Hs. discriminate.
      * eapply hidok_same; eauto.
    + (* RB *)
      cbn [TInvS] in Ti. destruct Ti as (A & sv & B & C). rewrite B in E.
      inversion E; subst sh' t' os b p. clear E. split; [reflexivity|]. split; [reflexivity|].
      rewrite app_nil_r. eapply assemble; eauto.
      * apply tinv_passive; [reflexivity|reflexivity|]. cbn [TInvS].
        split; [split; [exact A|exists sv; auto]|]. split.
        -- apply (dl_good _ _ D). eapply cvfs_In; eauto.
        -- intros Hc. apply (C Hc).
      * apply FR; [eauto|]. intros sn' Hs. cbn in Hs. inversion Hs; subst. split; [exact A|now left].
      * eapply hidok_same; eauto.
  - cbn [TInvS] in Ti. destruct Ti as (SO & SG & VW). destruct keys as [|k keys'].
    + inversion E; subst sh' t' os b p. clear E. split; [reflexivity|]. split; [reflexivity|].
      rewrite app_nil_r. eapply assemble; eauto.
      * apply tinv_passive; [reflexivity|reflexivity|exact SO].
      * apply FR; [eauto|]. intros sn' Hs. cbn in Hs. inversion Hs; subst.
        split; [apply SO|now left].
      * eapply hidok_same; eauto.
    + (* RC *)
      inversion E; subst sh' t' os b p. clear E. split; [reflexivity|]. split; [reflexivity|].
      eapply assemble; eauto.
      * apply tinv_passive; [reflexivity|reflexivity|exact SO].
      * apply FR; [eauto|]. intros sn' Hs. cbn in Hs. inversion Hs; subst.
        split; [apply SO|now left].
      * eapply hidok_same; eauto.
      * intros o Ho Hc. apply in_app_or in Ho. destruct Ho as [Ho|[<-|[]]]; [now apply OI|].
        cbn [o_clean o_S o_res o_key] in *. destruct SO as (_ & sv' & _ & C).
        destruct (C Hc) as [C1 _]. split; [exact C1|].
        rewrite cget_spec by apply SG. unfold spec_get. apply (VW Hc).
  - discriminate.
Qed.

(** ** the rotator *)

Lemma dinv_rotate sh l :
  DInvL sh l ->
  let l' := rotated l (s_nmid sh) in
  DInvL (mkS (removelast (s_hist sh) ++ [l']) (s_heap sh) (s_ctr sh) (s_vis sh) (s_ntid sh)
             (s_nmid sh + 1) (s_hidden sh) (s_wst sh) (s_log sh) (s_wpub sh)) l'.
Proof.
  intros D l'. pose proof (clatest_inv _ _ (dl_latest _ _ D)) as EH.
  pose proof (dl_heap_fresh _ _ D (s_nmid sh) (N.le_refl _)) as HF.
  destruct (dl_good _ _ D l (clatest_In _ _ (dl_latest _ _ D))) as ((LS & LR) & (LI1 & LI2 & LI3) & LSub).
  destruct D. constructor; unfold wnext in *;
    cbn [s_hist s_heap s_ctr s_vis s_ntid s_nmid s_hidden s_wst s_log s_wpub] in *; auto.
  - apply clatest_snoc.
  - rewrite EH in dl_sorted0. rewrite map_app in *. exact dl_sorted0.
  - intros sv Hsv. apply in_app_or in Hsv. destruct Hsv as [Hsv|[<-|[]]].
    + apply dl_seq_le0. rewrite EH. apply in_or_app. now left.
    + apply (dl_seq_le0 l). rewrite EH. apply in_or_app. right. now left.
  - destruct dl_lat_vis0 as [A|(A & B & C)]; [left; exact A|right].
    split; [exact A|]. split; [|exact C]. rewrite B. reflexivity.
  - intros sv Hsv. apply in_app_or in Hsv. destruct Hsv as [Hsv|[<-|[]]].
    + assert (In sv (s_hist sh)) as Hsv' by (rewrite EH; apply in_or_app; now left).
      destruct (dl_good0 sv Hsv') as (A & B & C). split; [exact A|]. split; [|exact C].
      eapply svids_bump; eauto.
    + split; [|split].
      * unfold SvWf, l'. cbn [s_heap]. rewrite containers_rotated by exact HF. split.
        -- intros c [<-|Hc]; [reflexivity|now apply LS].
        -- apply Rec_cons. split; [intros c' _; apply newer_nil_l|exact LR].
      * unfold SvIds, l', rotated. cbn [cs_active cs_sealed s_nmid].
        assert (forall id, In id (cs_sealed l ++ [cs_active l]) -> id < s_nmid sh) as HB.
        { intros id HI. apply LI2. apply in_app_or in HI. destruct HI as [HI|[<-|[]]]; [now right|now left]. }
        split; [|split].
        -- constructor; [intros HI; specialize (HB _ HI); lia|].
           eapply Permutation_NoDup; [|exact LI1].
           change (cs_active l :: cs_sealed l) with ([cs_active l] ++ cs_sealed l).
           apply Permutation_app_comm.
        -- intros id [<-|HI]; [lia|]. specialize (HB _ HI). lia.
        -- intros HI. specialize (HB _ HI). lia.
      * exact LSub.
  - intros id Hid. apply dl_heap_fresh0. lia.
  - intros S HS k. unfold l'. rewrite content_rotated by exact HF. now apply dl_view0.
Qed.

Lemma rotstep_inv st i n sh' t' os b p :
  CInvG st -> nth_error (c_thr st) i = Some (TRotator n) ->
  rotstep (c_sh st) n = Some (sh', t', os, b, p) ->
  p = false /\ b = false /\
  CInvG (mkC sh' (c_wprog st) (set_nth i t' (c_thr st)) (c_obs st ++ os) (c_bad st || b) p).
Proof.
  intros (HP & l & D & T & PW & HO & OI) Hn E. unfold rotstep in E.
  destruct n as [|n']; [discriminate|]. rewrite (dl_latest _ _ D) in E.
  assert (forall t'', (exists m, t'' = TRotator m) -> forall u, PR t'' u /\ PR u t'') as PRR.
  { intros t'' (m & ->) u. apply pr_passive; try reflexivity. discriminate. }
  destruct (heap_get (s_heap (c_sh st)) (cs_active l)) as [|x xs] eqn:EA.
  - inversion E; subst sh' t' os b p. clear E. split; [reflexivity|]. split; [reflexivity|].
    rewrite app_nil_r. eapply assemble; [exact Hn|exact D| | |exact PW| |exact OI].
    + apply tinv_passive; [reflexivity|reflexivity|exact I].
    + intros j u NE Hj. split; [eapply T; eauto|]. apply PRR. eauto.
    + eapply hidok_same; eauto.
  - inversion E; subst sh' t' os b p. clear E. split; [reflexivity|]. split; [reflexivity|].
    rewrite app_nil_r. rewrite (creplace_eq _ _ _ (dl_latest _ _ D)).
    change (mkCSV (cs_seq l) (s_nmid (c_sh st)) (cs_sealed l ++ [cs_active l]) (cs_ver l))
      with (rotated l (s_nmid (c_sh st))).
    eapply assemble; [exact Hn|apply dinv_rotate; exact D| | |exact PW| |].
    + apply tinv_passive; [reflexivity|reflexivity|exact I].
    + intros j u NE Hj. split; [|apply PRR; eauto].
      eapply (frame_rotate (c_sh st)); try reflexivity; [exact D|eapply T; eauto].
    + eapply hidok_same; eauto.
    + eapply obsinv_mono; [| |exact OI]; [reflexivity|]. unfold wnext. cbn. lia.
Qed.

(** ** installing a superversion: the shared part *)

Lemma wnext_install sh sv_of W hd : wnext sh <= wnext (install sh sv_of W hd).
Proof. unfold wnext, install. cbn. destruct (s_wst sh); lia. Qed.

Lemma dinv_install sh l sv_of W hd :
  DInvL sh l ->
  let l' := sv_of (s_ctr sh) in
  cs_seq l' = s_ctr sh -> cs_active l' = cs_active l ->
  SvGood sh (cs_active l) l' ->
  length (cs_ver l') = LEVEL_COUNT ->
  (forall S, s_ctr sh < S -> View (s_heap sh) (s_log sh) l' S) ->
  (NoDup (map ct_id (concat (cs_ver l'))) /\
   forall t, In t (concat (cs_ver l')) -> ct_id t < s_ntid sh) ->
  DInvL (install sh sv_of W hd) l'.
Proof.
  intros D l' Es Ea SG HL HV HT.
  pose proof (wnext_install sh sv_of W hd) as HW.
  destruct D. constructor; try (unfold install;
    cbn [s_hist s_heap s_ctr s_vis s_ntid s_nmid s_hidden s_wst s_log s_wpub]; fold l').
  - rewrite cmaint_latest. apply clatest_snoc.
  - apply cmaint_sorted. rewrite map_app. apply SS_snoc; [exact dl_sorted0|].
    intros y Hy. apply in_map_iff in Hy. destruct Hy as (sv & <- & Hsv). rewrite Es. auto.
  - intros sv Hsv. apply cmaint_incl in Hsv. apply in_app_or in Hsv.
    destruct Hsv as [Hsv|[<-|[]]]; [specialize (dl_seq_le0 sv Hsv); lia|lia].
  - lia.
  - left. lia.
  - intros sv Hsv. apply cmaint_incl in Hsv. apply in_app_or in Hsv. rewrite Ea.
    destruct Hsv as [Hsv|[<-|[]]]; [now apply dl_good0|exact SG].
  - exact HL.
  - exact dl_heap_sub0.
  - exact dl_heap_fresh0.
  - exact dl_log_sorted0.
  - intros e He. specialize (dl_log_lt0 e He). unfold wnext in *.
    cbn [s_wst s_ctr] in *. destruct (s_wst sh); lia.
  - exact dl_log_noweak0.
  - destruct (s_wst sh); auto; [destruct dl_wst0; split; [lia|assumption]|lia].
  - intros S HS. apply HV. lia.
  - exact HT.
  - unfold wnext in *. cbn [s_wst s_ctr] in *. destruct (s_wst sh); lia.
Qed.

Lemma frame_install sh l sv_of W hd u :
  DInvL sh l ->
  let l' := sv_of (s_ctr sh) in
  cs_seq l' = s_ctr sh -> cs_active l' = cs_active l ->
  (forall sn, live_snap u = Some sn -> W <= sn) ->
  (forall x, In x (pend_ids u) -> ~ In x (map ct_id (concat (cs_ver l')))) ->
  (busy_flusher u = true -> cs_sealed l' = cs_sealed l) ->
  (forall m d inp, inflight u = Some (m, d, inp) -> CompatV (cs_ver l) d inp ->
     incl (inp_ids inp) (s_hidden sh) ->
     CompatV (cs_ver l') d inp /\ incl (inp_ids inp) hd) ->
  TInv sh l u -> TInv (install sh sv_of W hd) l' u.
Proof.
  intros D l' Es Ea HW HF HS HC (F & G & T).
  set (sh' := install sh sv_of W hd).
  assert (s_vis sh <= s_vis sh') as Hv by (unfold sh', install; cbn; lia).
  split; [|split].
  - intros x Hx. destruct (F x Hx) as [A _]. split; [exact A|now apply HF].
  - intros W' HW'. specialize (G W' HW'). lia.
  - assert (forall sn c, W <= sn -> SnapOk sh sn c -> SnapOk sh' sn c) as SO.
    { intros sn c Hle. eapply snapok_install; eauto; try reflexivity. apply wnext_install. }
    assert (forall sv, SvGood sh (cs_active l) sv -> SvGood sh' (cs_active l') sv) as SG.
    { intros sv. rewrite Ea. apply svgood_same; reflexivity. }
    destruct u as [keys [|sn c|sn c sv|]|n|prog [|W' ids|W' ids out]|prog [|W' maj d oid inp|W' maj d inp out]];
      cbn [TInvS] in *; try exact I.
    + apply SO; [apply HW; reflexivity|exact T].
    + destruct T as (A & B & C). split; [apply SO; [apply HW; reflexivity|exact A]|].
      split; [now apply SG|exact C].
    + rewrite (HS eq_refl). exact T.
    + rewrite (HS eq_refl). exact T.
    + destruct T as (A & B). eapply HC; eauto. reflexivity.
    + destruct T as (A & B & C). destruct (HC maj d inp eq_refl A B) as [X Y]. auto.
Qed.

Lemma dinv_ntid sh l n : DInvL sh l -> s_ntid sh <= n -> DInvL (set_ntid sh n) l.
Proof.
  intros D Hn. destruct D. constructor; unfold wnext in *;
    cbn [set_ntid s_hist s_heap s_ctr s_vis s_ntid s_nmid s_hidden s_wst s_log s_wpub] in *; auto.
  destruct dl_tids0 as [A B]. split; [exact A|]. intros t Ht. specialize (B t Ht). lia.
Qed.

Lemma filter_drop_prefix (ids rest : list N) :
  NoDup (ids ++ rest) -> filter (fun m => negb (mem_in m ids)) (ids ++ rest) = rest.
Proof.
  intros ND. rewrite filter_app. rewrite filter_all_false, filter_all_true; [reflexivity| |].
  - intros x Hx. apply negb_true_iff, mem_in_false. intros HI.
    apply NoDup_app_parts in ND as ND'. clear ND'.
    revert ND HI Hx. clear. induction ids as [|y ids IH]; cbn [app]; intros ND HI Hx; [contradiction|].
    inversion ND as [|? ? NI ND']; subst. destruct HI as [->|HI].
    + apply NI, in_or_app. now right.
    + eapply IH; eauto.
  - intros x Hx. apply negb_false_iff. now apply mem_in_iff.
Qed.

Lemma concat_v_flush v ts : v <> [] -> concat (v_flush v ts) = ts ++ concat v.
Proof. destruct v as [|l v]; [congruence|]. intros _. cbn. now rewrite app_assoc. Qed.

Lemma mk_out_cases oid o : mk_out oid o = [] /\ o = [] \/ mk_out oid o = [mkCT oid o].
Proof. destruct o; [left; auto|right; reflexivity]. Qed.

Lemma mk_out_in oid o t : In t (mk_out oid o) -> t = mkCT oid o.
Proof. destruct o; cbn; [intros []|intros [<-|[]]; reflexivity]. Qed.

(** ** (d) the superversion a flush installs *)

Lemma content_lt_ctr sh l sv e :
  DInvL sh l -> SvSub (s_log sh) sv -> In e (content (s_heap sh) sv) -> seq e < s_ctr sh.
Proof.
  intros D HS HI. apply (content_sub _ _ _ (dl_heap_sub _ _ D) HS) in HI.
  pose proof (dl_log_lt _ _ D e HI). pose proof (dl_wst _ _ D). unfold wnext in *.
  destruct (s_wst sh); lia.
Qed.

Lemma flush_sv sh l W ids rest oid :
  DInvL sh l -> cs_sealed l = ids ++ rest ->
  let out := flush_out (s_heap sh) W ids oid in
  (forall x, In x (map ct_id out) -> x < s_ntid sh /\ ~ In x (map ct_id (concat (cs_ver l)))) ->
  let l' := mkCSV (s_ctr sh) (cs_active l) rest (v_flush (cs_ver l) out) in
  SvGood sh (cs_active l) l' /\ length (cs_ver l') = LEVEL_COUNT /\
  (forall S, s_ctr sh < S -> View (s_heap sh) (s_log sh) l' S) /\
  (NoDup (map ct_id (concat (cs_ver l'))) /\
   forall t, In t (concat (cs_ver l')) -> ct_id t < s_ntid sh) /\
  (forall t c, In t out -> In c (concat (cs_ver l)) -> newer (ct_ents t) (ct_ents c)).
Proof.
  intros D ES out Hfr l'.
  pose proof (dl_latest _ _ D) as HL. pose proof (clatest_In _ _ HL) as HLin.
  destruct (dl_good _ _ D l HLin) as ((LS & LR) & (LI1 & LI2 & LI3) & LSub).
  set (hg := heap_get (s_heap sh)) in *.
  set (Pre := hg (cs_active l) :: map hg (rev rest)).
  set (I' := map hg (rev ids)). set (I := map hg ids).
  set (Post := map ct_ents (concat (cs_ver l))).
  assert (containers (s_heap sh) l = Pre ++ I' ++ Post) as EC.
  { unfold containers, Pre, I', Post. fold hg. rewrite ES, rev_app_distr, map_app, <- app_assoc.
    reflexivity. }
  assert (Permutation I' I) as PI.
  { unfold I', I. apply Permutation_map. apply Permutation_sym, Permutation_rev. }
  rewrite EC in LS, LR.
  assert (no_weak (concat (Pre ++ I' ++ Post))) as NW.
  { intros e He. apply (dl_log_noweak _ _ D). rewrite <- EC in He.
    eapply content_sub; eauto. apply (dl_heap_sub _ _ D). }
  pose proof (flush_install W Pre I' I Post PI LS LR NW) as X. cbv zeta in X.
  set (o := fst (run_stream W false no_filter (merge_sorted I))) in *.
  assert (out = mk_out oid o) as EO by reflexivity.
  assert (cs_ver l <> []) as VN.
  { pose proof (dl_len _ _ D) as HLen. destruct (cs_ver l); [discriminate|congruence]. }
  assert (containers (s_heap sh) l' = Pre ++ olist_c o ++ Post) as EC'.
  { unfold containers, l'. cbn [cs_active cs_sealed cs_ver]. fold hg.
    rewrite concat_v_flush by exact VN. rewrite map_app, EO, map_ents_mk_out. reflexivity. }
  destruct X as (S' & R' & OI & VW).
  assert (forall e, In e o -> In e (s_log sh)) as OL.
  { intros e He. eapply content_sub; [apply (dl_heap_sub _ _ D)|exact LSub|].
    unfold content. rewrite EC. apply OI. rewrite !concat_app, concat_olist_c.
    apply in_or_app. right. apply in_or_app. now left. }
  split; [|split; [|split; [|split]]].
  - split; [|split].
    + unfold SvWf. rewrite EC'. auto.
    + unfold SvIds, l'. cbn [cs_active cs_sealed]. rewrite ES in LI1, LI2, LI3. split; [|split].
      * inversion LI1 as [|? ? NI ND]; subst. constructor.
        -- intros HI. apply NI, in_or_app. now right.
        -- apply NoDup_app_parts in ND. apply ND.
      * intros id [<-|HI]; apply LI2; [now left|right; apply in_or_app; now right].
      * intros HI. apply LI3, in_or_app. now right.
    + intros t Ht. unfold l' in Ht. cbn [cs_ver] in Ht. rewrite concat_v_flush in Ht by exact VN.
      apply in_app_or in Ht. destruct Ht as [Ht|Ht]; [|now apply LSub].
      rewrite EO in Ht. apply mk_out_in in Ht. subst t. cbn [ct_ents]. exact OL.
  - unfold l'. cbn [cs_ver]. unfold v_flush. rewrite v_insert_length. apply D.
  - intros S HS k. unfold content. rewrite EC'. rewrite VW.
    + rewrite <- EC. apply (dl_view _ _ D). pose proof (dl_seq_le _ _ D l HLin). lia.
    + intros e He. rewrite <- EC in He. pose proof (content_lt_ctr sh l l e D LSub He). lia.
  - unfold l'. cbn [cs_ver]. rewrite concat_v_flush by exact VN. destruct (dl_tids _ _ D) as [TN TB].
    split.
    + rewrite map_app. destruct (mk_out_cases oid o) as [[E _]|E]; rewrite EO, E in *; cbn [map app] in *; [exact TN|].
      constructor; [|exact TN]. apply (Hfr oid). now left.
    + intros t Ht. apply in_app_or in Ht. destruct Ht as [Ht|Ht]; [|now apply TB].
      apply Hfr. now apply in_map.
  - intros t c Ht Hc. rewrite EO in Ht. apply mk_out_in in Ht. subst t. cbn [ct_ents].
    intros e e' He He' Ek.
    assert (In e (concat I')) as HeI.
    { eapply Permutation_in; [apply Permutation_concat, Permutation_sym, PI|].
      destruct (merge_facts I) as [_ MP].
      - pose proof (nodup_ik_concat _ LS LR) as ND. rewrite !concat_app, !map_app in ND.
        apply NoDup_app_parts in ND. destruct ND as [_ ND]. apply NoDup_app_parts in ND.
        destruct ND as [ND _]. eapply Permutation_NoDup; [|exact ND].
        apply Permutation_map, Permutation_concat. exact PI.
      - eapply Permutation_in; [exact MP|].
        eapply (cstream_out_in W false (merge_sorted I)); [apply surjective_pairing|exact He]. }
    apply in_concat in HeI. destruct HeI as (ci & Hci & Hei).
    apply Rec_app in LR. destruct LR as (_ & LR & _). apply Rec_app in LR. destruct LR as (_ & _ & LR).
    apply (LR ci (ct_ents c) Hci); auto. unfold Post. now apply in_map.
Qed.

(** ** the flusher *)

Lemma existsb_false_nth {A} (f : A -> bool) l i x :
  existsb f l = false -> nth_error l i = Some x -> f x = false.
Proof.
  intros H Hn. destruct (f x) eqn:E; [|reflexivity].
  assert (existsb f l = true) as X; [|congruence].
  apply existsb_exists. exists x. split; [eapply nth_error_In; eauto|exact E].
Qed.

Lemma fstep_inv st i prog s sh' t' os b p :
  CInvG st -> nth_error (c_thr st) i = Some (TFlusher prog s) ->
  fstep (c_sh st) (c_thr st) prog s = Some (sh', t', os, b, p) ->
  p = false /\ b = false /\
  CInvG (mkC sh' (c_wprog st) (set_nth i t' (c_thr st)) (c_obs st ++ os) (c_bad st || b) p).
Proof.
  intros (HP & l & D & T & PW & HO & OI) Hn E.
  pose proof (T i _ Hn) as (Fi & Gi & Ti). unfold fstep in E.
  pose proof (dl_latest _ _ D) as HL.
  destruct s as [|W ids|W ids out].
  - (* F1 *)
    destruct prog as [|wreq rest]; [discriminate|].
    destruct (existsb busy_flusher (c_thr st)) eqn:EB; [discriminate|].
    rewrite HL in E. destruct (cs_sealed l) as [|m ms] eqn:ES.
    + inversion E; subst sh' t' os b p. clear E. split; [reflexivity|]. split; [reflexivity|].
      rewrite app_nil_r. eapply assemble; [exact Hn|exact D| | |exact PW| |exact OI].
      * apply tinv_passive; [reflexivity|reflexivity|exact I].
      * intros j u NE Hj. split; [eapply T; eauto|]. apply pr_passive; try reflexivity. discriminate.
      * eapply hidok_same; eauto.
    + inversion E; subst sh' t' os b p. clear E. split; [reflexivity|]. split; [reflexivity|].
      rewrite app_nil_r. eapply assemble; [exact Hn|exact D| | |exact PW| |exact OI].
      * split; [intros x []|]. split.
        -- intros W' HW'. cbn in HW'. inversion HW'; subst W'.
           pose proof (safe_wm_le_vis (s_vis (c_sh st)) (c_thr st)). lia.
        -- cbn [TInvS]. exists []. rewrite <- ES. now rewrite app_nil_r.
      * intros j u NE Hj. split; [eapply T; eauto|].
        pose proof (existsb_false_nth _ _ _ _ EB Hj) as Bu. split.
        -- split; [intros _; exact Bu|]. split.
           ++ intros W' sn HW' Hs. cbn in HW'. inversion HW'; subst W'.
              pose proof (safe_wm_le_live (s_vis (c_sh st)) (c_thr st) u sn
                            (nth_error_In _ _ Hj) Hs). lia.
           ++ split; [intros x []|]. cbn [inflight]. discriminate.
        -- split; [rewrite Bu; discriminate|]. split; [cbn [live_snap]; discriminate|].
           split; [intros x _ []|]. cbn [inflight]. discriminate.
      * eapply hidok_same; eauto.
  - (* F2 *)
    inversion E; subst sh' t' os b p. clear E. split; [reflexivity|]. split; [reflexivity|].
    rewrite app_nil_r. cbn [TInvS] in Ti.
    set (sh := c_sh st) in *. set (sh' := set_ntid sh (s_ntid sh + 1)).
    destruct (dl_tids _ _ D) as [TN TB].
    assert (forall x, In x (map ct_id (mk_out (s_ntid sh)
              (fst (run_stream W false no_filter (merge_sorted (map (heap_get (s_heap sh)) ids))))))
            -> x = s_ntid sh) as PX.
    { intros x Hx. apply in_map_iff in Hx. destruct Hx as (t & <- & Ht).
      apply mk_out_in in Ht. subst t. reflexivity. }
    eapply assemble; [exact Hn|apply dinv_ntid; [exact D|lia]| | |exact PW| |].
    + split; [|split].
      * intros x Hx. cbn [pend_ids] in Hx. apply PX in Hx. subst x. cbn. split; [lia|].
        intros HI. apply in_map_iff in HI. destruct HI as (t & Et & Ht). specialize (TB t Ht). lia.
      * intros W' HW'. apply Gi. exact HW'.
      * cbn [TInvS]. split; [exact Ti|]. exists (s_ntid sh). reflexivity.
    + intros j u NE Hj. split.
      * apply (frame_mono sh sh' l u); try reflexivity; try lia; try apply incl_refl;
          [cbn; lia|eapply T; eauto].
      * destruct (PW i j _ u (not_eq_sym NE) Hn Hj) as (A1 & A2 & A3 & A4).
        destruct (PW j i u _ NE Hj Hn) as (B1 & B2 & B3 & B4).
        destruct (T j u Hj) as (Fu & _ & _).
        split.
        -- split; [exact A1|]. split; [exact A2|]. split; [|exact A4].
           intros x Hx Hx'. cbn [pend_ids] in Hx. apply PX in Hx. subst x.
           destruct (Fu _ Hx'). lia.
        -- split; [exact B1|]. split; [exact B2|]. split; [|exact B4].
           intros x Hx Hx'. cbn [pend_ids] in Hx'. apply PX in Hx'. subst x.
           destruct (Fu _ Hx). lia.
    + eapply hidok_same; eauto.
    + eapply obsinv_mono; [| |exact OI]; [reflexivity|]. unfold wnext. cbn. lia.
  - (* F3 *)
    rewrite HL in E. cbn [TInvS] in Ti. destruct Ti as ((rest & ES) & oid & EO).
    assert (forallb (fun id => mem_in id (cs_sealed l)) ids = true) as CHK.
    { apply forallb_forall. intros x Hx. apply mem_in_iff. rewrite ES. apply in_or_app. now left. }
    rewrite CHK in E. inversion E; subst sh' t' os b p. clear E.
    split; [reflexivity|]. split; [reflexivity|]. rewrite app_nil_r.
    set (sh := c_sh st) in *.
    destruct (dl_good _ _ D l (clatest_In _ _ HL)) as (_ & (LI1 & _ & _) & _).
    assert (filter (fun m => negb (mem_in m ids)) (cs_sealed l) = rest) as EF.
    { rewrite ES. apply filter_drop_prefix. rewrite ES in LI1. inversion LI1; assumption. }
    rewrite EF.
    assert (forall x, In x (map ct_id (flush_out (s_heap sh) W ids oid)) ->
              x < s_ntid sh /\ ~ In x (map ct_id (concat (cs_ver l)))) as Hfr.
    { intros x Hx. apply Fi. cbn [pend_ids]. rewrite EO. exact Hx. }
    destruct (flush_sv sh l W ids rest oid D ES Hfr) as (SG & LEN & VW & TID & NEW).
    subst out.
    set (out := flush_out (s_heap sh) W ids oid) in *.
    set (sv_of := fun c => mkCSV c (cs_active l) rest (v_flush (cs_ver l) out)).
    eapply assemble; [exact Hn|apply (dinv_install sh l sv_of W (s_hidden sh) D); auto| | |exact PW| |].
    + apply tinv_passive; [reflexivity|reflexivity|exact I].
    + intros j u NE Hj. split; [|apply pr_passive; try reflexivity; discriminate].
      destruct (PW i j _ u (not_eq_sym NE) Hn Hj) as (A1 & A2 & A3 & A4).
      destruct (T j u Hj) as (Fu & Gu & Tu).
      apply (frame_install sh l sv_of W (s_hidden sh) u D); try reflexivity.
      * intros sn Hs. exact (A2 W sn eq_refl Hs).
      * intros x Hx HI. unfold sv_of in HI. cbn [cs_ver] in HI.
        rewrite concat_v_flush, map_app in HI.
        2:{ pose proof (dl_len _ _ D) as HLen. destruct (cs_ver l); [discriminate|congruence]. }
        apply in_app_or in HI. destruct HI as [HI|HI].
        -- apply (A3 x); [exact HI|exact Hx].
        -- now apply (Fu x Hx).
      * intros Bu. specialize (A1 eq_refl). congruence.
      * intros m d inp Ei CV Hh. split; [|exact Hh]. unfold sv_of. cbn [cs_ver].
        rewrite v_flush_merge. apply compat_after; auto.
        -- rewrite (dl_len _ _ D). unfold LEVEL_COUNT. lia.
        -- intros t0 Ht0 HI. apply inp_ids_in in HI. destruct HI as (p0 & Hp0 & Ep0).
           apply (Hfr (ct_id t0)); [now apply in_map|]. rewrite <- Ep0.
           apply in_map. rewrite (cv_chosen _ _ _ CV) in Hp0. apply chosen_in in Hp0.
           destruct Hp0 as [Hp0 _]. rewrite <- (map_snd_tag 0). now apply in_map.
        -- intros t0 p0 Ht0 Hp0. split.
           ++ intros _. apply NEW; [exact Ht0|].
              rewrite (cv_chosen _ _ _ CV) in Hp0. apply chosen_in in Hp0.
              destruct Hp0 as [Hp0 _]. rewrite <- (map_snd_tag 0). now apply in_map.
           ++ intros Hle. pose proof (cv_dest _ _ _ CV). lia.
      * split; [exact Fu|]. split; [exact Gu|exact Tu].
    + eapply hidok_same; eauto.
    + eapply obsinv_mono; [| |exact OI]; [reflexivity|apply wnext_install].
Qed.


(** ** (b) the superversion a compaction installs *)

Lemma merge_out_incl W d inp oid t :
  In t (merge_out W d inp oid) -> incl (ct_ents t) (concat (map tents inp)).
Proof.
  intros Ht e He. unfold merge_out in Ht. apply mk_out_in in Ht. subst t. cbn [ct_ents] in He.
  eapply Permutation_in; [apply merge_sorted_perm|].
  eapply cstream_out_in; [apply surjective_pairing|exact He].
Qed.

Lemma NoDup_insert_mid {A} (x : A) a b : NoDup (a ++ b) -> ~ In x (a ++ b) -> NoDup (a ++ x :: b).
Proof.
  intros ND NI. eapply Permutation_NoDup; [apply Permutation_middle|]. now constructor.
Qed.

Lemma compat_in_tables v d inp p : CompatV v d inp -> In p inp -> In (snd p) (concat v).
Proof.
  intros CV Hp. rewrite (cv_chosen _ _ _ CV) in Hp. apply chosen_in in Hp. destruct Hp as [Hp _].
  rewrite <- (map_snd_tag 0). now apply in_map.
Qed.

Lemma merge_sv sh l W d inp oid :
  DInvL sh l -> CompatV (cs_ver l) d inp ->
  let out := merge_out W d inp oid in
  (forall x, In x (map ct_id out) -> x < s_ntid sh /\ ~ In x (map ct_id (concat (cs_ver l)))) ->
  let l' := mkCSV (s_ctr sh) (cs_active l) (cs_sealed l) (v_merge (cs_ver l) (inp_ids inp) out d) in
  SvGood sh (cs_active l) l' /\ length (cs_ver l') = LEVEL_COUNT /\
  (forall S, s_ctr sh < S -> View (s_heap sh) (s_log sh) l' S) /\
  (NoDup (map ct_id (concat (cs_ver l'))) /\
   forall t, In t (concat (cs_ver l')) -> ct_id t < s_ntid sh).
Proof.
  intros D CV out Hfr l'.
  pose proof (dl_latest _ _ D) as HL. pose proof (clatest_In _ _ HL) as HLin.
  destruct (dl_good _ _ D l HLin) as ((LS & LR) & LI & LSub).
  set (M := heap_get (s_heap sh) (cs_active l) :: map (heap_get (s_heap sh)) (rev (cs_sealed l))).
  assert (containers (s_heap sh) l = M ++ map ct_ents (concat (cs_ver l))) as EC by reflexivity.
  assert (containers (s_heap sh) l' = M ++ map ct_ents (concat (cs_ver l'))) as EC' by reflexivity.
  rewrite EC in LS, LR.
  assert (no_weak (concat (M ++ map ct_ents (concat (cs_ver l))))) as NW.
  { intros e He. apply (dl_log_noweak _ _ D). rewrite <- EC in He.
    eapply content_sub; eauto. apply (dl_heap_sub _ _ D). }
  pose proof (merge_install M (cs_ver l) d inp W oid LS LR NW (dl_len _ _ D) CV) as X.
  cbv zeta in X. fold (merge_out W d inp oid) in X. fold out in X.
  change (v_merge (cs_ver l) (inp_ids inp) out d) with (cs_ver l') in X.
  destruct X as (S' & R' & IN & VW).
  assert (Hd : (d < length (cs_ver l))%nat) by (rewrite (dl_len _ _ D); apply CV).
  split; [|split; [|split]].
  - split; [|split].
    + unfold SvWf. rewrite EC'. auto.
    + exact LI.
    + intros t Ht e He. eapply content_sub; [apply (dl_heap_sub _ _ D)|exact LSub|].
      unfold content. rewrite EC. apply IN. apply in_concat. exists (ct_ents t). split; [|exact He].
      apply in_or_app. right. now apply in_map.
  - unfold l'. cbn [cs_ver]. unfold v_merge. rewrite v_insert_length, v_remove_length. apply D.
  - intros S HS k. unfold content. rewrite EC', VW.
    + rewrite <- EC. apply (dl_view _ _ D). pose proof (dl_seq_le _ _ D l HLin). lia.
    + intros e He. rewrite <- EC in He. pose proof (content_lt_ctr sh l l e D LSub He). lia.
  - destruct (dl_tids _ _ D) as [TN TB]. unfold l'. cbn [cs_ver].
    destruct (concat_merge_split (cs_ver l) (inp_ids inp) out d Hd) as (A & B & E1 & E2 & _ & _).
    assert (map snd (A ++ B) = filter (t_kept (inp_ids inp)) (concat (cs_ver l))) as EK.
    { rewrite <- E1, (filter_snd_map (t_kept (inp_ids inp))), map_snd_tag. reflexivity. }
    split.
    + rewrite E2. rewrite map_app in EK.
      destruct (mk_out_cases oid (fst (run_stream W (Nat.eqb d LAST_LEVEL) no_filter
                  (merge_sorted (map tents inp))))) as [[E _]|E];
        unfold out, merge_out in *; rewrite E in *; cbn [app map] in *.
      * rewrite EK. now apply NoDup_map_filter.
      * rewrite map_app. cbn [map ct_id]. apply NoDup_insert_mid.
        -- rewrite <- map_app, EK. now apply NoDup_map_filter.
        -- rewrite <- map_app, EK. intros HI. apply (Hfr oid); [now left|].
           apply in_map_iff in HI. destruct HI as (t & Et & Ht). apply filter_In in Ht.
           rewrite <- Et. apply in_map. apply Ht.
    + intros t Ht. rewrite E2 in Ht. rewrite map_app in EK.
      apply in_app_or in Ht. destruct Ht as [Ht|Ht].
      * apply TB. assert (In t (map snd A ++ map snd B)) as X by (apply in_or_app; now left).
        rewrite EK in X. apply filter_In in X. apply X.
      * apply in_app_or in Ht. destruct Ht as [Ht|Ht].
        -- apply Hfr. now apply in_map.
        -- apply TB. assert (In t (map snd A ++ map snd B)) as X by (apply in_or_app; now right).
           rewrite EK in X. apply filter_In in X. apply X.
Qed.

(** ** the compactor *)

Lemma dinv_k1 sh l hd :
  DInvL sh l ->
  DInvL (mkS (s_hist sh) (s_heap sh) (s_ctr sh) (s_vis sh) (s_ntid sh + 1) (s_nmid sh) hd
             (s_wst sh) (s_log sh) (s_wpub sh)) l.
Proof.
  intros D. destruct D. constructor; unfold wnext in *;
    cbn [s_hist s_heap s_ctr s_vis s_ntid s_nmid s_hidden s_wst s_log s_wpub] in *; auto.
  destruct dl_tids0 as [A B]. split; [exact A|]. intros t Ht. specialize (B t Ht). lia.
Qed.

Lemma in_concat_merge v ids ts d t :
  (d < length v)%nat -> In t (concat (v_merge v ids ts d)) -> In t (concat v) \/ In t ts.
Proof.
  intros Hd HI. rewrite <- (map_snd_tag 0) in HI. apply in_map_iff in HI.
  destruct HI as (p & <- & Hp). apply tag_merge_in in Hp; [|exact Hd].
  destruct Hp as [[Hp _]|[_ Hp]]; [left|right; exact Hp].
  rewrite <- (map_snd_tag 0). now apply in_map.
Qed.

(** the output of compaction A sits correctly relative to the inputs of compaction B *)
Lemma merge_out_cond v dA inpA dB inpB W oid t p :
  CompatV v dA inpA -> CompatV v dB inpB ->
  (forall x, In x (inp_ids inpA) -> ~ In x (inp_ids inpB)) ->
  (dB = dA -> forall p q, In p inpB -> fst p = dB -> In q inpA -> kdis (tents p) (tents q)) ->
  In t (merge_out W dA inpA oid) -> In p inpB ->
  ((dA < dB)%nat -> newer (ct_ents t) (tents p)) /\
  ((dB <= dA)%nat -> newer (tents p) (ct_ents t) /\ (dB = LAST_LEVEL -> kdis (tents p) (ct_ents t))).
Proof.
  intros CA CB HD PWc Ht Hp.
  assert (forall e, In e (ct_ents t) -> exists b, In b inpA /\ In e (tents b)) as HE.
  { intros e He. apply (merge_out_incl _ _ _ _ _ Ht) in He. apply in_concat in He.
    destruct He as (c & Hc & He). apply in_map_iff in Hc. destruct Hc as (b & <- & Hb). eauto. }
  split.
  - intros Hlt e e' He He' Ek. destruct (HE e He) as (b & Hb & Heb).
    destruct (compat_merge_cond v dA inpA dB inpB b p CA CB HD PWc Hb Hp) as [X _].
    apply (X Hlt e e' Heb He' Ek).
  - intros Hle. split.
    + intros e e' He He' Ek. destruct (HE e' He') as (b & Hb & Heb).
      destruct (compat_merge_cond v dA inpA dB inpB b p CA CB HD PWc Hb Hp) as [_ X].
      apply (proj1 (X Hle) e e' He Heb Ek).
    + intros E6 e e' He He' Ek. destruct (HE e' He') as (b & Hb & Heb).
      destruct (compat_merge_cond v dA inpA dB inpB b p CA CB HD PWc Hb Hp) as [_ X].
      apply (proj2 (X Hle) E6 e e' He Heb Ek).
Qed.

Lemma is_inflight_iff u : is_inflight u = true <-> exists x, inflight u = Some x.
Proof.
  unfold is_inflight. destruct (inflight u); split; try discriminate; eauto.
  intros (x & H). discriminate.
Qed.

Lemma kstep_inv st i prog s sh' t' os b p :
  CInvG st -> nth_error (c_thr st) i = Some (TCompactor prog s) ->
  kstep (c_sh st) (c_thr st) prog s = Some (sh', t', os, b, p) ->
  p = false /\
  (b = true \/
   CInvG (mkC sh' (c_wprog st) (set_nth i t' (c_thr st)) (c_obs st ++ os) (c_bad st || b) p)).
Proof.
  intros (HP & l & D & T & PW & HO & OI) Hn E.
  pose proof (T i _ Hn) as (Fi & Gi & Ti). unfold kstep in E.
  pose proof (dl_latest _ _ D) as HL. set (sh := c_sh st) in *.
  destruct s as [|W maj d oid inp|W maj d inp out].
  - (* K1 *)
    destruct prog as [|job rest]; [discriminate|].
    destruct (if j_major job then existsb is_inflight (c_thr st)
              else existsb is_inflight_major (c_thr st)) eqn:LOCK; [discriminate|].
    rewrite HL in E.
    set (v := cs_ver l) in *.
    set (ids := if j_major job then map ct_id (concat v) else j_ids job) in *.
    set (dest := if j_major job then LAST_LEVEL else j_dest job) in *.
    destruct (rust_checks (s_hidden sh) v ids) eqn:RC.
    2:{ (* declined *)
      inversion E; subst sh' t' os b p. clear E. split; [reflexivity|]. right.
      rewrite app_nil_r. eapply assemble; [exact Hn|exact D| | |exact PW| |exact OI].
      - apply tinv_passive; [reflexivity|reflexivity|exact I].
      - intros j u NE Hj. split; [eapply T; eauto|]. apply pr_passive; try reflexivity. discriminate.
      - eapply hidok_same; eauto. }
    inversion E; subst sh' t' os b p. clear E. split; [reflexivity|].
    destruct (strategy_ok (c_thr st) v ids dest) eqn:SOK; [right|left; reflexivity].
    cbn [negb]. rewrite app_nil_r.
    destruct (dl_tids _ _ D) as [TN TB]. fold v in TN, TB.
    pose proof (strategy_ok_compat _ _ _ _ TN SOK) as CV.
    set (inp := chosen ids v) in *.
    set (W := N.min (j_wreq job) (safe_wm (s_vis sh) (c_thr st))).
    assert (forall x, In x (inp_ids inp) -> In x ids) as IDS.
    { intros x Hx. apply inp_ids_in in Hx. destruct Hx as (q & Hq & <-).
      apply chosen_in in Hq. apply Hq. }
    eapply assemble; [exact Hn|apply dinv_k1; exact D| | |exact PW| |].
    + split; [|split].
      * intros x [<-|[]]. cbn. split; [lia|]. intros HI. apply in_map_iff in HI.
        destruct HI as (t & Et & Ht). specialize (TB t Ht). fold sh in TB. lia.
      * intros W' HW'. cbn in HW'. inversion HW'; subst W'. cbn.
        pose proof (safe_wm_le_vis (s_vis sh) (c_thr st)). unfold W. lia.
      * cbn [TInvS s_hidden]. split; [exact CV|]. intros x Hx. apply in_or_app. left. now apply IDS.
    + intros j u NE Hj. split.
      * apply (frame_mono sh _ l u);
          [reflexivity|reflexivity|reflexivity|reflexivity|cbn; lia|cbn; lia|unfold wnext; cbn; lia
          |cbn; intros x Hx; apply in_or_app; now right|eapply T; eauto].
      * destruct (T j u Hj) as (Fu & Gu & Tu).
        assert (forall mu du iu, inflight u = Some (mu, du, iu) ->
                  j_major job = false /\ mu = false /\ incl (inp_ids iu) (s_hidden sh)) as IFu.
        { intros mu du iu Eu. destruct (j_major job) eqn:EM.
          - pose proof (existsb_false_nth _ _ _ _ LOCK Hj) as X. unfold is_inflight in X.
            rewrite Eu in X. discriminate.
          - pose proof (existsb_false_nth _ _ _ _ LOCK Hj) as X. unfold is_inflight_major in X.
            rewrite Eu in X. split; [reflexivity|]. split; [exact X|].
            destruct u as [? ?|?|? ?|? [|? ? ? ? ?|? ? ? ? ?]]; cbn [inflight] in Eu; try discriminate;
              inversion Eu; subst; cbn [TInvS] in Tu; apply Tu. }
        assert (forall x, In x ids -> ~ In x (s_hidden sh)) as NH by (eapply rust_checks_sound; eauto).
        split.
        -- split; [discriminate|]. split; [|split].
           ++ intros W' sn HW' Hs. cbn in HW'. inversion HW'; subst W'.
              pose proof (safe_wm_le_live (s_vis sh) (c_thr st) u sn (nth_error_In _ _ Hj) Hs).
              unfold W. lia.
           ++ intros x [<-|[]] Hx. destruct (Fu _ Hx). lia.
           ++ intros mt dt it mu du iu Et Eu. cbn [inflight] in Et. inversion Et; subst mt dt it.
              destruct (IFu mu du iu Eu) as (M1 & M2 & M3). split; [exact M1|]. split.
              ** intros x Hx Hx'. apply (NH x); [now apply IDS|now apply M3].
              ** intros Ed q0 q1 Hq0 Eq0 Hq1.
                 pose proof (strategy_ok_pw _ _ _ _ u SOK (nth_error_In _ _ Hj)) as PWu.
                 destruct (pw_ok_sound _ _ _ _ _ _ PWu Eu (eq_sym Ed)) as [X _]. eapply X; eauto.
        -- split; [intros _; reflexivity|]. split; [cbn [live_snap]; discriminate|]. split.
           ++ intros x Hx [<-|[]]. destruct (Fu _ Hx). lia.
           ++ intros mu du iu mt dt it Eu Et. cbn [inflight] in Et. inversion Et; subst mt dt it.
              destruct (IFu mu du iu Eu) as (M1 & M2 & M3). split; [exact M2|]. split.
              ** intros x Hx Hx'. apply (NH x); [now apply IDS|now apply M3].
              ** intros Ed q0 q1 Hq0 Eq0 Hq1.
                 pose proof (strategy_ok_pw _ _ _ _ u SOK (nth_error_In _ _ Hj)) as PWu.
                 destruct (pw_ok_sound _ _ _ _ _ _ PWu Eu Ed) as [_ X]. eapply X; eauto. congruence.
    + (* hidden discipline *)
      intros x Hx. cbn [s_hidden] in Hx. apply in_app_or in Hx. destruct Hx as [Hx|Hx].
      * exists i, (TCompactor (job :: rest) (KChosen W (j_major job) dest (s_ntid sh) inp)),
               (j_major job), dest, inp.
        rewrite (nth_set_nth_eq _ _ _ _ Hn). split; [reflexivity|]. split; [reflexivity|].
        unfold rust_checks in RC. apply andb_true_iff in RC. destruct RC as [_ RC].
        rewrite forallb_forall in RC. specialize (RC x Hx). apply mem_in_iff in RC.
        apply in_map_iff in RC. destruct RC as (t & Et & Ht).
        rewrite <- (map_snd_tag 0) in Ht. apply in_map_iff in Ht. destruct Ht as (q & Eq & Hq).
        apply inp_ids_in. exists q. split; [|congruence]. apply chosen_in. split; [exact Hq|].
        rewrite Eq, Et. exact Hx.
      * destruct (HO x Hx) as (j & u & m & du & iu & A & B & C).
        destruct (PeanoNat.Nat.eq_dec j i) as [->|NE].
        -- rewrite Hn in A. inversion A; subst u. discriminate.
        -- exists j, u, m, du, iu. rewrite nth_set_nth_neq by congruence. auto.
    + eapply obsinv_mono; [| |exact OI]; [reflexivity|]. unfold wnext. cbn. lia.
  - (* K2 *)
    inversion E; subst sh' t' os b p. clear E. split; [reflexivity|]. right.
    rewrite app_nil_r. cbn [TInvS] in Ti. destruct Ti as (CV & HI).
    eapply assemble; [exact Hn|exact D| | |exact PW| |exact OI].
    + split; [|split].
      * intros x Hx. apply Fi. cbn [pend_ids] in *. apply in_map_iff in Hx.
        destruct Hx as (t & <- & Ht). apply mk_out_in in Ht. subst t. now left.
      * intros W' HW'. apply Gi. exact HW'.
      * cbn [TInvS]. split; [exact CV|]. split; [exact HI|]. exists oid. reflexivity.
    + intros j u NE Hj. split; [eapply T; eauto|].
      apply (pr_local (TCompactor prog (KChosen W maj d oid inp))); try reflexivity.
      * intros x Hx. cbn [pend_ids] in *. apply in_map_iff in Hx.
        destruct Hx as (t & <- & Ht). apply mk_out_in in Ht. subst t. now left.
      * exact (PW i j _ u (not_eq_sym NE) Hn Hj).
      * exact (PW j i u _ NE Hj Hn).
    + eapply hidok_same; eauto.
  - (* K3 *)
    rewrite HL in E. inversion E; subst sh' t' os b p. clear E. split; [reflexivity|]. right.
    rewrite app_nil_r. cbn [TInvS] in Ti. destruct Ti as (CV & HI & oid & EO). subst out.
    set (out := merge_out W d inp oid) in *.
    assert (forall x, In x (map ct_id out) ->
              x < s_ntid sh /\ ~ In x (map ct_id (concat (cs_ver l)))) as Hfr.
    { intros x Hx. apply Fi. exact Hx. }
    destruct (merge_sv sh l W d inp oid D CV Hfr) as (SG & LEN & VW & TID).
    set (ids := inp_ids inp) in *.
    set (hd := filter (fun x => negb (mem_in x ids)) (s_hidden sh)).
    set (sv_of := fun c => mkCSV c (cs_active l) (cs_sealed l) (v_merge (cs_ver l) ids out d)).
    assert (Hd : (d < length (cs_ver l))%nat) by (rewrite (dl_len _ _ D); apply CV).
    eapply assemble; [exact Hn|apply (dinv_install sh l sv_of W hd D); auto| | |exact PW| |].
    + apply tinv_passive; [reflexivity|reflexivity|exact I].
    + intros j u NE Hj. split; [|apply pr_passive; try reflexivity; discriminate].
      destruct (PW i j _ u (not_eq_sym NE) Hn Hj) as (A1 & A2 & A3 & A4).
      destruct (PW j i u _ NE Hj Hn) as (B1 & B2 & B3 & B4).
      destruct (T j u Hj) as (Fu & Gu & Tu).
      apply (frame_install sh l sv_of W hd u D); try reflexivity.
      * intros sn Hs. exact (A2 W sn eq_refl Hs).
      * intros x Hx HIx. unfold sv_of in HIx. cbn [cs_ver] in HIx. apply in_map_iff in HIx.
        destruct HIx as (t & Et & Ht). apply in_concat_merge in Ht; [|exact Hd].
        destruct Ht as [Ht|Ht].
        -- apply (proj2 (Fu x Hx)). rewrite <- Et. now apply in_map.
        -- apply (B3 x Hx). cbn [pend_ids]. rewrite <- Et. now apply in_map.
      * intros m du iu Eu CVu Hh.
        destruct (A4 maj d inp m du iu eq_refl Eu) as (_ & DJ & _).
        destruct (B4 m du iu maj d inp Eu eq_refl) as (_ & _ & PWu).
        split.
        -- unfold sv_of. cbn [cs_ver]. apply compat_after; auto.
           ++ intros x Hx Hx'. apply (DJ x Hx' Hx).
           ++ intros t Ht HIt. apply inp_ids_in in HIt. destruct HIt as (q & Hq & Eq).
              apply (proj2 (Hfr (ct_id t) (in_map _ _ _ Ht))). rewrite <- Eq. apply in_map.
              eapply compat_in_tables; eauto.
           ++ intros t q Ht Hq. eapply merge_out_cond; eauto.
        -- intros x Hx. unfold hd. apply filter_In. split; [now apply Hh|].
           apply negb_true_iff, mem_in_false. intros Hx'. apply (DJ x Hx' Hx).
      * split; [exact Fu|]. split; [exact Gu|exact Tu].
    + intros x Hx. cbn [install s_hidden] in Hx. unfold hd in Hx. apply filter_In in Hx.
      destruct Hx as [Hx Hn']. apply negb_true_iff, mem_in_false in Hn'.
      destruct (HO x Hx) as (j & u & m & du & iu & A & B & C).
      destruct (PeanoNat.Nat.eq_dec j i) as [->|NE].
      * rewrite Hn in A. inversion A; subst u. cbn [inflight] in B. inversion B; subst. contradiction.
      * exists j, u, m, du, iu. rewrite nth_set_nth_neq by congruence. auto.
    + eapply obsinv_mono; [| |exact OI]; [reflexivity|apply wnext_install].
Qed.

(** * M. Every step, every schedule *)

Lemma cstep_bad st tid st' : cstep st tid = Some st' -> c_bad st = true -> c_bad st' = true.
Proof.
  unfold cstep. destruct (c_panic st); [discriminate|]. destruct tid as [|i].
  - destruct (wstep (c_sh st) (c_wprog st)) as [[[sh' prog'] p]|]; [|discriminate].
    intros E. inversion E; subst. cbn. auto.
  - destruct (nth_error (c_thr st) i) as [t|]; [|discriminate].
    destruct (tstep i (c_sh st) (c_thr st) t) as [[[[[sh' t'] os] b] p]|]; [|discriminate].
    intros E Hb. inversion E; subst. cbn. rewrite Hb. reflexivity.
Qed.

Theorem cstep_inv st tid st' : CInv st -> cstep st tid = Some st' -> CInv st'.
Proof.
  intros [Hb|G] E; [left; eapply cstep_bad; eauto|].
  unfold cstep in E. destruct (c_panic st) eqn:EP; [discriminate|]. destruct tid as [|i].
  - destruct (wstep (c_sh st) (c_wprog st)) as [[[sh' prog'] p]|] eqn:EW; [|discriminate].
    inversion E; subst st'. right. destruct (wstep_inv st sh' prog' p G EW) as [-> X]. exact X.
  - destruct (nth_error (c_thr st) i) as [t|] eqn:Hn; [|discriminate].
    destruct (tstep i (c_sh st) (c_thr st) t) as [[[[[sh' t'] os] b] p]|] eqn:ET; [|discriminate].
    inversion E; subst st'. clear E.
    destruct t as [keys s|n|prog s|prog s]; cbn [tstep] in ET.
    + destruct (rstep_inv st i keys s sh' t' os b p G Hn ET) as (-> & -> & X). right. exact X.
    + destruct (rotstep_inv st i n sh' t' os b p G Hn ET) as (-> & -> & X). right. exact X.
    + destruct (fstep_inv st i prog s sh' t' os b p G Hn ET) as (-> & -> & X). right. exact X.
    + destruct (kstep_inv st i prog s sh' t' os b p G Hn ET) as (-> & [-> |X]).
      * left. cbn. apply orb_true_r.
      * right. exact X.
Qed.

Theorem crun_inv st sched : CInv st -> CInv (crun st sched).
Proof.
  revert st. induction sched as [|tid sched IH]; intros st H; [exact H|].
  cbn [crun fold_left]. destruct (cstep st tid) as [st'|] eqn:E.
  - apply IH. eapply cstep_inv; eauto.
  - apply IH. exact H.
Qed.

(** ** the initial state *)

Lemma empty_version_concat : concat empty_version = [].
Proof. reflexivity. Qed.

Lemma thread_fresh_facts t :
  thread_fresh t = true ->
  pend_ids t = [] /\ gcW t = None /\ busy_flusher t = false /\ inflight t = None /\
  live_snap t = None /\ forall sh l, TInvS sh l t.
Proof.
  destruct t as [keys [| | |]|n|prog [| |]|prog [| |]]; cbn; try discriminate; intros _;
    repeat split; auto.
Qed.

Theorem cinit_inv wprog ths :
  forallb thread_fresh ths = true -> CInv (cinit wprog ths).
Proof.
  intros HF. right. split; [reflexivity|].
  exists (mkCSV 0 0 [] empty_version). cbn [cinit c_sh c_thr c_obs].
  rewrite forallb_forall in HF.
  split; [|split; [|split; [|split]]].
  - constructor; unfold wnext; cbn; auto.
    + constructor; [constructor|constructor].
    + intros sv [<-|[]]. cbn. lia.
    + lia.
    + intros sv [<-|[]]. split; [|split].
      * split.
        -- intros c [<-|[]]. reflexivity.
        -- constructor; constructor.
      * split; [constructor; [intros []|constructor]|]. split; [intros id [<-|[]]; cbn; lia|intros []].
      * intros t [].
    + intros id x [].
    + constructor.
    + intros e [].
    + intros e [].
    + intros S _ k. reflexivity.
    + split; [constructor|intros t []].
    + lia.
  - intros i t Hn. apply nth_error_In in Hn. destruct (thread_fresh_facts t (HF t Hn)) as (A & B & _ & _ & _ & C).
    apply tinv_passive; auto.
  - intros i j t u NE Hi Hj. apply nth_error_In in Hi, Hj.
    destruct (thread_fresh_facts t (HF t Hi)) as (A & B & C & Dd & _ & _).
    split; [rewrite C; discriminate|]. split; [rewrite B; discriminate|].
    split; [rewrite A; intros x []|]. rewrite Dd. discriminate.
  - intros x [].
  - intros o [].
Qed.

(** THEOREM 1.  The invariant holds after every schedule *)
Theorem C06_CInv wprog ths sched :
  forallb thread_fresh ths = true -> CInv (crun (cinit wprog ths) sched).
Proof. intros H. apply crun_inv. now apply cinit_inv. Qed.

(** * N. The writer's log against its program *)

Definition e_op (e : entry) : wop :=
  match ty e with Value => Put (ukey e) (val e) | _ => Del (ukey e) end.

Definition pending_ops (w : wst) : list wop :=
  match w with WDrawn e => [e_op e] | _ => [] end.

(** the inserted entries are the program's operations, in program order; everything the
    writer is not in the middle of publishing is below its published watermark *)
Definition WInv (prog0 : list wop) (st : cstate) : Prop :=
  prog0 = map e_op (s_log (c_sh st)) ++ pending_ops (s_wst (c_sh st)) ++ c_wprog st /\
  match s_wst (c_sh st) with
  | WIns e => forall x, In x (s_log (c_sh st)) -> seq x < s_wpub (c_sh st) \/ x = e
  | _ => forall x, In x (s_log (c_sh st)) -> seq x < s_wpub (c_sh st)
  end /\
  (forall e, In e (s_log (c_sh st)) \/ s_wst (c_sh st) = WDrawn e -> ty e = Value \/ ty e = Tomb).

Lemma e_op_wop o s : e_op (wop_entry o s) = o.
Proof. destruct o; reflexivity. Qed.

Lemma tstep_keeps i sh ths t sh' t' os b p :
  tstep i sh ths t = Some (sh', t', os, b, p) ->
  s_log sh' = s_log sh /\ s_wst sh' = s_wst sh /\ s_wpub sh' = s_wpub sh.
Proof.
  destruct t as [keys s|n|prog s|prog s]; cbn [tstep].
  - unfold rstep. destruct s as [|sn cl|sn cl sv|].
    + intros E; inversion E; subst; auto.
    + destruct keys; [intros E; inversion E; subst; auto|].
      destruct (cvfs (s_hist sh) sn); intros E; inversion E; subst; auto.
    + destruct keys; intros E; inversion E; subst; auto.
    + discriminate.
  - unfold rotstep. destruct n; [discriminate|]. destruct (clatest (s_hist sh)); [|intros E; inversion E; subst; auto].
    destruct (heap_get (s_heap sh) (cs_active c)); intros E; inversion E; subst; auto.
  - unfold fstep. destruct s as [|W ids|W ids out].
    + destruct prog; [discriminate|]. destruct (existsb busy_flusher ths); [discriminate|].
      destruct (clatest (s_hist sh)); [|intros E; inversion E; subst; auto].
      destruct (cs_sealed c); intros E; inversion E; subst; auto.
    + intros E; inversion E; subst; auto.
    + destruct (clatest (s_hist sh)); [|intros E; inversion E; subst; auto].
      destruct (forallb (fun id => mem_in id (cs_sealed c)) ids); intros E; inversion E; subst; auto.
  - unfold kstep. destruct s as [|W maj d oid inp|W maj d inp out].
    + destruct prog; [discriminate|].
      destruct (if j_major c then existsb is_inflight ths else existsb is_inflight_major ths); [discriminate|].
      destruct (clatest (s_hist sh)); [|intros E; inversion E; subst; auto].
      destruct (rust_checks _ _ _); intros E; inversion E; subst; auto.
    + intros E; inversion E; subst; auto.
    + destruct (clatest (s_hist sh)); intros E; inversion E; subst; auto.
Qed.

Lemma winv_step prog0 st tid st' : CInv st -> WInv prog0 st -> cstep st tid = Some st' -> WInv prog0 st'.
Proof.
  intros CI (H1 & H2 & H3) E. unfold cstep in E. destruct (c_panic st); [discriminate|]. destruct tid as [|i].
  - destruct (wstep (c_sh st) (c_wprog st)) as [[[sh' prog'] p]|] eqn:EW; [|discriminate].
    inversion E; subst st'. clear E. unfold wstep in EW. unfold WInv. cbn [c_sh c_wprog].
    destruct (c_sh st) as [hist heap ctr vis ntid nmid hidden ws log wpub].
    cbn [s_wst s_hist s_heap s_ctr s_vis s_ntid s_nmid s_hidden s_log s_wpub] in *.
    destruct ws as [|e|e].
    + destruct (c_wprog st) as [|o rest]; [discriminate|]. inversion EW; subst sh' prog' p. cbn.
      rewrite e_op_wop. split; [exact H1|]. split; [exact H2|].
      intros e [He|He]; [apply H3; now left|]. inversion He; subst e. destruct o; cbn; auto.
    + destruct (clatest hist).
      * inversion EW; subst sh' prog' p. cbn. split; [|split].
        -- rewrite H1. cbn. rewrite map_app, <- app_assoc. reflexivity.
        -- intros x Hx. apply in_app_or in Hx. destruct Hx as [Hx|[<-|[]]]; auto.
        -- intros x [Hx|Hx]; [|discriminate]. apply in_app_or in Hx.
           destruct Hx as [Hx|[<-|[]]]; apply H3; auto.
      * inversion EW; subst sh' prog' p. cbn. auto.
    + inversion EW; subst sh' prog' p. cbn. split; [exact H1|]. split.
      * intros x Hx. destruct (H2 x Hx) as [A| ->]; lia.
      * intros x [Hx|Hx]; [|discriminate]. apply H3. now left.
  - destruct (nth_error (c_thr st) i) as [t|]; [|discriminate].
    destruct (tstep i (c_sh st) (c_thr st) t) as [[[[[sh' t'] os] b] p]|] eqn:ET; [|discriminate].
    inversion E; subst st'. clear E. destruct (tstep_keeps _ _ _ _ _ _ _ _ _ ET) as (A & B & C).
    unfold WInv. cbn [c_sh c_wprog]. rewrite A, B, C. auto.
Qed.

Lemma winv_run prog0 st sched : CInv st -> WInv prog0 st -> WInv prog0 (crun st sched).
Proof.
  revert st. induction sched as [|tid sched IH]; intros st CI H; [exact H|].
  cbn [crun fold_left]. destruct (cstep st tid) as [st'|] eqn:E.
  - apply IH; [eapply cstep_inv; eauto|eapply winv_step; eauto].
  - apply IH; assumption.
Qed.

Lemma winv_init wprog ths : WInv wprog (cinit wprog ths).
Proof. split; [reflexivity|]. cbn. split; [intros x []|intros e [[]|H]; discriminate]. Qed.

(** ** strictly increasing seqnos: the Spec's [newest] is "last write wins" *)

Definition incr (l : list entry) : Prop := StronglySorted (fun a b => seq a < seq b) l.

Lemma newest_incr_find k S l :
  incr l -> (forall e, In e l -> seq e < S) ->
  newest k S l = find (fun e => key_eqb (ukey e) k) (rev l).
Proof.
  induction 1 as [|e l HS IH HF]; intros HB; [reflexivity|].
  cbn [newest rev]. rewrite find_app. rewrite <- IH by (intros x Hx; apply HB; now right).
  unfold matches. replace (seq e <? S) with true by (symmetry; apply N.ltb_lt, HB; now left).
  rewrite andb_true_r. cbn [find].
  destruct (newest k S l) as [r|] eqn:R.
  - destruct (newest_some _ _ _ _ R) as [RI _]. rewrite Forall_forall in HF. specialize (HF r RI).
    destruct (key_eqb (ukey e) k); [|reflexivity].
    replace (seq r <? seq e) with false by (symmetry; apply N.ltb_ge; lia). reflexivity.
  - destruct (key_eqb (ukey e) k); reflexivity.
Qed.

Lemma incr_filter_firstn S l :
  incr l -> filter (fun e => seq e <? S) l = firstn (covered l S) l.
Proof.
  unfold covered. induction 1 as [|e l HS IH HF]; [reflexivity|]. cbn [filter].
  destruct (seq e <? S) eqn:C.
  - cbn [length firstn]. now rewrite <- IH.
  - rewrite filter_all_false; [reflexivity|]. intros x Hx. rewrite Forall_forall in HF.
    specialize (HF x Hx). apply N.ltb_ge in C. apply N.ltb_ge. lia.
Qed.

Lemma incr_firstn n l : incr l -> incr (firstn n l).
Proof.
  intros H. rewrite <- (firstn_skipn n l) in H. apply SS_app_inv in H. apply H.
Qed.

Lemma find_map_rev {A B} (f : A -> B) (p : B -> bool) l :
  find p (rev (map f l)) = option_map f (find (fun x => p (f x)) (rev l)).
Proof.
  rewrite <- map_rev. induction (rev l) as [|x r IH]; [reflexivity|]. cbn [map find].
  destruct (p (f x)); [reflexivity|exact IH].
Qed.

Lemma find_ext' {A} (p q : A -> bool) l : (forall x, p x = q x) -> find p l = find q l.
Proof.
  intros H. induction l as [|x l IH]; [reflexivity|]. cbn [find]. rewrite H, IH. reflexivity.
Qed.

Lemma wop_key_e_op e : wop_key (e_op e) = ukey e.
Proof. unfold e_op. destruct (ty e); reflexivity. Qed.

(** a read of the Spec over an increasing, weak-tombstone-free log = last write wins over
    the program prefix the snapshot covers *)
Lemma spec_get_prog log k S rest :
  incr log -> no_weak log -> (forall e, In e log -> ty e = Value \/ ty e = Tomb) ->
  res_val (spec_get log k S) = prog_get (map e_op log ++ rest) (covered log S) k.
Proof.
  intros HI NW HT. unfold spec_get, prog_get.
  rewrite newest_below. unfold below. rewrite (incr_filter_firstn S log HI).
  set (n := covered log S).
  assert (n <= length log)%nat as Hn.
  { unfold n, covered. clear. induction log as [|e l IH]; cbn; [lia|]. destruct (seq e <? S); cbn; lia. }
  rewrite firstn_app. replace (n - length (map e_op log))%nat with 0%nat by (rewrite map_length; lia).
  cbn [firstn]. rewrite app_nil_r, firstn_map.
  rewrite (newest_incr_find k S (firstn n log)).
  - rewrite find_map_rev. 
    rewrite (find_ext' (fun x => key_eqb (wop_key (e_op x)) k) (fun e => key_eqb (ukey e) k))
      by (intros x; now rewrite wop_key_e_op).
    destruct (find (fun e => key_eqb (ukey e) k) (rev (firstn n log))) as [e|] eqn:F; [|reflexivity].
    cbn [option_map visible]. apply find_some in F. destruct F as [F _]. apply in_rev in F.
    assert (In e log) as F' by (rewrite <- (firstn_skipn n log); apply in_or_app; now left).
    destruct (HT e F') as [Ty|Ty]; unfold is_tomb, e_op; rewrite Ty; reflexivity.
  - now apply incr_firstn.
  - intros e He. unfold n in He. rewrite <- (incr_filter_firstn S log HI) in He.
    apply filter_In in He. apply N.ltb_lt. apply He.
Qed.

(** * O. Main theorems *)

Section Main.
Variables (wprog : list wop) (ths : list thread).
Hypothesis fresh : forallb thread_fresh ths = true.

Let st0 := cinit wprog ths.

Lemma run_good sched :
  c_bad (crun st0 sched) = false -> CInvG (crun st0 sched).
Proof.
  intros Hb. destruct (C06_CInv wprog ths sched fresh) as [H|H]; [|exact H].
  unfold st0 in Hb. congruence.
Qed.

Lemma run_winv sched : WInv wprog (crun st0 sched).
Proof. apply winv_run; [now apply cinit_inv|apply winv_init]. Qed.

(** THEOREM 2.  Every recorded read at a clean snapshot returns exactly the Spec's value
    for that snapshot over the writes of the run (those with seqno < S were all inserted
    before S was taken, so the value does not depend on what happened afterwards) *)
Theorem C06_reads sched o :
  let st := crun st0 sched in
  c_bad st = false -> In o (c_obs st) -> o_clean o = true ->
  o_res o = spec_get (s_log (c_sh st)) (o_key o) (o_S o).
Proof.
  intros st Hb Ho Hc. destruct (run_good sched Hb) as (_ & l & _ & _ & _ & _ & OI).
  apply (OI o Ho Hc).
Qed.

(** ... in schedule-independent terms: last-write-wins over the prefix of the writer's
    program that the snapshot covers *)
Theorem C06_reads_prog sched o :
  let st := crun st0 sched in
  c_bad st = false -> In o (c_obs st) -> o_clean o = true ->
  res_val (o_res o) = prog_get wprog (covered (s_log (c_sh st)) (o_S o)) (o_key o).
Proof.
  intros st Hb Ho Hc. rewrite (C06_reads sched o Hb Ho Hc). fold st.
  destruct (run_good sched Hb) as (_ & l & D & _). destruct (run_winv sched) as (W1 & _ & W3).
  fold st in D, W1, W3. rewrite W1.
  apply spec_get_prog; [apply D|apply D|]. intros e He. apply W3. now left.
Qed.

(** a snapshot equal to the watermark the WRITER has published is clean: "every read at a
    snapshot the writer has already published" *)
Theorem C06_published_clean sched :
  let st := crun st0 sched in
  c_bad st = false -> s_vis (c_sh st) = s_wpub (c_sh st) -> snap_clean (c_sh st) = true.
Proof.
  intros st Hb Ev. destruct (run_good sched Hb) as (_ & l & D & _). fold st in D.
  unfold snap_clean. pose proof (dl_wpub _ _ D) as [_ H]. unfold wnext in H.
  destruct (s_wst (c_sh st)); auto. apply N.leb_le. lia.
Qed.

(** THEOREM 3.  No `expect` fires: [get_version_for_snapshot] always finds a superversion
    for a registered snapshot, [latest_version] always exists *)
Theorem C06_no_stuck sched :
  c_bad (crun st0 sched) = false -> c_panic (crun st0 sched) = false.
Proof. intros Hb. apply (run_good sched Hb). Qed.

Lemma covered_all log S : (forall e, In e log -> seq e < S) -> covered log S = length log.
Proof.
  intros H. unfold covered. rewrite filter_all_true; [reflexivity|].
  intros x Hx. apply N.ltb_lt. now apply H.
Qed.

(** THEOREM 4.  When every thread has finished, every acknowledged write is in the log, and
    the latest superversion reads, for every key, the newest write: last-write-wins over
    the whole program, whatever the schedule *)
Theorem C06_final sched :
  let st := crun st0 sched in
  c_bad st = false -> all_done st = true ->
  map e_op (s_log (c_sh st)) = wprog /\
  forall k, final_get st k = spec_get (s_log (c_sh st)) k (s_vis (c_sh st)) /\
            res_val (final_get st k) = prog_get wprog (length wprog) k.
Proof.
  intros st Hb Hd. destruct (run_good sched Hb) as (_ & l & D & _).
  destruct (run_winv sched) as (W1 & W2 & W3). fold st in D, W1, W2, W3.
  unfold all_done in Hd. destruct (c_wprog st) eqn:EP; [|discriminate].
  destruct (s_wst (c_sh st)) eqn:EW; try discriminate. cbn [pending_ops app] in W1.
  rewrite app_nil_r in W1.
  assert (forall e, In e (s_log (c_sh st)) -> seq e < s_vis (c_sh st)) as HV.
  { intros e He. specialize (W2 e He). pose proof (dl_wpub _ _ D). lia. }
  split; [now symmetry|]. intros k.
  assert (final_get st k = spec_get (s_log (c_sh st)) k (s_vis (c_sh st))) as EF.
  { unfold final_get. rewrite (dl_latest _ _ D).
    destruct (dl_good _ _ D l (clatest_In _ _ (dl_latest _ _ D))) as (LW & _).
    rewrite cget_spec by exact LW. unfold spec_get.
    destruct (dl_lat_vis _ _ D) as [LV|(V0 & _)]; [now apply (dl_view _ _ D)|].
    rewrite V0. now rewrite !newest_zero. }
  split; [exact EF|]. rewrite EF.
  rewrite (spec_get_prog _ k _ [] (dl_log_sorted _ _ D) (dl_log_noweak _ _ D)).
  - rewrite app_nil_r, <- W1, covered_all by exact HV. f_equal. rewrite W1. now rewrite map_length.
  - intros e He. apply W3. now left.
Qed.

(** THEOREM 5.  Schedule independence: two schedules of the same programs agree on the
    final per-key view, and any two clean reads of the same key that cover the same number
    of writes return the same value *)
Theorem C06_schedule_independent sched1 sched2 :
  let st1 := crun st0 sched1 in let st2 := crun st0 sched2 in
  c_bad st1 = false -> c_bad st2 = false ->
  (all_done st1 = true -> all_done st2 = true ->
   forall k, res_val (final_get st1 k) = res_val (final_get st2 k)) /\
  (forall o1 o2, In o1 (c_obs st1) -> In o2 (c_obs st2) ->
     o_clean o1 = true -> o_clean o2 = true -> o_key o1 = o_key o2 ->
     covered (s_log (c_sh st1)) (o_S o1) = covered (s_log (c_sh st2)) (o_S o2) ->
     res_val (o_res o1) = res_val (o_res o2)).
Proof.
  intros st1 st2 B1 B2. split.
  - intros D1 D2 k.
    destruct (C06_final sched1 B1 D1) as [_ F1]. destruct (C06_final sched2 B2 D2) as [_ F2].
    unfold st1, st2. rewrite (proj2 (F1 k)), (proj2 (F2 k)). reflexivity.
  - intros o1 o2 H1 H2 C1 C2 Ek Ec.
    rewrite (C06_reads_prog sched1 o1 B1 H1 C1), (C06_reads_prog sched2 o2 B2 H2 C2).
    fold st1 st2. rewrite Ek, Ec. reflexivity.
Qed.

End Main.

(** * P. The invariant, spelled out (for runs whose strategies kept their obligation) *)

Section Spelled.
Variables (wprog : list wop) (ths : list thread).
Hypothesis fresh : forallb thread_fresh ths = true.
Variable sched : list nat.
Let st := crun (cinit wprog ths) sched.
Hypothesis good : c_bad st = false.

Let G : CInvG st := run_good wprog ths fresh sched good.

(** 1(a) the history: non-empty, seqnos ascending and at most the counter, every retained
    superversion has sorted containers in recency order ([recency_b] of Model/Tree.v) whose
    entries were all handed out by the counter *)
Theorem C06_inv_history :
  exists l, clatest (s_hist (c_sh st)) = Some l /\
    StronglySorted N.le (map cs_seq (s_hist (c_sh st))) /\
    s_vis (c_sh st) <= s_ctr (c_sh st) /\
    forall sv, In sv (s_hist (c_sh st)) ->
      cs_seq sv <= s_ctr (c_sh st) /\
      recency_b (containers (s_heap (c_sh st)) sv) = true /\
      (forall c, In c (containers (s_heap (c_sh st)) sv) -> sorted_b c = true) /\
      (forall e, In e (content (s_heap (c_sh st)) sv) -> seq e < s_ctr (c_sh st)).
Proof.
  destruct G as (_ & l & D & _). exists l. split; [apply D|]. split; [apply D|]. split; [apply D|].
  intros sv Hsv. destruct (dl_good _ _ D sv Hsv) as ((A & B) & _ & C).
  split; [now apply (dl_seq_le _ _ D)|]. split; [now apply Rec_iff|]. split.
  - intros c Hc. rewrite <- ssorted_eq. now apply A.
  - intros e He. eapply content_lt_ctr; eauto.
Qed.

(** 1(b) hidden-set discipline: the inputs of every in-flight compaction are hidden, are
    STILL tables of the current latest version (with the content that was cloned at K1),
    inputs of different compactions are disjoint, and every hidden id has an owner *)
Theorem C06_inv_hidden :
  exists l, clatest (s_hist (c_sh st)) = Some l /\
  (forall i t m d inp, nth_error (c_thr st) i = Some t -> inflight t = Some (m, d, inp) ->
     incl (inp_ids inp) (s_hidden (c_sh st)) /\
     (forall p, In p inp -> In (snd p) (concat (cs_ver l))) /\
     CompatV (cs_ver l) d inp) /\
  (forall i j t u m d inp m' d' inp', i <> j ->
     nth_error (c_thr st) i = Some t -> nth_error (c_thr st) j = Some u ->
     inflight t = Some (m, d, inp) -> inflight u = Some (m', d', inp') ->
     forall x, In x (inp_ids inp) -> ~ In x (inp_ids inp')) /\
  (forall x, In x (s_hidden (c_sh st)) ->
     exists i t m d inp, nth_error (c_thr st) i = Some t /\ inflight t = Some (m, d, inp) /\
                         In x (inp_ids inp)).
Proof.
  destruct G as (_ & l & D & T & PW & HO & _). exists l. split; [apply D|]. split; [|split].
  - intros i t m d inp Hn Ei. destruct (T i t Hn) as (_ & _ & Ti).
    destruct t as [? ?|?|? ?|? [|? ? ? ? ?|? ? ? ? ?]]; cbn [inflight] in Ei; try discriminate;
      inversion Ei; subst; cbn [TInvS] in Ti.
    + destruct Ti as (A & B). split; [exact B|]. split; [|exact A].
      intros p Hp. eapply compat_in_tables; eauto.
    + destruct Ti as (A & B & _). split; [exact B|]. split; [|exact A].
      intros p Hp. eapply compat_in_tables; eauto.
  - intros i j t u m d inp m' d' inp' NE Hi Hj Ei Ej.
    destruct (PW i j t u NE Hi Hj) as (_ & _ & _ & X). destruct (X _ _ _ _ _ _ Ei Ej) as (_ & Y & _).
    exact Y.
  - exact HO.
Qed.

(** 1(c) no acknowledged write is lost: for every key and every snapshot above the latest
    superversion's seqno, the latest superversion reads what the Spec reads over all the
    writes inserted so far (a tombstone, evicted or not, reads as absent) *)
Theorem C06_inv_writes :
  exists l, clatest (s_hist (c_sh st)) = Some l /\
  forall k S, cs_seq l < S ->
    cget (s_heap (c_sh st)) l k S = spec_get (s_log (c_sh st)) k S.
Proof.
  destruct G as (_ & l & D & _). exists l. split; [apply D|]. intros k S HS.
  destruct (dl_good _ _ D l (clatest_In _ _ (dl_latest _ _ D))) as (LW & _).
  rewrite cget_spec by exact LW. now apply (dl_view _ _ D).
Qed.

(** 1(d) a flusher between F1 and F3 still finds all its captured sealed memtables, as the
    oldest ones, in the latest superversion: the issue-287 check passes, nothing is flushed
    twice, nothing is lost *)
Theorem C06_inv_flusher :
  exists l, clatest (s_hist (c_sh st)) = Some l /\
  forall i t, nth_error (c_thr st) i = Some t ->
    match t with
    | TFlusher _ (FCapt _ ids) | TFlusher _ (FBuilt _ ids _) =>
        exists rest, cs_sealed l = ids ++ rest
    | _ => True
    end.
Proof.
  destruct G as (_ & l & D & T & _). exists l. split; [apply D|]. intros i t Hn.
  destruct (T i t Hn) as (_ & _ & Ti).
  destruct t as [? ?|?|? [|? ?|? ? ?]|? ?]; cbn [TInvS] in Ti; auto. apply Ti.
Qed.

End Spelled.

(** [register_skips_or_installs]: whatever the state, F3 either leaves the history alone
    (some captured id is gone) or appends exactly the flushed superversion *)
Lemma register_skips_or_installs sh ths prog W ids out sh' t' os b p :
  fstep sh ths prog (FBuilt W ids out) = Some (sh', t', os, b, p) -> p = false ->
  s_hist sh' = s_hist sh \/
  exists l, clatest (s_hist sh) = Some l /\ (forall id, In id ids -> In id (cs_sealed l)) /\
    s_hist sh' = cmaint (s_hist sh ++
                   [mkCSV (s_ctr sh) (cs_active l)
                      (filter (fun m => negb (mem_in m ids)) (cs_sealed l))
                      (v_flush (cs_ver l) out)]) W.
Proof.
  unfold fstep. destruct (clatest (s_hist sh)) as [l|]; [|intros E; inversion E; subst; discriminate].
  destruct (forallb (fun id => mem_in id (cs_sealed l)) ids) eqn:C; intros E _; inversion E; subst.
  - right. exists l. split; [reflexivity|]. split; [|reflexivity].
    intros id Hid. rewrite forallb_forall in C. apply mem_in_iff. now apply C.
  - now left.
Qed.

(** the key lemma under the name of the task *)
Definition with_merge_commutes := merge_install.

(** ** correspondence of the history functions with Model/History.v *)

Definition to_sv (h : heap) (sv : csv) : superversion :=
  mkSV (cs_seq sv) (mkM (cs_active sv) (heap_get h (cs_active sv)))
       (map (fun id => mkM id (heap_get h id)) (cs_sealed sv))
       (mkV 0 (map (map (fun t => [mkT (ct_id t) 0 (ct_ents t) [] [] 0 0 0 0 0])) (cs_ver sv))).

Lemma find_map' {A B} (f : A -> B) (p : B -> bool) l :
  find p (map f l) = option_map f (find (fun x => p (f x)) l).
Proof. induction l as [|x l IH]; [reflexivity|]. cbn. destruct (p (f x)); auto. Qed.

Lemma cvfs_is_version_for_snapshot h hist S :
  version_for_snapshot (map (to_sv h) hist) S = option_map (to_sv h) (cvfs hist S).
Proof.
  unfold version_for_snapshot, cvfs. destruct (S =? 0).
  - destruct hist; reflexivity.
  - rewrite <- map_rev, find_map'. reflexivity.
Qed.

Lemma rposition_map {A B} (f : A -> B) (p : B -> bool) l :
  rposition p (map f l) = rposition (fun x => p (f x)) l.
Proof. induction l as [|x l IH]; [reflexivity|]. cbn. rewrite IH. reflexivity. Qed.

Lemma cmaint_is_maintenance h hist W :
  maintenance (map (to_sv h) hist) W = map (to_sv h) (cmaint hist W).
Proof.
  unfold maintenance, cmaint. destruct (W =? 0); [reflexivity|]. rewrite map_length.
  destruct (Nat.ltb (length hist - 1) 1); [reflexivity|]. rewrite rposition_map. cbn [to_sv sv_seq].
  destruct (rposition (fun x => cs_seq x <? W) hist); [|reflexivity]. now rewrite skipn_map.
Qed.

Lemma content_to_sv h sv : Tree.content (to_sv h sv) = content h sv.
Proof.
  unfold Tree.content, Tree.containers, content, containers, to_sv. cbn [active sealed ver ments].
  f_equal. f_equal. f_equal.
  - rewrite <- map_rev, map_map. reflexivity.
  - unfold Tree.all_tables, all_runs. cbn [levels].
    induction (cs_ver sv) as [|l v IH]; [reflexivity|]. cbn [map concat].
    rewrite !concat_app, !map_app, IH. f_equal.
    clear. induction l as [|t l IH]; [reflexivity|]. cbn. now rewrite IH.
Qed.

Lemma vs_nodup_N_b_local l : nodup_N_b l = true <-> NoDup l.
Proof.
  induction l as [|x l IH]; cbn [nodup_N_b].
  - split; [constructor|reflexivity].
  - rewrite andb_true_iff, negb_true_iff, IH. split.
    + intros [H1 H2]. constructor; [|exact H2]. intros HI.
      assert (existsb (N.eqb x) l = true); [|congruence].
      apply existsb_exists. exists x. split; [exact HI|apply N.eqb_refl].
    + intros H. inversion H as [|? ? NI ND]; subst. split; [|exact ND].
      destruct (existsb (N.eqb x) l) eqn:E; [|reflexivity]. exfalso. apply NI.
      apply existsb_exists in E. destruct E as (y & Hy & Ey). apply N.eqb_eq in Ey. now subst.
Qed.

(** ** the major-compaction lock *)

Section Major.
Variables (wprog : list wop) (ths : list thread).
Hypothesis fresh : forallb thread_fresh ths = true.
Variable sched : list nat.
Let st := crun (cinit wprog ths) sched.
Hypothesis good : c_bad st = false.

(** while a major compaction is between K1 and K3 no other compaction is *)
Theorem C06_major_exclusive i j t u m d inp x :
  i <> j -> nth_error (c_thr st) i = Some t -> nth_error (c_thr st) j = Some u ->
  inflight t = Some (m, d, inp) -> inflight u = Some x -> m = false.
Proof.
  intros NE Hi Hj Ei Ej. destruct (run_good wprog ths fresh sched good) as (_ & l & _ & _ & PW & _).
  destruct x as [[m' d'] inp']. destruct (PW i j t u NE Hi Hj) as (_ & _ & _ & X).
  now destruct (X _ _ _ _ _ _ Ei Ej).
Qed.

End Major.

Lemma tag_levels_lt i v p : In p (tag_levels i v) -> (fst p < i + length v)%nat.
Proof.
  revert i; induction v as [|l v IH]; intros i HI; [contradiction|].
  cbn [tag_levels] in HI. apply in_app_or in HI. destruct HI as [HI|HI].
  - apply in_map_iff in HI. destruct HI as (t & <- & _). cbn. lia.
  - apply IH in HI. cbn [length]. lia.
Qed.

(** a major compaction (all tables, last level, exclusive lock) always satisfies
    [strategy_ok]: only the choices of MINOR strategies are obligations *)
Lemma major_strategy_ok ths v :
  NoDup (map ct_id (concat v)) -> length v = LEVEL_COUNT ->
  existsb is_inflight ths = false ->
  strategy_ok ths v (map ct_id (concat v)) LAST_LEVEL = true.
Proof.
  intros ND HL NI. unfold strategy_ok. cbv zeta.
  assert (forall p, In p (tag_levels 0 v) -> sel_in (map ct_id (concat v)) p = true) as ALL.
  { intros p Hp. unfold sel_in. apply mem_in_iff. apply in_map. rewrite <- (map_snd_tag 0). now apply in_map. }
  assert (unchosen (map ct_id (concat v)) v = []) as EU.
  { unfold unchosen. apply filter_all_false. intros p Hp. now rewrite (ALL p Hp). }
  rewrite EU. cbn [forallb]. rewrite andb_true_r.
  repeat (apply andb_true_iff; split); try reflexivity.
  - apply (proj2 (vs_nodup_N_b_local _)). exact ND.
  - apply forallb_forall. intros p Hp. apply PeanoNat.Nat.leb_le. apply chosen_in in Hp.
    destruct Hp as [Hp _]. apply tag_levels_lt in Hp. rewrite HL in Hp. unfold LEVEL_COUNT, LAST_LEVEL in *. lia.
  - apply forallb_forall. intros u Hu. unfold pw_ok.
    destruct (inflight u) as [[[m d'] inp']|] eqn:E; [|reflexivity].
    exfalso. assert (existsb is_inflight ths = true); [|congruence].
    apply existsb_exists. exists u. split; [exact Hu|]. unfold is_inflight. now rewrite E.
Qed.

Lemma major_never_bad st i job rest sh' t' os b p :
  CInvG st -> nth_error (c_thr st) i = Some (TCompactor (job :: rest) KIdle) ->
  j_major job = true ->
  kstep (c_sh st) (c_thr st) (job :: rest) KIdle = Some (sh', t', os, b, p) -> b = false.
Proof.
  intros (_ & l & D & _) Hn HM E. unfold kstep in E. rewrite HM in E.
  destruct (existsb is_inflight (c_thr st)) eqn:LOCK; [discriminate|].
  rewrite (dl_latest _ _ D) in E.
  destruct (rust_checks _ _ _); inversion E; subst; [|reflexivity].
  rewrite major_strategy_ok; [reflexivity|apply (dl_tids _ _ D)|apply D|exact LOCK].
Qed.

(** * Q. Executable examples *)

Module ConcExample.
  Definition ka : key := [97].  Definition kb : key := [98].

  (** 1 writer: 6 writes over 2 keys, one of them a delete *)
  Definition wp : list wop := [Put ka [1]; Put kb [2]; Put ka [3]; Del kb; Put kb [5]; Put ka [6]].

  (** thread ids: 0 writer, 1-2 readers, 3 rotator, 4 flusher, 5 minor compactor (table 0 into
      L1), 6 major compactor *)
  Definition ths : list thread :=
    [TReader [ka; kb] RInit; TReader [kb; ka] RInit; TRotator 2; TFlusher [100; 100] FIdle;
     TCompactor [mkJob false [0] 1 100] KIdle; TCompactor [mkJob true [] 0 100] KIdle].

  Definition st0 : cstate := cinit wp ths.

  Definition W3 : list nat := [0; 0; 0]%nat.
  Definition W9 : list nat := W3 ++ W3 ++ W3.

  (** A: background work between the writer's batches *)
  Definition sA : list nat :=
    (W9 ++ [3; 4;4;4; 1] ++ W9 ++ [1;1;1;1; 3; 4;4;4; 5;5;5; 2;2;2;2;2;2; 6;6;6; 1])%nat.
  (** B: flush and compaction interleaved with the writer's draw / insert / publish and
      with the readers' pin / read *)
  Definition sB : list nat :=
    (W9 ++ [1; 3; 4; 0; 4; 0; 0; 4; 1; 5] ++ W3 ++ [1; 5] ++ W3
        ++ [3; 5; 1; 4;4;4; 1; 2;2; 6; 2; 6;6; 2;2;2; 1])%nat.
  (** C: a reader pins a superversion, a compaction replaces it, the reader reads *)
  Definition sC : list nat :=
    (W9 ++ [3; 4;4;4; 5; 1;1; 5;5] ++ W9 ++ [1; 3; 1;1; 4;4;4; 2; 6;6; 2;2; 6; 2;2;2; 1])%nat.

  (** observations up to the schedule-dependent seqnos: (reader, key, number of writes the
      snapshot covers, clean?, value read) *)
  Definition norm (st : cstate) :=
    map (fun o => (o_rid o, o_key o, covered (s_log (c_sh st)) (o_S o), o_clean o,
                   res_val (o_res o))) (c_obs st).

  Definition expected :=
    [(0%nat, ka, 3%nat, true, Some [3]); (0%nat, kb, 3%nat, true, Some [2]);
     (1%nat, kb, 6%nat, true, Some [5]); (1%nat, ka, 6%nat, true, Some [6])].

  Definition summary (s : list nat) :=
    let st := crun st0 s in
    (norm st, c_bad st, c_panic st, all_done st,
     res_val (final_get st ka), res_val (final_get st kb)).

  Example fresh_ok : forallb thread_fresh ths = true.
  Proof. reflexivity. Qed.

  (** three different schedules: same observations, same final view, no bad choice, no
      panic, everything finished; the raw snapshot seqnos differ *)
  Example three_schedules :
    summary sA = (expected, false, false, true, Some [6], Some [5]) /\
    summary sB = (expected, false, false, true, Some [6], Some [5]) /\
    summary sC = (expected, false, false, true, Some [6], Some [5]) /\
    map o_S (c_obs (crun st0 sA)) = [4; 4; 9; 9] /\
    map o_S (c_obs (crun st0 sB)) = [3; 3; 9; 9].
  Proof. vm_compute. repeat split; reflexivity. Qed.

  (** the theorems apply to these runs (side conditions by [vm_compute]) *)
  Lemma bad_A : c_bad (crun (cinit wp ths) sA) = false. Proof. vm_compute. reflexivity. Qed.
  Lemma bad_B : c_bad (crun (cinit wp ths) sB) = false. Proof. vm_compute. reflexivity. Qed.
  Lemma bad_C : c_bad (crun (cinit wp ths) sC) = false. Proof. vm_compute. reflexivity. Qed.
  Lemma done_A : all_done (crun (cinit wp ths) sA) = true. Proof. vm_compute. reflexivity. Qed.
  Lemma done_B : all_done (crun (cinit wp ths) sB) = true. Proof. vm_compute. reflexivity. Qed.
  Lemma done_C : all_done (crun (cinit wp ths) sC) = true. Proof. vm_compute. reflexivity. Qed.
  Lemma clean_A : forallb o_clean (c_obs (crun (cinit wp ths) sA)) = true.
  Proof. vm_compute. reflexivity. Qed.

  Example three_schedules_thm k :
    res_val (final_get (crun (cinit wp ths) sA) k) = res_val (final_get (crun (cinit wp ths) sB) k) /\
    res_val (final_get (crun (cinit wp ths) sB) k) = res_val (final_get (crun (cinit wp ths) sC) k).
  Proof.
    split.
    - exact (proj1 (C06_schedule_independent wp ths fresh_ok sA sB bad_A bad_B) done_A done_B k).
    - exact (proj1 (C06_schedule_independent wp ths fresh_ok sB sC bad_B bad_C) done_B done_C k).
  Qed.

  Example sA_reads o :
    In o (c_obs (crun (cinit wp ths) sA)) ->
    o_res o = spec_get (s_log (c_sh (crun (cinit wp ths) sA))) (o_key o) (o_S o).
  Proof.
    intros Ho.
    exact (C06_reads wp ths fresh_ok sA o bad_A Ho (proj1 (forallb_forall _ _) clean_A o Ho)).
  Qed.

  Example sB_final k :
    res_val (final_get (crun (cinit wp ths) sB) k) = prog_get wp (length wp) k.
  Proof. exact (proj2 (proj2 (C06_final wp ths fresh_ok sB bad_B done_B) k)). Qed.

  Example sC_no_stuck : c_panic (crun (cinit wp ths) sC) = false.
  Proof. exact (C06_no_stuck wp ths fresh_ok sC bad_C). Qed.

  (** ** a snapshot published by [upgrade_version] instead of the writer *)

  (** writer: a@0 published; rotate; flush F1 F2; the writer DRAWS seqno 1 for b; F3 draws
      seqno 2 and publishes visible = 3; a reader takes S = 3, reads b: absent; the writer
      inserts b@1; the same reader reads b again at the same snapshot: present *)
  Definition ths_d : list thread :=
    [TReader [kb; kb] RInit; TRotator 1; TFlusher [0] FIdle].
  Definition sD : list nat := [0;0;0; 2; 3;3; 0; 3; 1;1;1; 0;0; 1;1;1]%nat.

  Example dirty_read :
    let st := crun (cinit [Put ka [1]; Put kb [2]] ths_d) sD in
    c_bad st = false /\ c_panic st = false /\ all_done st = true /\
    map (fun o => (o_S o, o_clean o, res_val (o_res o))) (c_obs st)
    = [(3, false, None); (3, false, Some [2])] /\
    res_val (spec_get (s_log (c_sh st)) kb 3) = Some [2].
  Proof. vm_compute. repeat split; reflexivity. Qed.

  (** so the statement of THEOREM 2 without the [o_clean] hypothesis is false of the model *)
  Theorem C06_reads_unclean_refuted :
    exists wprog ths sched o,
      forallb thread_fresh ths = true /\
      let st := crun (cinit wprog ths) sched in
      c_bad st = false /\ In o (c_obs st) /\
      o_res o <> spec_get (s_log (c_sh st)) (o_key o) (o_S o).
  Proof.
    exists [Put ka [1]; Put kb [2]], ths_d, sD, (mkObs 0 kb 3 false None).
    split; [reflexivity|]. cbv zeta. split; [reflexivity|]. split.
    - vm_compute. left. reflexivity.
    - vm_compute. discriminate.
  Qed.

  (** ** a strategy that violates [strategy_ok]: a merge into level 0 *)

  (** table 0 = {a@0} in L0; the compactor chooses it with dest = 0 (K1, K2); meanwhile the
      writer overwrites a, rotate, flush puts {a@2} in front of L0; K3 puts the merged {a@0}
      in FRONT of it: the final read of a is stale.  worker.rs runs this choice: its own
      checks (hidden, tables exist) pass *)
  Definition ths_s : list thread :=
    [TRotator 2; TFlusher [0; 0] FIdle; TCompactor [mkJob false [0] 0 0] KIdle].
  Definition sS : list nat := [0;0;0; 1; 2;2;2; 3;3; 0;0;0; 1; 2;2;2; 3]%nat.

  Example bad_strategy :
    let st := crun (cinit [Put ka [1]; Put ka [3]] ths_s) sS in
    c_bad st = true /\ c_panic st = false /\ all_done st = true /\
    res_val (final_get st ka) = Some [1] /\
    res_val (spec_get (s_log (c_sh st)) ka (s_vis (c_sh st))) = Some [3].
  Proof. vm_compute. repeat split; reflexivity. Qed.

  (** ** two compactions into the same level that share a key ([pw_ok] violated) *)

  (** X = {a@0} sits in L1, Y = {a@2} in L0.  Compactor 4 rewrites X in place (dest 1),
      compactor 5 merges Y down (dest 1): both outputs go to the FRONT of L1 in the order
      the two K3 happen: if the older data finishes last it shadows the newer *)
  Definition ths_p : list thread :=
    [TRotator 2; TFlusher [0; 0] FIdle; TCompactor [mkJob false [0] 1 0] KIdle;
     TCompactor [mkJob false [1] 1 0] KIdle; TCompactor [mkJob false [2] 1 0] KIdle].
  Definition sP (last : list nat) : list nat :=
    ([0;0;0; 1; 2;2;2; 3;3;3; 0;0;0; 1; 2;2;2; 4; 5; 4; 5] ++ last)%nat.

  Example same_dest_race :
    let st1 := crun (cinit [Put ka [1]; Put ka [3]] ths_p) (sP [5; 4]%nat) in
    let st2 := crun (cinit [Put ka [1]; Put ka [3]] ths_p) (sP [4; 5]%nat) in
    c_bad st1 = true /\ all_done st1 = true /\ res_val (final_get st1 ka) = Some [1] /\
    c_bad st2 = true /\ all_done st2 = true /\ res_val (final_get st2 ka) = Some [3].
  Proof. vm_compute. repeat split; reflexivity. Qed.

  (** the same race with the legal destination 1 is harmless *)
  Definition ths_s1 : list thread :=
    [TRotator 2; TFlusher [0; 0] FIdle; TCompactor [mkJob false [0] 1 0] KIdle].
  Example good_strategy :
    let st := crun (cinit [Put ka [1]; Put ka [3]] ths_s1) sS in
    c_bad st = false /\ all_done st = true /\ res_val (final_get st ka) = Some [3].
  Proof. vm_compute. repeat split; reflexivity. Qed.

  (** unit test of the crate replayed on the history functions:
      super_version.rs: super_version_gc_below_watermark_simple_2 *)
  Example maint_simple_2 :
    let e := empty_version in
    map cs_seq (cmaint [mkCSV 0 0 [] e; mkCSV 1 0 [] e; mkCSV 2 0 [] e; mkCSV 8 0 [] e] 3) = [2; 8].
  Proof. reflexivity. Qed.
  Example maint_keep :
    let e := empty_version in
    length (cmaint [mkCSV 0 0 [] e; mkCSV 8 0 [] e] 3) = 2%nat.
  Proof. reflexivity. Qed.
  Example maint_shadowed :
    let e := empty_version in
    length (cmaint [mkCSV 0 0 [] e; mkCSV 2 0 [] e] 3) = 1%nat.
  Proof. reflexivity. Qed.
End ConcExample.

(** * R. Summary

    Model: [cstep : cstate -> nat -> option cstate], [crun : cstate -> list nat -> cstate].
    - [C06_CInv]                     (1) the invariant [CInv] after every schedule
      [C06_inv_history] (a)  [C06_inv_hidden] (b)  [C06_inv_writes] (c)  [C06_inv_flusher] (d)
      key lemmas: [replace_merge] / [merge_install] (= [with_merge_commutes]), [compat_after],
      [compat_merge_cond], [flush_install], [register_skips_or_installs]
    - [C06_reads], [C06_reads_prog], [C06_published_clean]   (2)
    - [C06_no_stuck]                                         (3)
    - [C06_final], [C06_schedule_independent]                (4)
    - refutations: [C06_reads_unclean_refuted], [ConcExample.bad_strategy] *)

Print Assumptions C06_CInv.
Print Assumptions C06_inv_history.
Print Assumptions C06_inv_hidden.
Print Assumptions C06_inv_writes.
Print Assumptions C06_inv_flusher.
Print Assumptions with_merge_commutes.
Print Assumptions replace_merge.
Print Assumptions register_skips_or_installs.
Print Assumptions C06_reads.
Print Assumptions C06_reads_prog.
Print Assumptions C06_published_clean.
Print Assumptions C06_no_stuck.
Print Assumptions C06_major_exclusive.
Print Assumptions major_strategy_ok.
Print Assumptions major_never_bad.
Print Assumptions C06_final.
Print Assumptions C06_schedule_independent.
Print Assumptions ConcExample.three_schedules.
Print Assumptions ConcExample.C06_reads_unclean_refuted.
Print Assumptions ConcExample.bad_strategy.
Print Assumptions ConcExample.same_dest_race.
