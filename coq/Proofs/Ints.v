(** Proofs about the integer codecs of Model/Ints.v. *)
From LsmV Require Import Base.Bytes Model.Ints.
Open Scope N_scope.
Arguments N.add : simpl never.
Arguments N.sub : simpl never.
Arguments N.mul : simpl never.
Arguments N.ltb : simpl never.
Arguments N.leb : simpl never.
Arguments N.eqb : simpl never.
Arguments N.pow : simpl never.
Arguments N.div : simpl never.
Arguments N.modulo : simpl never.

(** * Byte-level helper facts *)

Definition all_bytes : list N := map N.of_nat (seq 0 256).

Lemma byte_cases b : b < 256 -> In b all_bytes.
Proof.
  intros H. unfold all_bytes. rewrite <- (N2Nat.id b). apply in_map.
  apply in_seq. lia.
Qed.

Lemma byte_forall (P : N -> bool) :
  forallb P all_bytes = true -> forall b, b < 256 -> P b = true.
Proof.
  intros H b Hb. rewrite forallb_forall in H. apply H. now apply byte_cases.
Qed.

Lemma land127 v : N.land v 127 = v mod 128.
Proof. change 127 with (N.ones 7). rewrite N.land_ones. reflexivity. Qed.

Lemma shiftr7 v : N.shiftr v 7 = v / 128.
Proof. rewrite N.shiftr_div_pow2. reflexivity. Qed.

Lemma lor128 x : x < 128 -> N.lor x 128 = x + 128.
Proof.
  intros H.
  assert (E : (fun x => (x <? 128) && negb (N.lor x 128 =? x + 128)) x = false).
  { assert (A : forall b, b < 256 -> negb ((b <? 128) && negb (N.lor b 128 =? b + 128)) = true).
    { apply byte_forall. vm_compute. reflexivity. }
    specialize (A x ltac:(lia)). now apply negb_true_iff in A. }
  cbv beta in E. apply andb_false_iff in E. destruct E as [E|E].
  - apply N.ltb_ge in E. lia.
  - apply negb_false_iff in E. now apply N.eqb_eq in E.
Qed.

Lemma land128 b : b < 256 -> (N.land b 128 =? 128) = (128 <=? b).
Proof.
  intros H.
  assert (A : forall b, b < 256 -> Bool.eqb (N.land b 128 =? 128) (128 <=? b) = true).
  { apply byte_forall. vm_compute. reflexivity. }
  apply Bool.eqb_prop. now apply A.
Qed.

Lemma lor_add_pow2 a b s : a < 2 ^ s -> N.lor a (b * 2 ^ s) = a + b * 2 ^ s.
Proof.
  intros H.
  assert (L : N.land a (b * 2 ^ s) = 0).
  { apply N.bits_inj. intros i. rewrite N.land_spec, N.bits_0.
    destruct (N.lt_ge_cases i s) as [Hi|Hi].
    - rewrite N.mul_pow2_bits_low by assumption. apply andb_false_r.
    - assert (Ha : N.testbit a i = false).
      { destruct (N.eq_dec a 0) as [->|Hz]; [apply N.bits_0|].
        apply N.bits_above_log2. apply N.log2_lt_pow2; [lia|].
        eapply N.lt_le_trans; [exact H|]. apply N.pow_le_mono_r; lia. }
      rewrite Ha. reflexivity. }
  rewrite (N.add_nocarry_lxor _ _ L). symmetry. now apply N.lxor_lor.
Qed.

(** * Fixed-width codecs *)

Lemma le_bytes_length n w : length (le_bytes n w) = w.
Proof. revert n; induction w as [|w IH]; intros n; cbn [le_bytes length]; [reflexivity|]. now rewrite IH. Qed.

Lemma be_bytes_length n w : length (be_bytes n w) = w.
Proof. unfold be_bytes. now rewrite rev_length, le_bytes_length. Qed.

Lemma le_bytes_wf n w : bytes_wf (le_bytes n w).
Proof.
  revert n; induction w as [|w IH]; intros n; cbn [le_bytes]; constructor.
  - apply N.mod_lt. lia.
  - apply IH.
Qed.

Lemma be_bytes_wf n w : bytes_wf (be_bytes n w).
Proof.
  unfold be_bytes, bytes_wf. apply Forall_forall. intros x Hx. apply in_rev in Hx.
  pose proof (le_bytes_wf n w) as H. unfold bytes_wf in H. rewrite Forall_forall in H. now apply H.
Qed.

Lemma pow256_S (w : nat) : 2 ^ (8 * N.of_nat (S w)) = 256 * 2 ^ (8 * N.of_nat w).
Proof.
  replace (8 * N.of_nat (S w)) with (8 + 8 * N.of_nat w) by lia.
  rewrite N.pow_add_r. reflexivity.
Qed.

Lemma pow2_nz k : 2 ^ k <> 0.
Proof. apply N.pow_nonzero. lia. Qed.

Lemma mod_256_add b x : (b + 256 * x) mod 256 = b mod 256.
Proof. replace (b + 256 * x) with (b + x * 256) by lia. apply N.mod_add. lia. Qed.

Lemma div_256_add b x : b < 256 -> (b + 256 * x) / 256 = x.
Proof.
  intros H. replace (b + 256 * x) with (b + x * 256) by lia.
  rewrite N.div_add by lia. rewrite N.div_small by exact H. lia.
Qed.

(** what a decoder gets back: exactly the low [8w] bits *)
Theorem le_value_le_bytes n w : le_value (le_bytes n w) = n mod 2 ^ (8 * N.of_nat w).
Proof.
  revert n; induction w as [|w IH]; intros n.
  - cbn [le_bytes le_value]. change (8 * N.of_nat 0) with 0. rewrite N.pow_0_r, N.mod_1_r. reflexivity.
  - cbn [le_bytes le_value]. rewrite IH, pow256_S.
    rewrite N.mod_mul_r by (try apply pow2_nz; lia). reflexivity.
Qed.

(** TRUNCATION: encoding only sees the low [8w] bits, i.e. an [as uW] cast before the
    write changes nothing, and conversely every write is an implicit such cast. *)
Theorem le_bytes_trunc n w : le_bytes (n mod 2 ^ (8 * N.of_nat w)) w = le_bytes n w.
Proof.
  revert n; induction w as [|w IH]; intros n; cbn [le_bytes]; [reflexivity|].
  rewrite pow256_S.
  assert (E : n mod (256 * 2 ^ (8 * N.of_nat w)) = n mod 256 + 256 * ((n / 256) mod 2 ^ (8 * N.of_nat w))).
  { apply N.mod_mul_r; [lia|apply pow2_nz]. }
  rewrite E. f_equal.
  - rewrite mod_256_add. apply N.mod_mod. lia.
  - rewrite div_256_add by (apply N.mod_lt; lia). apply IH.
Qed.

Corollary be_bytes_trunc n w : be_bytes (n mod 2 ^ (8 * N.of_nat w)) w = be_bytes n w.
Proof. unfold be_bytes. now rewrite le_bytes_trunc. Qed.

Corollary le_bytes_cast bits n w :
  bits = 8 * N.of_nat w -> le_bytes (trunc bits n) w = le_bytes n w.
Proof. intros ->. apply le_bytes_trunc. Qed.

(** two numbers that differ by a multiple of [2^(8w)] are written identically *)
Corollary le_bytes_collision n k w : le_bytes (n + k * 2 ^ (8 * N.of_nat w)) w = le_bytes n w.
Proof.
  rewrite <- (le_bytes_trunc (n + _)), <- (le_bytes_trunc n).
  rewrite N.mod_add by apply pow2_nz. reflexivity.
Qed.

(** information is lost by the write EXACTLY when [n >= 2^(8w)] *)
Theorem le_lossless_iff n w : le_value (le_bytes n w) = n <-> n < 2 ^ (8 * N.of_nat w).
Proof.
  rewrite le_value_le_bytes. split; intros H.
  - rewrite <- H. apply N.mod_lt. apply pow2_nz.
  - now apply N.mod_small.
Qed.

Lemma take_bytes_app a rest : take_bytes (length a) (a ++ rest) = Some (a, rest).
Proof.
  induction a as [|b a IH]; cbn [length take_bytes app]; [reflexivity|]. now rewrite IH.
Qed.

Lemma take_bytes_short w l : (length l < w)%nat -> take_bytes w l = None.
Proof.
  revert l; induction w as [|w IH]; intros l H; [inversion H|].
  destruct l as [|b l]; cbn [take_bytes]; [reflexivity|].
  cbn [length] in H. rewrite IH by lia. reflexivity.
Qed.

Lemma take_bytes_spec w l a r : take_bytes w l = Some (a, r) -> l = a ++ r /\ length a = w.
Proof.
  revert l a r; induction w as [|w IH]; intros l a r H; cbn [take_bytes] in H.
  - inversion H; subst. split; reflexivity.
  - destruct l as [|b l]; [discriminate|].
    destruct (take_bytes w l) as [[a' r']|] eqn:E; [|discriminate].
    inversion H; subst. destruct (IH _ _ _ E) as [-> L]. split; [reflexivity|cbn; now rewrite L].
Qed.

Theorem le_roundtrip n w rest :
  n < 2 ^ (8 * N.of_nat w) -> read_le w (le_bytes n w ++ rest) = Some (n, rest).
Proof.
  intros H. unfold read_le.
  rewrite <- (le_bytes_length n w) at 1. rewrite take_bytes_app.
  apply le_lossless_iff in H. now rewrite H.
Qed.

(** without the range hypothesis the reader gets the truncated value back *)
Theorem le_roundtrip_trunc n w rest :
  read_le w (le_bytes n w ++ rest) = Some (n mod 2 ^ (8 * N.of_nat w), rest).
Proof.
  unfold read_le. rewrite <- (le_bytes_length n w) at 1. rewrite take_bytes_app.
  now rewrite le_value_le_bytes.
Qed.

(** short input is an error, never a default value *)
Theorem read_le_short w l : (length l < w)%nat -> read_le w l = None.
Proof. intros H. unfold read_le. now rewrite take_bytes_short. Qed.

Lemma be_value_acc_snoc l acc b : be_value_acc acc (l ++ [b]) = be_value_acc acc l * 256 + b.
Proof. revert acc; induction l as [|x l IH]; intros acc; cbn [app be_value_acc]; [reflexivity|apply IH]. Qed.

Lemma be_value_rev l : be_value (rev l) = le_value l.
Proof.
  induction l as [|b l IH]; [reflexivity|].
  cbn [rev le_value]. unfold be_value in *. rewrite be_value_acc_snoc, IH. lia.
Qed.

Theorem be_roundtrip n w rest :
  n < 2 ^ (8 * N.of_nat w) -> read_be w (be_bytes n w ++ rest) = Some (n, rest).
Proof.
  intros H. unfold read_be.
  rewrite <- (be_bytes_length n w) at 1. rewrite take_bytes_app.
  unfold be_bytes. rewrite be_value_rev. apply le_lossless_iff in H. now rewrite H.
Qed.

Theorem read_be_short w l : (length l < w)%nat -> read_be w l = None.
Proof. intros H. unfold read_be. now rewrite take_bytes_short. Qed.

(** the other direction: re-encoding decoded bytes reproduces them *)
Theorem le_bytes_le_value a : bytes_wf a -> le_bytes (le_value a) (length a) = a.
Proof.
  induction 1 as [|b a Hb Ha IH]; [reflexivity|].
  cbn [length le_value le_bytes]. f_equal.
  - rewrite mod_256_add. now apply N.mod_small.
  - rewrite div_256_add by assumption. exact IH.
Qed.

Corollary le_bytes_inj n m w :
  n < 2 ^ (8 * N.of_nat w) -> m < 2 ^ (8 * N.of_nat w) -> le_bytes n w = le_bytes m w -> n = m.
Proof.
  intros Hn Hm E. apply le_lossless_iff in Hn, Hm. rewrite <- Hn, <- Hm. now rewrite E.
Qed.

Example le_roundtrip_ex :
  write_u32_le 305419896 = [120; 86; 52; 18] /\
  read_u32_le ([120; 86; 52; 18] ++ [7]) = Some (305419896, [7]) /\
  be_bytes 305419896 4 = [18; 52; 86; 120] /\
  read_be 4 [18; 52; 86; 120; 7] = Some (305419896, [7]) /\
  read_u32_le [1; 2; 3] = None.
Proof. vm_compute. repeat split. Qed.

(** [256usize as u8 == 0], [2^32 + 5 as u32 == 5] *)
Example le_trunc_ex :
  write_u8 256 = write_u8 0 /\ write_u8 257 = [1] /\
  write_u32_le (2 ^ 32 + 5) = write_u32_le 5 /\
  read_u8 (write_u8 256) = Some (0, []).
Proof. vm_compute. repeat split. Qed.

(** * Varint *)

Lemma write_varint_go_wf fuel v : bytes_wf (write_varint_go fuel v).
Proof.
  revert v; induction fuel as [|f IH]; intros v; cbn [write_varint_go].
  - constructor; [|constructor]. rewrite land127. pose proof (N.mod_lt v 128); lia.
  - destruct (128 <=? v).
    + constructor; [|apply IH]. rewrite land127, lor128 by (apply N.mod_lt; lia).
      pose proof (N.mod_lt v 128); lia.
    + constructor; [|constructor]. rewrite land127. pose proof (N.mod_lt v 128); lia.
Qed.

Lemma write_varint_go_len fuel : forall v (k : nat),
  v < 2 ^ (7 * N.of_nat k) -> (1 <= k)%nat ->
  (1 <= length (write_varint_go fuel v) <= k)%nat.
Proof.
  induction fuel as [|f IH]; intros v k Hv Hk; cbn [write_varint_go].
  - cbn [length]. lia.
  - destruct (128 <=? v) eqn:E; [|cbn [length]; lia].
    apply N.leb_le in E. cbn [length].
    destruct k as [|k]; [lia|]. destruct k as [|k].
    { change (7 * N.of_nat 1) with 7 in Hv. change (2 ^ 7) with 128 in Hv. lia. }
    assert (Hv' : N.shiftr v 7 < 2 ^ (7 * N.of_nat (S k))).
    { rewrite shiftr7. apply N.div_lt_upper_bound; [lia|].
      replace (7 * N.of_nat (S (S k))) with (7 + 7 * N.of_nat (S k)) in Hv by lia.
      rewrite N.pow_add_r in Hv. exact Hv. }
    specialize (IH _ (S k) Hv' ltac:(lia)). lia.
Qed.

Theorem varint_bytes_wf n : bytes_wf (encode_varint n).
Proof.
  unfold encode_varint. destruct (n =? 0).
  - constructor; [lia|constructor].
  - apply write_varint_go_wf.
Qed.

Lemma encode_varint_len n (k : nat) :
  n < 2 ^ (7 * N.of_nat k) -> (1 <= k)%nat -> (1 <= length (encode_varint n) <= k)%nat.
Proof.
  intros H Hk. unfold encode_varint. destruct (n =? 0).
  - cbn [length]. lia.
  - now apply write_varint_go_len.
Qed.

(** length bounds: u64 -> 1..10 bytes, u32 -> 1..5, u16 -> 1..3 *)
Theorem varint_len_u64 n : n < 2 ^ 64 -> (1 <= length (encode_varint n) <= 10)%nat.
Proof.
  intros H. apply encode_varint_len; [|lia].
  eapply N.lt_le_trans; [exact H|]. apply N.pow_le_mono_r; lia.
Qed.
Theorem varint_len_u32 n : n < 2 ^ 32 -> (1 <= length (encode_varint n) <= 5)%nat.
Proof.
  intros H. apply encode_varint_len; [|lia].
  eapply N.lt_le_trans; [exact H|]. apply N.pow_le_mono_r; lia.
Qed.
Theorem varint_len_u16 n : n < 2 ^ 16 -> (1 <= length (encode_varint n) <= 3)%nat.
Proof.
  intros H. apply encode_varint_len; [|lia].
  eapply N.lt_le_trans; [exact H|]. apply N.pow_le_mono_r; lia.
Qed.

Lemma read_write_go bits rest : forall fuel v shift decoded,
  v < 2 ^ N.of_nat fuel -> decoded < 2 ^ shift -> shift < bits ->
  decoded + v * 2 ^ shift < 2 ^ bits ->
  read_varint_go bits shift decoded (write_varint_go fuel v ++ rest)
  = VOk (decoded + v * 2 ^ shift) rest.
Proof.
  induction fuel as [|f IH]; intros v shift decoded Hv Hd Hs Hb.
  - change (2 ^ N.of_nat 0) with 1 in Hv. assert (v = 0) by lia. subst v.
    cbn [write_varint_go app read_varint_go].
    assert (E : bits <=? shift = false) by (apply N.leb_gt; exact Hs). rewrite E.
    change (N.land 0 127) with 0. change (N.land 0 128 =? 128) with false. cbv iota.
    rewrite N.mul_0_l, N.mod_0_l by apply pow2_nz. rewrite N.lor_0_r, N.add_0_r. reflexivity.
  - cbn [write_varint_go].
    assert (E : bits <=? shift = false) by (apply N.leb_gt; exact Hs).
    set (P := 2 ^ shift) in *.
    assert (HP : 0 < P) by (unfold P; pose proof (pow2_nz shift); lia).
    pose proof (N.mod_lt v 128 ltac:(lia)) as Hm.
    pose proof (N.div_mod v 128 ltac:(lia)) as Hdm.
    destruct (128 <=? v) eqn:E128.
    + apply N.leb_le in E128.
      cbn [app read_varint_go]. rewrite E.
      rewrite land127, lor128 by exact Hm.
      assert (Eb : N.land (v mod 128 + 128) 127 = v mod 128).
      { rewrite land127. replace (v mod 128 + 128) with (v mod 128 + 1 * 128) by lia.
        rewrite N.mod_add by lia. apply N.mod_mod. lia. }
      rewrite Eb.
      assert (Ec : N.land (v mod 128 + 128) 128 =? 128 = true).
      { rewrite land128 by lia. apply N.leb_le. lia. }
      rewrite Ec. fold P.
      assert (Hchunk : v mod 128 * P <= v * P).
      { apply N.mul_le_mono_r. rewrite Hdm at 2. lia. }
      rewrite (N.mod_small (v mod 128 * P)) by lia.
      unfold P at 1. rewrite lor_add_pow2 by exact Hd. fold P.
      assert (EP : 2 ^ (shift + 7) = P * 128).
      { rewrite N.pow_add_r. reflexivity. }
      assert (Hq : 1 <= v / 128).
      { apply N.div_le_lower_bound; lia. }
      assert (Hsplit : v * P = v mod 128 * P + v / 128 * (P * 128)).
      { rewrite Hdm at 1. lia. }
      rewrite IH.
      * rewrite shiftr7, EP. f_equal. lia.
      * rewrite shiftr7. apply N.div_lt_upper_bound; [lia|].
        replace (N.of_nat (S f)) with (1 + N.of_nat f) in Hv by lia.
        rewrite N.pow_add_r in Hv. change (2 ^ 1) with 2 in Hv.
        pose proof (pow2_nz (N.of_nat f)). lia.
      * rewrite EP.
        assert (v mod 128 * P <= 127 * P) by (apply N.mul_le_mono_r; lia). lia.
      * assert (HH : 2 ^ (shift + 7) < 2 ^ bits).
        { rewrite EP.
          assert (1 * (P * 128) <= v / 128 * (P * 128)) by (apply N.mul_le_mono_r; exact Hq).
          lia. }
        apply N.pow_lt_mono_r_iff in HH; lia.
      * rewrite shiftr7, EP. lia.
    + apply N.leb_gt in E128.
      rewrite land127, (N.mod_small v 128) by exact E128.
      cbn [app read_varint_go]. rewrite E.
      rewrite land127, (N.mod_small v 128) by exact E128.
      assert (Ec : N.land v 128 =? 128 = false).
      { rewrite land128 by lia. apply N.leb_gt. exact E128. }
      rewrite Ec. fold P.
      rewrite (N.mod_small (v * P)) by lia.
      unfold P at 1. rewrite lor_add_pow2 by exact Hd. reflexivity.
Qed.

Lemma read_varint_encode bits n rest :
  0 < bits -> n < 2 ^ bits -> read_varint bits (encode_varint n ++ rest) = VOk n rest.
Proof.
  intros Hb Hn. unfold read_varint, encode_varint.
  destruct (n =? 0) eqn:E.
  - apply N.eqb_eq in E. subst n. cbn [app read_varint_go].
    assert (E : bits <=? 0 = false) by (apply N.leb_gt; exact Hb). rewrite E.
    change (N.land 0 127) with 0. change (N.land 0 128 =? 128) with false. cbv iota.
    rewrite N.mul_0_l, N.mod_0_l by apply pow2_nz. reflexivity.
  - rewrite read_write_go.
    + f_equal. rewrite N.pow_0_r. lia.
    + rewrite N2Nat.id. apply N.size_gt.
    + rewrite N.pow_0_r. lia.
    + exact Hb.
    + rewrite N.pow_0_r. lia.
Qed.

(** MAIN: per width (bits = 16, 32, 64; any [bits > 0] works) *)
Theorem varint_roundtrip_gen bits n rest :
  0 < bits -> n < 2 ^ bits -> decode_varint bits (encode_varint n ++ rest) = Some (n, rest).
Proof. intros Hb Hn. unfold decode_varint. now rewrite read_varint_encode. Qed.

Theorem varint_roundtrip n rest :
  n < 2 ^ 64 -> decode_varint 64 (encode_varint n ++ rest) = Some (n, rest).
Proof. apply varint_roundtrip_gen. lia. Qed.

Theorem varint_roundtrip_u32 n rest :
  n < 2 ^ 32 -> decode_varint 32 (encode_varint n ++ rest) = Some (n, rest).
Proof. apply varint_roundtrip_gen. lia. Qed.

Theorem varint_roundtrip_u16 n rest :
  n < 2 ^ 16 -> decode_varint 16 (encode_varint n ++ rest) = Some (n, rest).
Proof. apply varint_roundtrip_gen. lia. Qed.

(** the typed writers, which include the call-site cast: what comes back is the
    truncated value *)
Theorem write_read_u16_varint v rest :
  read_u16_varint (write_u16_varint v ++ rest) = Some (v mod 2 ^ 16, rest).
Proof. apply varint_roundtrip_gen; [lia|]. apply N.mod_lt. apply pow2_nz. Qed.
Theorem write_read_u32_varint v rest :
  read_u32_varint (write_u32_varint v ++ rest) = Some (v mod 2 ^ 32, rest).
Proof. apply varint_roundtrip_gen; [lia|]. apply N.mod_lt. apply pow2_nz. Qed.
Theorem write_read_u64_varint v rest :
  read_u64_varint (write_u64_varint v ++ rest) = Some (v mod 2 ^ 64, rest).
Proof. apply varint_roundtrip_gen; [lia|]. apply N.mod_lt. apply pow2_nz. Qed.

(** whenever the overflow-checked reader succeeds, the release build returns the same *)
Lemma release_agrees_go bits : forall l shift decoded n rest,
  read_varint_go bits shift decoded l = VOk n rest ->
  read_varint_release_go bits shift decoded l = Some (n, rest).
Proof.
  induction l as [|b l IH]; intros shift decoded n rest H; cbn [read_varint_go] in H; [discriminate|].
  destruct (bits <=? shift) eqn:E; [discriminate|]. apply N.leb_gt in E.
  cbn [read_varint_release_go]. rewrite (N.mod_small shift bits) by exact E.
  destruct (N.land b 128 =? 128).
  - now apply IH.
  - now inversion H.
Qed.

Theorem varint_release_agrees bits l n rest :
  read_varint bits l = VOk n rest -> read_varint_release bits l = Some (n, rest).
Proof. apply release_agrees_go. Qed.

Corollary varint_roundtrip_release bits n rest :
  0 < bits -> n < 2 ^ bits -> read_varint_release bits (encode_varint n ++ rest) = Some (n, rest).
Proof. intros Hb Hn. apply varint_release_agrees. now apply read_varint_encode. Qed.

(** empty / cut-off input is an error *)
Theorem decode_varint_nil bits : decode_varint bits [] = None.
Proof. reflexivity. Qed.

(** ** Examples (varint-rs doc example: 300 takes two bytes) *)
Example varint_300 :
  encode_varint 300 = [172; 2] /\ decode_varint 32 [172; 2; 9] = Some (300, [9]) /\
  encode_varint 0 = [0] /\ encode_varint 127 = [127] /\ encode_varint 128 = [128; 1] /\
  length (encode_varint (2 ^ 64 - 1)) = 10%nat /\
  decode_varint 64 (encode_varint (2 ^ 64 - 1)) = Some (2 ^ 64 - 1, []).
Proof. vm_compute. repeat split. Qed.

(** cut-off input: error *)
Example varint_eof : read_varint 64 [172] = VEof /\ read_varint 64 [] = VEof.
Proof. vm_compute. split; reflexivity. Qed.

(** SURPRISES of varint-rs [read_varint!] (no length limit, no overflow error):
    (a) non-canonical encodings are accepted: [0x80 0x00] is 0;
    (b) bits beyond the type width are silently dropped: a 5-byte u32 varint whose last
        byte is 0x7f decodes to [2^32-1] although it denotes [2^35-1];
        a u64-sized value read with [read_u16_varint] is silently reduced mod 2^16;
    (c) a 6th continuation byte for u32 (4th for u16, 11th for u64) makes [<< shift]
        overflow: panic with overflow checks, and in release the shift wraps to
        [shift mod bits], OR-ing the extra bits into the low end of the result. *)
Example varint_noncanonical : decode_varint 64 [128; 0] = Some (0, []).
Proof. vm_compute. reflexivity. Qed.

Example varint_overlong_truncates :
  decode_varint 32 [255; 255; 255; 255; 127] = Some (2 ^ 32 - 1, []) /\
  encode_varint 70000 = [240; 162; 4] /\
  decode_varint 16 [240; 162; 4] = Some (70000 mod 2 ^ 16, []).
Proof. vm_compute. repeat split. Qed.

Example varint_overlong_panics :
  read_varint 32 [128; 128; 128; 128; 128; 1] = VShiftPanic /\
  read_varint_release 32 [128; 128; 128; 128; 128; 1] = Some (8, []) /\
  read_varint 16 [128; 128; 128; 1] = VShiftPanic /\
  read_varint 64 [128; 128; 128; 128; 128; 128; 128; 128; 128; 128; 1] = VShiftPanic.
Proof. vm_compute. repeat split. Qed.

(** hypotheses of the main theorems are satisfiable, non-trivially *)
Example varint_roundtrip_ex :
  123456789012345 < 2 ^ 64 /\
  decode_varint 64 (encode_varint 123456789012345 ++ [1; 2]) = Some (123456789012345, [1; 2]) /\
  bytes_wfb (encode_varint 123456789012345) = true.
Proof. vm_compute. repeat split. Qed.

Print Assumptions varint_roundtrip.
Print Assumptions varint_roundtrip_gen.
Print Assumptions varint_roundtrip_u32.
Print Assumptions varint_roundtrip_u16.
Print Assumptions varint_bytes_wf.
Print Assumptions varint_len_u64.
Print Assumptions varint_release_agrees.
Print Assumptions le_roundtrip.
Print Assumptions be_roundtrip.
Print Assumptions le_bytes_trunc.
Print Assumptions le_lossless_iff.
Print Assumptions le_bytes_le_value.
